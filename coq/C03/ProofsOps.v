(** C03 — proofs, part 3: every vm.StateDB method (a) acts on the view exactly as the reference
    operation [vstep] and returns the same value, and (b) only prepends journal entries whose
    reverts lead back to the previous view ([ok]). *)
From Coq Require Import ZArith List Bool Lia.
Import ListNotations.
Require Import Nib.C03.Model Nib.C03.Ref Nib.C03.Spec Nib.C03.ProofsBase Nib.C03.ProofsUndo.
Local Open Scope Z_scope.

(** number of entries whose [Dirtied] is [a] *)
Fixpoint count_dirty (a : addr) (j : list entry) : Z :=
  match j with
  | [] => 0
  | e :: rest => (match dirtied e with Some b => if b =? a then 1 else 0 | None => 0 end) + count_dirty a rest
  end.

Lemma count_dirty_nonneg a j : 0 <= count_dirty a j.
Proof. induction j as [|e j IH]; simpl; [lia|]. destruct (dirtied e) as [b|]; [destruct (b =? a)|]; lia. Qed.
Lemma count_dirty_app a j1 j2 : count_dirty a (j1 ++ j2) = count_dirty a j1 + count_dirty a j2.
Proof. induction j1 as [|e j1 IH]; simpl; [reflexivity|]. rewrite IH. lia. Qed.

(** accounts none of the new entries is charged to look as before *)
Definition same_at (v v' : view) (b : addr) : Prop :=
  v_acct v' b = v_acct v b /\ forall k, v_stor v' b k = v_stor v b k.
Definition frame (new : list entry) (v v' : view) : Prop :=
  forall b, count_dirty b new = 0 -> same_at v v' b.

Lemma same_at_veq v v' b : veq v' v -> same_at v v' b.
Proof. intros []. split; auto. Qed.
Lemma same_at_trans v1 v2 v3 b : same_at v1 v2 b -> same_at v2 v3 b -> same_at v1 v3 b.
Proof. intros [A1 B1] [A2 B2]. split; [congruence|]. intro k. rewrite B2. apply B1. Qed.

(** [s'] extends the journal of [s]; reverting the new entries restores the view of [s];
    only accounts charged in [Journal.dirties] changed *)
Definition ok (s s' : sdb) : Prop :=
  kp s' = kp s /\
  exists new, journal s' = new ++ journal s /\ veq (vunwind (kp s) new (V s')) (V s) /\
              frame new (V s) (V s').

Lemma ok_same s s' : kp s' = kp s -> journal s' = journal s -> veq (V s') (V s) -> ok s s'.
Proof.
  intros K J H. split; [exact K|]. exists []. split; [exact J|]. split; [exact H|].
  intros b _. apply same_at_veq, H.
Qed.

Lemma ok_refl s : ok s s.
Proof. apply ok_same; auto using veq_refl. Qed.

Lemma ok_trans s1 s2 s3 : ok s1 s2 -> ok s2 s3 -> ok s1 s3.
Proof.
  intros (K1 & n1 & J1 & H1 & F1) (K2 & n2 & J2 & H2 & F2). split; [congruence|].
  exists (n2 ++ n1). split; [rewrite J2, J1, app_assoc; reflexivity|]. split.
  - rewrite vunwind_app. rewrite K1 in H2.
    eapply veq_trans; [apply vunwind_veq, H2|exact H1].
  - intros b Hb. rewrite count_dirty_app in Hb.
    pose proof (count_dirty_nonneg b n1). pose proof (count_dirty_nonneg b n2).
    eapply same_at_trans; [apply F1; lia|apply F2; lia].
Qed.

(** a change confined to [a] by entries charged to [a] *)
Lemma frame_one new v v' a :
  0 < count_dirty a new -> (forall b, b <> a -> same_at v v' b) -> frame new v v'.
Proof. intros Hc H b Hb. apply H. intros ->. lia. Qed.

Lemma same_at_vput kp0 v v' a o b : veq v' (vput kp0 v a o) -> b <> a -> same_at v v' b.
Proof.
  intros [] Hne. split; [rewrite eq_acct|intro k; rewrite eq_stor]; simpl; unfold upd;
    destruct (Z.eqb_spec b a); try contradiction; reflexivity.
Qed.

Lemma ok_loaded s a : ok s (snd (get_obj s a)).
Proof. apply ok_same; [apply kp_loaded | apply journal_loaded | apply V_loaded]. Qed.

(** ** getOrNewStateObject *)
Definition blank_obj : obj := new_obj 0 0 0.

Lemma get_obj_none s a : lookup s a = None -> get_obj s a = (None, s).
Proof.
  intro H. rewrite get_obj_eq, H. f_equal. rewrite get_obj_snd.
  rewrite lookup_def in H. destruct (objs s a); [discriminate|]. rewrite H. reflexivity.
Qed.

Lemma get_or_new_some s a o : lookup s a = Some o -> get_or_new s a = (o, snd (get_obj s a)).
Proof. intro H. unfold get_or_new. rewrite get_obj_eq, H. reflexivity. Qed.

Lemma get_or_new_none s a : lookup s a = None ->
  get_or_new s a = (blank_obj, set_obj (push s (ECreate a)) a blank_obj).
Proof.
  intro H. unfold get_or_new, create_object. rewrite !(get_obj_none s a H). reflexivity.
Qed.

Definition obj_or_blank (s : sdb) (a : addr) : obj :=
  match lookup s a with Some o => o | None => blank_obj end.

Lemma vdrop_vput_none s a o : lookup s a = None -> veq (vdrop (kp s) (vput (kp s) (V s) a o) a) (V s).
Proof.
  intro H. pose proof (lookup_none_kobj s a H) as Hk.
  split; simpl; intros; try reflexivity; unfold upd; destruct (Z.eqb_spec a0 a); subst;
    rewrite ?Hk, ?H; reflexivity.
Qed.

Lemma vput_lookup s a o : lookup s a = Some o -> veq (vput (kp s) (V s) a o) (V s).
Proof.
  intro H. apply vput_same; simpl; intros; rewrite H; reflexivity.
Qed.

Lemma get_or_new_spec s a :
  let o := fst (get_or_new s a) in let s1 := snd (get_or_new s a) in
  o = obj_or_blank s a /\ lookup s1 a = Some o /\
  veq (V s1) (vput (kp s) (V s) a o) /\ ok s s1.
Proof.
  unfold obj_or_blank. destruct (lookup s a) as [o|] eqn:Hl.
  - rewrite (get_or_new_some s a o Hl). simpl.
    split; [reflexivity|]. split; [rewrite lookup_loaded; exact Hl|].
    split; [|apply ok_loaded].
    eapply veq_trans; [apply V_loaded|]. apply veq_sym, vput_lookup, Hl.
  - rewrite (get_or_new_none s a Hl). simpl.
    split; [reflexivity|]. split; [rewrite lookup_set_obj, Z.eqb_refl; reflexivity|].
    assert (HV : veq (V (set_obj (push s (ECreate a)) a blank_obj)) (vput (kp s) (V s) a blank_obj)).
    { eapply veq_trans; [apply V_set_obj|]. rewrite kp_push. apply vput_veq, V_push. }
    split; [exact HV|].
    split; [apply kp_push|]. exists [ECreate a]. split; [rewrite journal_set_obj, journal_push; reflexivity|].
    split.
    + cbn [vunwind fold_left vundo]. eapply veq_trans; [apply vdrop_veq, HV|]. apply vdrop_vput_none, Hl.
    + apply (frame_one _ _ _ a); [simpl; rewrite Z.eqb_refl; lia|].
      intros b Hb. eapply same_at_vput; eauto.
Qed.

(** ** a journaled update of the object at [a] *)
Lemma vput_vput kp0 v a o o' : veq (vput kp0 (vput kp0 v a o) a o') (vput kp0 v a o').
Proof.
  split; simpl; intros; try reflexivity; unfold upd; destruct (Z.eqb_spec a0 a); subst; reflexivity.
Qed.

Lemma journaled_set s1 a o e o' :
  lookup s1 a = Some o -> dirtied e = Some a ->
  (forall v, veq (vundo (kp s1) e (vput (kp s1) v a o')) (vput (kp s1) v a o)) ->
  veq (V (set_obj (push s1 e) a o')) (vput (kp s1) (V s1) a o') /\ ok s1 (set_obj (push s1 e) a o').
Proof.
  intros Hl Hd Hu.
  assert (HV : veq (V (set_obj (push s1 e) a o')) (vput (kp s1) (V s1) a o')).
  { eapply veq_trans; [apply V_set_obj|]. rewrite kp_push. apply vput_veq, V_push. }
  split; [exact HV|]. split; [apply kp_push|].
  exists [e]. split; [rewrite journal_set_obj, journal_push; reflexivity|]. split.
  - cbn [vunwind fold_left]. eapply veq_trans; [apply vundo_veq, HV|].
    eapply veq_trans; [apply Hu|]. apply vput_lookup, Hl.
  - apply (frame_one _ _ _ a); [simpl; rewrite Hd, Z.eqb_refl; lia|].
    intros b Hb. eapply same_at_vput; eauto.
Qed.

Lemma mutator s a (E : obj -> entry) (F : obj -> obj) :
  (forall o, dirtied (E o) = Some a) ->
  (forall v o, veq (vundo (kp s) (E o) (vput (kp s) v a (F o))) (vput (kp s) v a o)) ->
  let s' := (let '(o, s1) := get_or_new s a in set_obj (push s1 (E o)) a (F o)) in
  veq (V s') (vput (kp s) (V s) a (F (obj_or_blank s a))) /\ ok s s'.
Proof.
  intros Hd Hu. destruct (get_or_new_spec s a) as (Ho & Hl & HV & Hok).
  destruct (get_or_new s a) as [o s1]. simpl in *. subst o.
  destruct Hok as (K & Hok'). 
  destruct (journaled_set s1 a _ (E (obj_or_blank s a)) (F (obj_or_blank s a)) Hl (Hd _)) as (HV2 & Hok2).
  { intro v. rewrite K. apply Hu. }
  split.
  - eapply veq_trans; [exact HV2|]. rewrite K.
    eapply veq_trans; [apply vput_veq, HV|]. apply vput_vput.
  - eapply ok_trans; [split; [exact K|exact Hok']|exact Hok2].
Qed.

(** the object the setters work on shows what the view shows *)
Lemma aview_blank : aview_of blank_obj = blank. Proof. reflexivity. Qed.

Lemma aview_obj_or_blank s a : aview_of (obj_or_blank s a) = vget_or_new (V s) a.
Proof. unfold obj_or_blank, vget_or_new. simpl. destruct (lookup s a); reflexivity. Qed.
Lemma st_obj_or_blank s a k : st (kp s) a (obj_or_blank s a) k = v_stor (V s) a k.
Proof. unfold obj_or_blank. simpl. destruct (lookup s a); reflexivity. Qed.
Lemma comm_obj_or_blank s a k : comm (kp s) a (obj_or_blank s a) k = v_comm (V s) a k.
Proof. unfold obj_or_blank. simpl. destruct (lookup s a); reflexivity. Qed.

Lemma vput_field s a (F : obj -> obj) (G : aview -> aview) :
  (forall o, aview_of (F o) = G (aview_of o)) ->
  (forall o k, st (kp s) a (F o) k = st (kp s) a o k) ->
  (forall o k, comm (kp s) a (F o) k = comm (kp s) a o k) ->
  veq (vput (kp s) (V s) a (F (obj_or_blank s a))) (vset_acct (V s) a (Some (G (vget_or_new (V s) a)))).
Proof.
  intros HG Hs Hc.
  split; cbn [vput vset_acct vset_stor vset_comm v_acct v_stor v_comm v_refund v_logs v_ala v_als];
    intros; try reflexivity; unfold upd; destruct (Z.eqb_spec a0 a); subst; try reflexivity.
  - rewrite HG, aview_obj_or_blank. reflexivity.
  - rewrite Hs. apply st_obj_or_blank.
  - rewrite Hc. apply comm_obj_or_blank.
Qed.

(** reverting a field update *)
Lemma vundo_field kp0 a e (F : obj -> obj) (G' : aview -> aview) :
  (forall v, vundo kp0 e v = vmod v a G') ->
  forall v o,
  G' (aview_of (F o)) = aview_of o ->
  (forall k, st kp0 a (F o) k = st kp0 a o k) -> (forall k, comm kp0 a (F o) k = comm kp0 a o k) ->
  veq (vundo kp0 e (vput kp0 v a (F o))) (vput kp0 v a o).
Proof.
  intros He v o HG Hs Hc. rewrite He. unfold vmod.
  cbn [vput vset_acct vset_stor vset_comm v_acct]. rewrite upd_same.
  split; cbn [vput vset_acct vset_stor vset_comm v_acct v_stor v_comm v_refund v_logs v_ala v_als];
    intros; try reflexivity; unfold upd; destruct (Z.eqb_spec a0 a); subst; try reflexivity;
    rewrite ?Z.eqb_refl; auto.
  rewrite HG. reflexivity.
Qed.

(** ** the statement proved for every method *)
Definition sim_op (o : op) (s : sdb) : Prop :=
  snd (step_core o s) = snd (vstep o (V s)) /\
  veq (V (fst (step_core o s))) (fst (vstep o (V s))) /\
  ok s (fst (step_core o s)).

Ltac vcases a0 a :=
  cbn [vput vset_acct vset_stor vset_comm vset_refund vset_logs vset_al
       v_acct v_stor v_comm v_refund v_logs v_ala v_als];
  intros; try reflexivity; unfold upd; destruct (Z.eqb_spec a0 a); subst; try reflexivity.

(** *** SetNonce / SetCode / AddBalance / SubBalance *)
Lemma sim_set_nonce s a n : sim_op (OSetNonce a n) s.
Proof.
  unfold sim_op. cbn [step_core vstep fst snd]. split; [reflexivity|].
  destruct (mutator s a (fun o => ENonce a (nonce o)) (fun o => with_nonce o n)) as (HV & Hok); [reflexivity| |].
  { intros v o. apply (vundo_field (kp s) a _ (fun o => with_nonce o n) (fun x => av_with_nonce x (nonce o)));
      try reflexivity. }
  split; [|exact Hok].
  eapply veq_trans; [exact HV|]. apply (vput_field s a (fun o => with_nonce o n) (fun x => av_with_nonce x n)); reflexivity.
Qed.

Lemma sim_set_code s a c : sim_op (OSetCode a c) s.
Proof.
  unfold sim_op. cbn [step_core vstep fst snd]. split; [reflexivity|].
  destruct (mutator s a (fun o => ECode a (chash o)) (fun o => with_code o c)) as (HV & Hok); [reflexivity| |].
  { intros v o. apply (vundo_field (kp s) a _ (fun o => with_code o c) (fun x => av_with_code x (chash o)));
      try reflexivity. }
  split; [|exact Hok].
  eapply veq_trans; [exact HV|]. apply (vput_field s a (fun o => with_code o c) (fun x => av_with_code x c)); reflexivity.
Qed.

Lemma av_with_bal_same x : av_with_bal x (av_bal x) = x.
Proof. destruct x; reflexivity. Qed.

Lemma sim_balance_gen s a (d : Z) :
  let s' := (let '(o, s1) := get_or_new s a in if d =? 0 then s1 else set_balance s1 a o (bal o + d)) in
  veq (V s') (vset_acct (V s) a (Some (av_with_bal (vget_or_new (V s) a) (av_bal (vget_or_new (V s) a) + d)))) /\
  ok s s'.
Proof.
  destruct (Z.eqb_spec d 0) as [->|Hd].
  - destruct (get_or_new_spec s a) as (Ho & Hl & HV & Hok).
    destruct (get_or_new s a) as [o s1]. simpl in *. subst o. split; [|exact Hok].
    eapply veq_trans; [exact HV|]. rewrite Z.add_0_r, av_with_bal_same.
    apply (vput_field s a (fun o => o) (fun x => x)); reflexivity.
  - destruct (mutator s a (fun o => EBalance a (bal o)) (fun o => with_bal o (bal o + d))) as (HV & Hok); [reflexivity| |].
    { intros v o. apply (vundo_field (kp s) a _ (fun o => with_bal o (bal o + d)) (fun x => av_with_bal x (bal o)));
        try reflexivity. }
    unfold set_balance. split; [|exact Hok].
    eapply veq_trans; [exact HV|].
    apply (vput_field s a (fun o => with_bal o (bal o + d)) (fun x => av_with_bal x (av_bal x + d))); reflexivity.
Qed.

Lemma sim_add_balance s a d : sim_op (OAddBalance a d) s.
Proof.
  unfold sim_op. cbn [step_core vstep fst snd]. split; [reflexivity|]. apply sim_balance_gen.
Qed.

Lemma sim_sub_balance s a d : sim_op (OSubBalance a d) s.
Proof.
  unfold sim_op. cbn [step_core vstep fst snd]. split; [reflexivity|].
  pose proof (sim_balance_gen s a (- d)) as H. unfold sub_balance.
  replace (- d =? 0) with (d =? 0) in H
    by (destruct (Z.eqb_spec d 0), (Z.eqb_spec (- d) 0); try reflexivity; lia).
  replace (fun o => bal o - d) with (fun o => bal o - d) in H by reflexivity.
  destruct (get_or_new s a) as [o s1]. replace (bal o - d) with (bal o + - d) by lia.
  replace (av_bal (vget_or_new (V s) a) - d) with (av_bal (vget_or_new (V s) a) + - d) by lia. exact H.
Qed.

(** *** reads through getStateObject *)
Lemma sim_read s a (f : option obj -> ret) (g : option aview -> ret) :
  (forall o, f o = g (option_map aview_of o)) ->
  snd (read_obj s a f) = g (v_acct (V s) a) /\ veq (V (fst (read_obj s a f))) (V s) /\ ok s (fst (read_obj s a f)).
Proof.
  intro H. unfold read_obj. rewrite get_obj_eq. cbn [fst snd].
  split; [apply H|]. split; [apply V_loaded|apply ok_loaded].
Qed.

Ltac read_tac :=
  unfold sim_op; cbn [step_core vstep fst snd];
  match goal with |- snd (read_obj ?s ?a ?f) = ?r /\ _ =>
    let H := fresh in
    pose proof (sim_read s a f (fun x => match x with Some y => _ | None => _ end)) as H;
    apply H; intros [o|]; reflexivity
  end.

Lemma sim_get_balance s a : sim_op (OGetBalance a) s.
Proof.
  unfold sim_op; cbn [step_core vstep fst snd].
  apply (sim_read s a _ (fun x => match x with Some y => [av_bal y] | None => [0] end)). intros [o|]; reflexivity.
Qed.
Lemma sim_get_nonce s a : sim_op (OGetNonce a) s.
Proof.
  unfold sim_op; cbn [step_core vstep fst snd].
  apply (sim_read s a _ (fun x => match x with Some y => [av_nonce y] | None => [0] end)). intros [o|]; reflexivity.
Qed.
Lemma sim_get_code_hash s a : sim_op (OGetCodeHash a) s.
Proof.
  unfold sim_op; cbn [step_core vstep fst snd].
  apply (sim_read s a _ (fun x => match x with Some y => [av_code y] | None => [NOHASH] end)). intros [o|]; reflexivity.
Qed.
Lemma sim_get_code s a : sim_op (OGetCode a) s.
Proof.
  unfold sim_op; cbn [step_core vstep fst snd].
  apply (sim_read s a _ (fun x => match x with Some y => [av_code y] | None => [0] end)). intros [o|]; reflexivity.
Qed.
Lemma sim_get_code_size s a : sim_op (OGetCodeSize a) s.
Proof.
  unfold sim_op; cbn [step_core vstep fst snd].
  apply (sim_read s a _ (fun x => match x with Some y => [av_code y] | None => [0] end)). intros [o|]; reflexivity.
Qed.
Lemma sim_has_suicided s a : sim_op (OHasSuicided a) s.
Proof.
  unfold sim_op; cbn [step_core vstep fst snd].
  apply (sim_read s a _ (fun x => match x with Some y => rbool (av_suic y) | None => rbool false end)). intros [o|]; reflexivity.
Qed.
Lemma sim_exist s a : sim_op (OExist a) s.
Proof.
  unfold sim_op; cbn [step_core vstep fst snd].
  apply (sim_read s a _ (fun x => match x with Some y => rbool true | None => rbool false end)). intros [o|]; reflexivity.
Qed.
Lemma sim_empty s a : sim_op (OEmpty a) s.
Proof.
  unfold sim_op; cbn [step_core vstep fst snd].
  apply (sim_read s a _ (fun x => match x with Some y => rbool (av_empty y) | None => rbool true end)). intros [o|]; reflexivity.
Qed.

(** *** GetState / GetCommittedState (fill OriginStorage) *)
Lemma recache s a o o' :
  lookup s a = Some o -> aview_of o' = aview_of o ->
  (forall k, st (kp s) a o' k = st (kp s) a o k) -> (forall k, comm (kp s) a o' k = comm (kp s) a o k) ->
  veq (V (set_obj (snd (get_obj s a)) a o')) (V s) /\ ok s (set_obj (snd (get_obj s a)) a o').
Proof.
  intros Hl Ha Hs Hc.
  assert (HV : veq (V (set_obj (snd (get_obj s a)) a o')) (V s)).
  { eapply veq_trans; [apply V_set_obj|]. rewrite kp_loaded.
    eapply veq_trans; [apply vput_veq, V_loaded|].
    apply vput_same; simpl; intros; rewrite Hl; simpl; auto. rewrite Ha. reflexivity. }
  split; [exact HV|]. apply ok_same; [apply kp_loaded | apply journal_loaded | exact HV].
Qed.

Lemma sim_get_state s a k : sim_op (OGetState a k) s.
Proof.
  unfold sim_op; cbn [step_core vstep fst snd]. unfold get_state.
  rewrite get_obj_eq. simpl v_acct. destruct (lookup s a) as [o|] eqn:Hl; cbn [fst snd option_map].
  - rewrite kp_loaded. split; [simpl; rewrite Hl; reflexivity|].
    apply (recache s a o); [exact Hl | apply aview_cache_state | intro; apply st_cache_state | intro; apply comm_cache_state].
  - split; [reflexivity|]. split; [apply V_loaded|apply ok_loaded].
Qed.

Lemma sim_get_committed s a k : sim_op (OGetCommittedState a k) s.
Proof.
  unfold sim_op; cbn [step_core vstep fst snd]. unfold get_committed.
  rewrite get_obj_eq. simpl v_acct. destruct (lookup s a) as [o|] eqn:Hl; cbn [fst snd option_map].
  - rewrite kp_loaded. split; [simpl; rewrite Hl; reflexivity|].
    apply (recache s a o); [exact Hl | apply aview_cache_origin | intro; apply st_cache_origin | intro; apply comm_cache_origin].
  - split; [reflexivity|]. split; [apply V_loaded|apply ok_loaded].
Qed.

(** *** SetState *)
Lemma sim_set_state s a k w : sim_op (OSetState a k w) s.
Proof.
  unfold sim_op. cbn [step_core vstep fst snd]. split; [reflexivity|]. unfold set_state.
  destruct (get_or_new_spec s a) as (Ho & Hl & HV & Hok).
  destruct (get_or_new s a) as [o s1]. cbn [fst snd] in *. subst o. set (o := obj_or_blank s a) in *.
  assert (K : kp s1 = kp s) by apply Hok.
  set (o1 := cache_state (kp s1) a o k).
  assert (Ha1 : aview_of o1 = aview_of o) by apply aview_cache_state.
  assert (Hs1 : forall k', st (kp s1) a o1 k' = st (kp s1) a o k') by (intro; apply st_cache_state).
  assert (Hc1 : forall k', comm (kp s1) a o1 k' = comm (kp s1) a o k') by (intro; apply comm_cache_state).
  (* the view after get_or_new, explicitly *)
  assert (HV1 : veq (V s1) (vset_acct (V s) a (Some (vget_or_new (V s) a)))).
  { eapply veq_trans; [exact HV|]. apply (vput_field s a (fun o => o) (fun x => x)); reflexivity. }
  destruct (Z.eqb_spec (st (kp s1) a o k) w) as [Heq|Hne].
  - (* unchanged value: nothing is journaled *)
    assert (HV2 : veq (V (set_obj s1 a o1)) (V s1)).
    { eapply veq_trans; [apply V_set_obj|]. apply vput_same; simpl; intros; rewrite Hl; simpl; auto.
      rewrite Ha1. reflexivity. }
    split.
    + eapply veq_trans; [exact HV2|]. eapply veq_trans; [exact HV1|].
      split; vcases a0 a. destruct (Z.eqb_spec k0 k); [subst|reflexivity].
      rewrite K. symmetry. apply st_obj_or_blank.
    + eapply ok_trans; [exact Hok|]. apply ok_same; [reflexivity|reflexivity|exact HV2].
  - destruct (journaled_set s1 a o (EStorage a k (st (kp s1) a o k)) (with_dirty o1 k w) Hl eq_refl) as (HV2 & Hok2).
    { intro v. cbn [vundo vput vset_acct vset_stor vset_comm v_acct v_stor]. rewrite upd_same.
      split; vcases a0 a.
      - change (aview_of (with_dirty o1 k w)) with (aview_of o1). rewrite Ha1. reflexivity.
      - rewrite Z.eqb_refl, st_with_dirty. destruct (Z.eqb_spec k0 k); [subst; reflexivity|apply Hs1].
      - rewrite comm_with_dirty. apply Hc1. }
    split; [|eapply ok_trans; [exact Hok|exact Hok2]].
    eapply veq_trans; [exact HV2|]. eapply veq_trans; [apply vput_veq, HV1|].
    split; vcases a0 a.
    + change (aview_of (with_dirty o1 k w)) with (aview_of o1). rewrite Ha1. unfold o. rewrite aview_obj_or_blank. reflexivity.
    + rewrite st_with_dirty. destruct (Z.eqb_spec k0 k); [reflexivity|].
      rewrite Hs1, K. apply st_obj_or_blank.
    + rewrite comm_with_dirty, Hc1, K. apply comm_obj_or_blank.
Qed.

(** *** Suicide *)
Lemma sim_suicide s a : sim_op (OSuicide a) s.
Proof.
  unfold sim_op. cbn [step_core vstep]. unfold suicide. rewrite get_obj_eq. simpl v_acct.
  destruct (lookup s a) as [o|] eqn:Hl; cbn [fst snd option_map].
  - split; [reflexivity|].
    assert (Hl1 : lookup (snd (get_obj s a)) a = Some o) by (rewrite lookup_loaded; exact Hl).
    destruct (journaled_set _ a o (ESuicide a (suicided o) (bal o)) (with_bal (with_suicided o true) 0) Hl1 eq_refl)
      as (HV2 & Hok2).
    { intro v. apply (vundo_field _ a _ (fun o => with_bal (with_suicided o true) 0)
                        (fun x => av_with_bal (av_with_suic x (suicided o)) (bal o))); try reflexivity;
        try (destruct o; reflexivity). }
    split; [|eapply ok_trans; [apply ok_loaded|exact Hok2]].
    eapply veq_trans; [exact HV2|]. rewrite kp_loaded.
    eapply veq_trans; [apply vput_veq, V_loaded|].
    split; vcases a0 a; simpl; rewrite Hl; reflexivity.
  - split; [reflexivity|]. split; [apply V_loaded|apply ok_loaded].
Qed.

(** *** CreateAccount — the only method that needs the usage protocol *)
Lemma sim_create s a : wf_create (k_stor (kp s)) (V s) a -> sim_op (OCreateAccount a) s.
Proof.
  intros (Hbase & Hwf). unfold sim_op. cbn [step_core vstep fst snd]. split; [reflexivity|].
  unfold create_account, create_object. rewrite get_obj_eq. simpl v_acct in *.
  destruct (lookup s a) as [p|] eqn:Hl; cbn [option_map] in *.
  - (* an object exists: resetObjectChange, balance carried over *)
    set (s0 := snd (get_obj s a)).
    assert (K0 : kp s0 = kp s) by apply kp_loaded.
    set (nw := with_bal (new_obj 0 0 0) (bal p)).
    assert (HV : veq (V (set_obj (set_obj (push s0 (EReset a p)) a (new_obj 0 0 0)) a nw))
                     (vput (kp s) (V s) a nw)).
    { eapply veq_trans; [apply V_set_obj|]. cbn [kp set_obj set_objs]. rewrite kp_push, K0.
      eapply veq_trans; [apply vput_veq, V_set_obj|]. cbn [kp set_obj set_objs]. rewrite kp_push, K0.
      eapply veq_trans; [apply vput_vput|]. apply vput_veq.
      eapply veq_trans; [apply V_push|apply V_loaded]. }
    split.
    + eapply veq_trans; [exact HV|].
      split; vcases a0 a; unfold st, comm; simpl; apply Hbase.
    + split; [cbn [kp set_obj set_objs]; rewrite kp_push; exact K0|].
      exists [EReset a p]. split.
      { cbn [journal set_obj set_objs]. rewrite journal_push. unfold s0. rewrite journal_loaded. reflexivity. }
      split.
      * cbn [vunwind fold_left vundo]. eapply veq_trans; [apply vput_veq, HV|].
        eapply veq_trans; [apply vput_vput|]. apply vput_lookup, Hl.
      * (* resetObjectChange is charged to nobody: under the protocol the account looks the same *)
        intros b _. destruct Hwf as (Hn & Hc & Hsu & Hst).
        destruct HV as [Ea Es _ _ _ _ _].
        split; [rewrite Ea|intro k; rewrite Es]; simpl; unfold upd; destruct (Z.eqb_spec b a); subst; try reflexivity.
        -- rewrite Hl. simpl. destruct p; simpl in *. subst. reflexivity.
        -- change (st (kp s) a nw k = v_stor (V s) a k). rewrite Hst. unfold st, comm. simpl. apply Hbase.
  - (* no object: createObjectChange *)
    rewrite (get_obj_none s a Hl). cbn [fst snd].
    assert (HV : veq (V (set_obj (push s (ECreate a)) a (new_obj 0 0 0))) (vput (kp s) (V s) a blank_obj)).
    { eapply veq_trans; [apply V_set_obj|]. cbn [kp set_obj set_objs]. rewrite kp_push. apply vput_veq, V_push. }
    split.
    + eapply veq_trans; [exact HV|].
      split; vcases a0 a; unfold st, comm; simpl; apply Hbase.
    + split; [cbn [kp set_obj set_objs]; apply kp_push|].
      exists [ECreate a]. split; [cbn [journal set_obj set_objs]; rewrite journal_push; reflexivity|].
      split.
      * cbn [vunwind fold_left vundo]. eapply veq_trans; [apply vdrop_veq, HV|]. apply vdrop_vput_none, Hl.
      * apply (frame_one _ _ _ a); [simpl; rewrite Z.eqb_refl; lia|].
        intros b Hb. eapply same_at_vput; eauto.
Qed.

(** *** refund counter, logs *)
Lemma V_scalar_push s e : veq (V (push s e)) (V s). Proof. apply V_push. Qed.

Lemma frame_scalar new v v' :
  (forall a, v_acct v' a = v_acct v a) -> (forall a k, v_stor v' a k = v_stor v a k) -> frame new v v'.
Proof. intros A B b _. split; auto. Qed.

Lemma sim_add_refund s g : sim_op (OAddRefund g) s.
Proof.
  unfold sim_op. cbn [step_core vstep fst snd]. split; [reflexivity|]. unfold add_refund.
  assert (HV : veq (V (set_refund (push s (ERefund (refund s))) (refund s + g))) (vset_refund (V s) (refund s + g))).
  { eapply veq_trans; [apply V_set_refund|]. destruct (V_push s (ERefund (refund s))). split; simpl; auto. }
  split; [exact HV|]. split; [reflexivity|].
  exists [ERefund (refund s)]. split; [reflexivity|].
  cbn [vunwind fold_left vundo]. destruct HV. split; [split; simpl in *; auto|apply frame_scalar; auto].
Qed.

Lemma sim_sub_refund s g : sim_op (OSubRefund g) s.
Proof.
  unfold sim_op. cbn [step_core vstep]. unfold sub_refund. simpl v_refund.
  destruct (refund s <? g); cbn [fst snd].
  - split; [reflexivity|]. split; [apply V_push|].
    split; [reflexivity|]. exists [ERefund (refund s)]. split; [reflexivity|].
    cbn [vunwind fold_left vundo]. destruct (V_push s (ERefund (refund s))).
    split; [split; simpl in *; auto|apply frame_scalar; auto].
  - split; [reflexivity|].
    assert (HV : veq (V (set_refund (push s (ERefund (refund s))) (refund s - g))) (vset_refund (V s) (refund s - g))).
    { eapply veq_trans; [apply V_set_refund|]. destruct (V_push s (ERefund (refund s))). split; simpl; auto. }
    split; [exact HV|]. split; [reflexivity|].
    exists [ERefund (refund s)]. split; [reflexivity|].
    cbn [vunwind fold_left vundo]. destruct HV. split; [split; simpl in *; auto|apply frame_scalar; auto].
Qed.

Lemma sim_get_refund s : sim_op OGetRefund s.
Proof. unfold sim_op. cbn [step_core vstep fst snd]. split; [reflexivity|]. split; [apply veq_refl|apply ok_refl]. Qed.

Lemma sim_add_log s l : sim_op (OAddLog l) s.
Proof.
  unfold sim_op. cbn [step_core vstep fst snd]. split; [reflexivity|]. unfold add_log.
  assert (HV : veq (V (set_logs (push s ELog) (l :: logs s))) (vset_logs (V s) (l :: logs s))).
  { eapply veq_trans; [apply V_set_logs|]. destruct (V_push s ELog). split; simpl; auto. }
  split; [exact HV|]. split; [reflexivity|].
  exists [ELog]. split; [reflexivity|].
  cbn [vunwind fold_left vundo]. destruct HV.
  split; [split; simpl in *; auto; try (rewrite eq_logs; reflexivity)|apply frame_scalar; auto].
Qed.

Lemma sim_logs s : sim_op OLogs s.
Proof. unfold sim_op. cbn [step_core vstep fst snd]. split; [reflexivity|]. split; [apply veq_refl|apply ok_refl]. Qed.

(** *** access list *)
Lemma sim_addr_in_al s a : sim_op (OAddrInAL a) s.
Proof. unfold sim_op. cbn [step_core vstep fst snd]. split; [reflexivity|]. split; [apply veq_refl|apply ok_refl]. Qed.
Lemma sim_slot_in_al s a k : sim_op (OSlotInAL a k) s.
Proof. unfold sim_op. cbn [step_core vstep fst snd]. split; [reflexivity|]. split; [apply veq_refl|apply ok_refl]. Qed.

(** state functions that act on the view as [g] and are [ok] *)
Definition simf (f : sdb -> sdb) (g : view -> view) : Prop :=
  forall s, veq (V (f s)) (g (V s)) /\ ok s (f s).
Definition gcong (g : view -> view) : Prop := forall v w, veq v w -> veq (g v) (g w).

Lemma simf_comp f1 g1 f2 g2 : simf f1 g1 -> simf f2 g2 -> gcong g2 -> simf (fun s => f2 (f1 s)) (fun v => g2 (g1 v)).
Proof.
  intros H1 H2 C s. destruct (H1 s) as (A1 & B1). destruct (H2 (f1 s)) as (A2 & B2).
  split; [|eapply ok_trans; eauto]. eapply veq_trans; [exact A2|]. apply C, A1.
Qed.

Lemma simf_fold {X} (f : sdb -> X -> sdb) (g : view -> X -> view) :
  (forall x, simf (fun s => f s x) (fun v => g v x)) -> (forall x, gcong (fun v => g v x)) ->
  forall l, simf (fun s => fold_left f l s) (fun v => fold_left g l v) /\ gcong (fun v => fold_left g l v).
Proof.
  intros Hf Hc. induction l as [|x l [IH IC]]; simpl.
  - split; [intro s; split; [apply veq_refl|apply ok_refl]|intros v w H; exact H].
  - split.
    + apply (simf_comp (fun s => f s x) (fun v => g v x) (fun s => fold_left f l s) (fun v => fold_left g l v)); auto.
    + intros v w H. apply IC, Hc, H.
Qed.

Lemma vadd_addr_cong a : gcong (fun v => vadd_addr v a).
Proof. intros v w []. split; simpl; intros; unfold upd; try destruct (_ =? _); auto. Qed.
Lemma vadd_slot_cong a k : gcong (fun v => vadd_slot v a k).
Proof.
  intros v w []. split; simpl; intros; unfold upd; auto.
  - destruct (_ =? _); auto.
  - destruct (a0 =? a); auto. destruct (k0 =? k); auto.
Qed.

Lemma simf_add_addr a : simf (fun s => add_addr_al s a) (fun v => vadd_addr v a).
Proof.
  intro s. unfold add_addr_al. destruct (al_addr s a) eqn:Ha.
  - split; [|apply ok_refl].
    split; simpl; intros; try reflexivity. unfold upd. destruct (Z.eqb_spec a0 a); subst; auto.
  - set (s1 := set_al s (upd (al_addr s) a true) (upd (al_slot s) a (fun _ => false))).
    assert (HV : veq (V (push s1 (EAlAddr a))) (vadd_addr (V s) a)).
    { eapply veq_trans; [apply V_push|]. eapply veq_trans; [apply V_set_al|].
      split; simpl; intros; try reflexivity. unfold upd.
      destruct (Z.eqb_spec a0 a); subst; auto. rewrite Ha. reflexivity. }
    split; [exact HV|]. split; [reflexivity|].
    exists [EAlAddr a]. split; [reflexivity|]. split; [|destruct HV; apply frame_scalar; auto].
    cbn [vunwind fold_left vundo]. eapply veq_trans; [apply (vundo_veq (kp s) (EAlAddr a)), HV|].
    split; simpl; intros; try reflexivity; unfold upd; destruct (Z.eqb_spec a0 a); subst; auto.
    rewrite Ha. reflexivity.
Qed.

Lemma simf_add_slot a k : simf (fun s => add_slot_al s a k) (fun v => vadd_slot v a k).
Proof.
  intro s. unfold add_slot_al, slot_present.
  set (slots_a := if al_addr s a then al_slot s a else fun _ => false).
  set (s1 := set_al s (upd (al_addr s) a true) (upd (al_slot s) a (upd slots_a k true))).
  assert (HV1 : veq (V s1) (vadd_slot (V s) a k)).
  { eapply veq_trans; [apply V_set_al|].
    split; simpl; intros; try reflexivity. unfold upd, slots_a.
    destruct (Z.eqb_spec a0 a); subst; auto. destruct (k0 =? k); auto. destruct (al_addr s a); reflexivity. }
  destruct (al_addr s a) eqn:Ha; cbn [negb andb].
  - destruct (al_slot s a k) eqn:Hs; cbn [negb].
    + split; [exact HV1|]. apply ok_same; [reflexivity|reflexivity|].
      eapply veq_trans; [exact HV1|].
      split; simpl; intros; try reflexivity; unfold upd; destruct (Z.eqb_spec a0 a); subst; auto.
      destruct (Z.eqb_spec k0 k); subst; auto. rewrite Ha, Hs. reflexivity.
    + assert (HV : veq (V (push s1 (EAlSlot a k))) (vadd_slot (V s) a k))
        by (eapply veq_trans; [apply V_push|exact HV1]).
      split; [exact HV|]. split; [reflexivity|].
      exists [EAlSlot a k]. split; [reflexivity|]. split; [|destruct HV; apply frame_scalar; auto].
      cbn [vunwind fold_left]. eapply veq_trans; [apply (vundo_veq (kp s) (EAlSlot a k)), HV|].
      split; simpl; intros; try reflexivity; unfold upd; destruct (Z.eqb_spec a0 a); subst; auto.
      rewrite Z.eqb_refl. destruct (Z.eqb_spec k0 k); subst; auto. rewrite Ha, Hs. reflexivity.
  - assert (HV : veq (V (push (push s1 (EAlAddr a)) (EAlSlot a k))) (vadd_slot (V s) a k)).
    { eapply veq_trans; [apply V_push|]. eapply veq_trans; [apply V_push|exact HV1]. }
    split; [exact HV|]. split; [reflexivity|].
    exists [EAlSlot a k; EAlAddr a]. split; [reflexivity|]. split; [|destruct HV; apply frame_scalar; auto].
    cbn [vunwind fold_left].
    eapply veq_trans; [apply (vundo_veq (kp s) (EAlAddr a)), (vundo_veq (kp s) (EAlSlot a k)), HV|].
    split; simpl; intros; try reflexivity; unfold upd; destruct (Z.eqb_spec a0 a); subst; auto.
    rewrite Ha. reflexivity.
Qed.

Lemma sim_add_addr_al s a : sim_op (OAddAddrAL a) s.
Proof. unfold sim_op. cbn [step_core vstep fst snd]. split; [reflexivity|]. apply simf_add_addr. Qed.
Lemma sim_add_slot_al s a k : sim_op (OAddSlotAL a k) s.
Proof. unfold sim_op. cbn [step_core vstep fst snd]. split; [reflexivity|]. apply simf_add_slot. Qed.

(** *** PrepareAccessList *)
Lemma simf_prepare sd dst pre al :
  simf (fun s => prepare_al s sd dst pre al) (fun v => vprepare v sd dst pre al).
Proof.
  unfold prepare_al, vprepare.
  (* inner: one access tuple *)
  assert (Htuple : forall el : addr * list key,
            simf (fun s => fold_left (fun s k => add_slot_al s (fst el) k) (snd el) (add_addr_al s (fst el)))
                 (fun v => fold_left (fun v k => vadd_slot v (fst el) k) (snd el) (vadd_addr v (fst el))) /\
            gcong (fun v => fold_left (fun v k => vadd_slot v (fst el) k) (snd el) (vadd_addr v (fst el)))).
  { intro el.
    destruct (simf_fold (fun s k => add_slot_al s (fst el) k) (fun v k => vadd_slot v (fst el) k)
                        (fun k => simf_add_slot (fst el) k) (fun k => vadd_slot_cong (fst el) k) (snd el)) as [F C].
    split.
    - apply (simf_comp (fun s => add_addr_al s (fst el)) (fun v => vadd_addr v (fst el)) _ _ (simf_add_addr (fst el)) F C).
    - intros v w H. apply C, vadd_addr_cong, H. }
  destruct (simf_fold (fun s el => fold_left (fun s k => add_slot_al s (fst el) k) (snd el) (add_addr_al s (fst el)))
                      (fun v el => fold_left (fun v k => vadd_slot v (fst el) k) (snd el) (vadd_addr v (fst el)))
                      (fun el => proj1 (Htuple el)) (fun el => proj2 (Htuple el)) al) as [Fal Cal].
  destruct (simf_fold add_addr_al vadd_addr simf_add_addr vadd_addr_cong pre) as [Fpre Cpre].
  assert (Fdst : simf (fun s => match dst with Some d => add_addr_al s d | None => s end)
                      (fun v => match dst with Some d => vadd_addr v d | None => v end) /\
                 gcong (fun v => match dst with Some d => vadd_addr v d | None => v end)).
  { destruct dst as [d|]; split; try apply simf_add_addr; try apply vadd_addr_cong.
    - intro s; split; [apply veq_refl|apply ok_refl].
    - intros v w H; exact H. }
  destruct Fdst as [Fdst Cdst].
  pose proof (simf_comp _ _ _ _ (simf_add_addr sd) Fdst Cdst) as S2.
  pose proof (simf_comp _ _ _ _ S2 Fpre Cpre) as S3.
  pose proof (simf_comp _ _ _ _ S3 Fal Cal) as S4.
  intro s. specialize (S4 s). destruct dst; exact S4.
Qed.

Lemma sim_prepare s sd dst pre al : sim_op (OPrepareAL sd dst pre al) s.
Proof. unfold sim_op. cbn [step_core vstep fst snd]. split; [reflexivity|]. apply simf_prepare. Qed.

Lemma vprepare_cong sd dst pre al : gcong (fun v => vprepare v sd dst pre al).
Proof.
  unfold vprepare. intros v w H.
  assert (Ctuple : forall el : addr * list key,
            gcong (fun v => fold_left (fun v k => vadd_slot v (fst el) k) (snd el) (vadd_addr v (fst el)))).
  { intros el v1 w1 H1.
    apply (proj2 (simf_fold (fun s k => add_slot_al s (fst el) k) (fun v k => vadd_slot v (fst el) k)
                        (fun k => simf_add_slot (fst el) k) (fun k => vadd_slot_cong (fst el) k) (snd el))).
    apply vadd_addr_cong, H1. }
  assert (Cal : gcong (fun v => fold_left (fun v el => fold_left (fun v k => vadd_slot v (fst el) k) (snd el) (vadd_addr v (fst el))) al v)).
  { clear v w H. induction al as [|el al IH]; intros v w H; simpl; [exact H|]. apply IH, Ctuple, H. }
  assert (Cpre : gcong (fun v => fold_left vadd_addr pre v)).
  { clear v w H. induction pre as [|x pre IH]; intros v w H; simpl; [exact H|]. apply IH, vadd_addr_cong, H. }
  apply Cal, Cpre. destruct dst; [apply vadd_addr_cong|]; apply vadd_addr_cong, H.
Qed.

(** ** every method except Snapshot / RevertToSnapshot *)
Definition wf_core (s : sdb) (o : op) : Prop :=
  match o with OCreateAccount a => wf_create (k_stor (kp s)) (V s) a | _ => True end.

Theorem sim_step_core o s : wf_core s o -> sim_op o s.
Proof.
  intro Hwf. destruct o; cbn [wf_core] in Hwf.
  - apply sim_create, Hwf.
  - apply sim_sub_balance.
  - apply sim_add_balance.
  - apply sim_get_balance.
  - apply sim_get_nonce.
  - apply sim_set_nonce.
  - apply sim_get_code_hash.
  - apply sim_get_code.
  - apply sim_set_code.
  - apply sim_get_code_size.
  - apply sim_add_refund.
  - apply sim_sub_refund.
  - apply sim_get_refund.
  - apply sim_get_committed.
  - apply sim_get_state.
  - apply sim_set_state.
  - apply sim_suicide.
  - apply sim_has_suicided.
  - apply sim_exist.
  - apply sim_empty.
  - apply sim_addr_in_al.
  - apply sim_slot_in_al.
  - apply sim_add_addr_al.
  - apply sim_add_slot_al.
  - apply sim_prepare.
  - unfold sim_op. cbn [step_core vstep fst snd]. split; [reflexivity|]. split; [apply veq_refl|apply ok_refl].
  - unfold sim_op. cbn [step_core vstep fst snd]. split; [reflexivity|]. split; [apply veq_refl|apply ok_refl].
  - apply sim_add_log.
  - apply sim_logs.
Qed.

(** ** the reference operations respect pointwise equality of views *)
Lemma vstep_cong o v w : veq v w -> snd (vstep o v) = snd (vstep o w) /\ veq (fst (vstep o v)) (fst (vstep o w)).
Proof.
  intro H. pose proof H as [Ea Es Ec Er El Eaa Eas].
  destruct o; cbn [vstep]; unfold vget_or_new;
    try rewrite (Ea a); try rewrite Er; try rewrite El; try rewrite (Eaa a); try rewrite (Eas a k);
    try rewrite (Es a k); try rewrite (Ec a k);
    try (destruct (v_acct w a); cbn [fst snd]);
    try (destruct (v_refund w <? g); cbn [fst snd]);
    try (split; [reflexivity|]); try exact H;
    try (split; simpl; intros; unfold upd; repeat destruct (_ =? _); auto; fail).
  - apply vprepare_cong, H.
Qed.
