(** C03 — proofs, part 3: every vm.StateDB method (a) acts on the view exactly as the reference
    operation [vstep] and returns the same value, and (b) only prepends journal entries whose
    reverts lead back to the previous view ([ok]). *)
From Coq Require Import ZArith List Bool Lia.
Import ListNotations.
Require Import Nib.C03.Model Nib.C03.Ref Nib.C03.Spec Nib.C03.ProofsBase Nib.C03.ProofsUndo.
Local Open Scope Z_scope.

(** [s'] extends the journal of [s]; reverting the new entries restores the view of [s] *)
Definition ok (s s' : sdb) : Prop :=
  kp s' = kp s /\
  exists new, journal s' = new ++ journal s /\ veq (vunwind (kp s) new (V s')) (V s).

Lemma ok_same s s' : kp s' = kp s -> journal s' = journal s -> veq (V s') (V s) -> ok s s'.
Proof. intros K J H. split; [exact K|]. exists []. split; [exact J|exact H]. Qed.

Lemma ok_refl s : ok s s.
Proof. apply ok_same; auto using veq_refl. Qed.

Lemma ok_trans s1 s2 s3 : ok s1 s2 -> ok s2 s3 -> ok s1 s3.
Proof.
  intros (K1 & n1 & J1 & H1) (K2 & n2 & J2 & H2). split; [congruence|].
  exists (n2 ++ n1). split; [rewrite J2, J1, app_assoc; reflexivity|].
  rewrite vunwind_app. rewrite K1 in H2.
  eapply veq_trans; [apply vunwind_veq, H2|exact H1].
Qed.

Lemma ok_loaded s a : ok s (snd (get_obj s a)).
Proof. apply ok_same; [apply kp_loaded | apply journal_loaded | apply V_loaded]. Qed.

(** ** getOrNewStateObject *)
Definition blank_obj : obj := new_obj 0 0 0.

Lemma get_obj_none s a : lookup s a = None -> get_obj s a = (None, s).
Proof.
  intro H. rewrite get_obj_eq, H. f_equal. rewrite get_obj_snd.
  rewrite lookup_def in H. destruct (objs s a); [discriminate|]. rewrite H. reflexivity.
Qed.

Lemma get_or_new_some s a o : lookup s a = Some o -> get_or_new s a = (o, snd (get_obj s a)).
Proof. intro H. unfold get_or_new. rewrite get_obj_eq, H. reflexivity. Qed.

Lemma get_or_new_none s a : lookup s a = None ->
  get_or_new s a = (blank_obj, set_obj (push s (ECreate a)) a blank_obj).
Proof.
  intro H. unfold get_or_new, create_object. rewrite !(get_obj_none s a H). reflexivity.
Qed.

Definition obj_or_blank (s : sdb) (a : addr) : obj :=
  match lookup s a with Some o => o | None => blank_obj end.

Lemma vdrop_vput_none s a o : lookup s a = None -> veq (vdrop (kp s) (vput (kp s) (V s) a o) a) (V s).
Proof.
  intro H. pose proof (lookup_none_kobj s a H) as Hk.
  split; simpl; intros; try reflexivity; unfold upd; destruct (Z.eqb_spec a0 a); subst;
    rewrite ?Hk, ?H; reflexivity.
Qed.

Lemma vput_lookup s a o : lookup s a = Some o -> veq (vput (kp s) (V s) a o) (V s).
Proof.
  intro H. apply vput_same; simpl; intros; rewrite H; reflexivity.
Qed.

Lemma get_or_new_spec s a :
  let o := fst (get_or_new s a) in let s1 := snd (get_or_new s a) in
  o = obj_or_blank s a /\ lookup s1 a = Some o /\
  veq (V s1) (vput (kp s) (V s) a o) /\ ok s s1.
Proof.
  unfold obj_or_blank. destruct (lookup s a) as [o|] eqn:Hl.
  - rewrite (get_or_new_some s a o Hl). simpl.
    split; [reflexivity|]. split; [rewrite lookup_loaded; exact Hl|].
    split; [|apply ok_loaded].
    eapply veq_trans; [apply V_loaded|]. apply veq_sym, vput_lookup, Hl.
  - rewrite (get_or_new_none s a Hl). simpl.
    split; [reflexivity|]. split; [rewrite lookup_set_obj, Z.eqb_refl; reflexivity|].
    assert (HV : veq (V (set_obj (push s (ECreate a)) a blank_obj)) (vput (kp s) (V s) a blank_obj)).
    { eapply veq_trans; [apply V_set_obj|]. rewrite kp_push. apply vput_veq, V_push. }
    split; [exact HV|].
    split; [apply kp_push|]. exists [ECreate a]. split; [rewrite journal_set_obj, journal_push; reflexivity|].
    cbn [vunwind fold_left vundo]. eapply veq_trans; [apply vdrop_veq, HV|]. apply vdrop_vput_none, Hl.
Qed.
