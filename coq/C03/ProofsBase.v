(** C03 — proofs, part 1: the observable view [V] of a journaled StateDB and how the primitive
    state transformers act on it.  Caches (lazy object loading, OriginStorage) are invisible in [V]. *)
From Coq Require Import ZArith List Bool Lia.
Import ListNotations.
Require Import Nib.C03.Model Nib.C03.Ref Nib.C03.Spec.
Local Open Scope Z_scope.

Lemma upd_same {V} (m : Z -> V) k v : upd m k v k = v.
Proof. unfold upd. rewrite Z.eqb_refl. reflexivity. Qed.
Lemma upd_other {V} (m : Z -> V) k k' v : k' <> k -> upd m k v k' = m k'.
Proof. unfold upd. intros H. destruct (Z.eqb_spec k' k); [contradiction|reflexivity]. Qed.

(** ** pointwise equality of views *)
Record veq (v w : view) : Prop := {
  eq_acct : forall a, v_acct v a = v_acct w a;
  eq_stor : forall a k, v_stor v a k = v_stor w a k;
  eq_comm : forall a k, v_comm v a k = v_comm w a k;
  eq_refund : v_refund v = v_refund w;
  eq_logs : v_logs v = v_logs w;
  eq_ala : forall a, v_ala v a = v_ala w a;
  eq_als : forall a k, v_als v a k = v_als w a k
}.

Lemma veq_refl v : veq v v.
Proof. split; reflexivity. Qed.
Lemma veq_sym v w : veq v w -> veq w v.
Proof. intros []; split; intros; symmetry; auto. Qed.
Lemma veq_trans u v w : veq u v -> veq v w -> veq u w.
Proof. intros [] []; split; intros; etransitivity; eauto. Qed.

(** ** the view of a StateDB *)
Definition aview_of (o : obj) : aview :=
  {| av_bal := bal o; av_nonce := nonce o; av_code := chash o; av_suic := suicided o |}.

Definition V (s : sdb) : view :=
  {| v_acct := fun a => option_map aview_of (lookup s a);
     v_stor := fun a k => match lookup s a with Some o => st (kp s) a o k | None => k_stor (kp s) a k end;
     v_comm := fun a k => match lookup s a with Some o => comm (kp s) a o k | None => k_stor (kp s) a k end;
     v_refund := refund s; v_logs := logs s;
     v_ala := al_addr s;
     v_als := fun a k => al_addr s a && al_slot s a k |}.

(** ** lookup through the primitives *)
Definition kobj (k : keeper) (a : addr) : option obj := option_map obj_of_kacct (k_acct k a).

Lemma lookup_def s a :
  lookup s a = match objs s a with Some o => Some o | None => kobj (kp s) a end.
Proof.
  unfold lookup, get_obj, kobj. destruct (objs s a); [reflexivity|].
  destruct (k_acct (kp s) a); reflexivity.
Qed.

Lemma get_obj_fst s a : fst (get_obj s a) = lookup s a.
Proof. reflexivity. Qed.

Lemma get_obj_eq s a : get_obj s a = (lookup s a, snd (get_obj s a)).
Proof. unfold lookup. destruct (get_obj s a); reflexivity. Qed.

(** everything but [objs] is untouched by a load *)
Lemma get_obj_snd s a :
  snd (get_obj s a) = match objs s a, kobj (kp s) a with
                      | None, Some o => set_obj s a o
                      | _, _ => s
                      end.
Proof.
  unfold get_obj, kobj. destruct (objs s a); [reflexivity|].
  destruct (k_acct (kp s) a); reflexivity.
Qed.

Lemma lookup_set_obj s a o a' : lookup (set_obj s a o) a' = if a' =? a then Some o else lookup s a'.
Proof. rewrite !lookup_def. simpl. unfold upd. destruct (a' =? a); reflexivity. Qed.

Lemma lookup_del_obj s a a' : lookup (del_obj s a) a' = if a' =? a then kobj (kp s) a else lookup s a'.
Proof.
  rewrite !lookup_def. simpl. unfold upd. destruct (Z.eqb_spec a' a); [subst|]; reflexivity.
Qed.

Lemma lookup_loaded s a a' : lookup (snd (get_obj s a)) a' = lookup s a'.
Proof.
  rewrite get_obj_snd. destruct (objs s a) eqn:Ho; [reflexivity|].
  destruct (kobj (kp s) a) eqn:Hk; [|reflexivity].
  rewrite lookup_set_obj. destruct (Z.eqb_spec a' a); [subst|reflexivity].
  rewrite lookup_def, Ho, Hk. reflexivity.
Qed.

Lemma kp_loaded s a : kp (snd (get_obj s a)) = kp s.
Proof. rewrite get_obj_snd. destruct (objs s a), (kobj (kp s) a); reflexivity. Qed.
Lemma journal_loaded s a : journal (snd (get_obj s a)) = journal s.
Proof. rewrite get_obj_snd. destruct (objs s a), (kobj (kp s) a); reflexivity. Qed.
Lemma dirties_loaded s a : dirties (snd (get_obj s a)) = dirties s.
Proof. rewrite get_obj_snd. destruct (objs s a), (kobj (kp s) a); reflexivity. Qed.
Lemma touched_loaded s a : touched (snd (get_obj s a)) = touched s.
Proof. rewrite get_obj_snd. destruct (objs s a), (kobj (kp s) a); reflexivity. Qed.
Lemma refund_loaded s a : refund (snd (get_obj s a)) = refund s.
Proof. rewrite get_obj_snd. destruct (objs s a), (kobj (kp s) a); reflexivity. Qed.
Lemma logs_loaded s a : logs (snd (get_obj s a)) = logs s.
Proof. rewrite get_obj_snd. destruct (objs s a), (kobj (kp s) a); reflexivity. Qed.
Lemma al_addr_loaded s a : al_addr (snd (get_obj s a)) = al_addr s.
Proof. rewrite get_obj_snd. destruct (objs s a), (kobj (kp s) a); reflexivity. Qed.
Lemma al_slot_loaded s a : al_slot (snd (get_obj s a)) = al_slot s.
Proof. rewrite get_obj_snd. destruct (objs s a), (kobj (kp s) a); reflexivity. Qed.

Lemma lookup_push s e a : lookup (push s e) a = lookup s a.
Proof. rewrite !lookup_def. unfold push. destruct (dirtied e); reflexivity. Qed.
Lemma kp_push s e : kp (push s e) = kp s.
Proof. unfold push. destruct (dirtied e); reflexivity. Qed.
Lemma journal_push s e : journal (push s e) = e :: journal s.
Proof. unfold push. destruct (dirtied e); reflexivity. Qed.
Lemma refund_push s e : refund (push s e) = refund s.
Proof. unfold push. destruct (dirtied e); reflexivity. Qed.
Lemma logs_push s e : logs (push s e) = logs s.
Proof. unfold push. destruct (dirtied e); reflexivity. Qed.
Lemma al_addr_push s e : al_addr (push s e) = al_addr s.
Proof. unfold push. destruct (dirtied e); reflexivity. Qed.
Lemma al_slot_push s e : al_slot (push s e) = al_slot s.
Proof. unfold push. destruct (dirtied e); reflexivity. Qed.

(** two states with the same objects (up to loading) and the same scalar parts have the same view *)
Lemma V_ext s t :
  (forall a, lookup s a = lookup t a) -> kp s = kp t -> refund s = refund t -> logs s = logs t ->
  al_addr s = al_addr t -> al_slot s = al_slot t -> veq (V s) (V t).
Proof.
  intros HL HK HR HLg HA HS. split; simpl; intros; rewrite ?HL, ?HK, ?HR, ?HLg, ?HA, ?HS; reflexivity.
Qed.

Lemma V_loaded s a : veq (V (snd (get_obj s a))) (V s).
Proof.
  apply V_ext; [intro; apply lookup_loaded | apply kp_loaded | apply refund_loaded | apply logs_loaded
                | apply al_addr_loaded | apply al_slot_loaded].
Qed.

Lemma V_push s e : veq (V (push s e)) (V s).
Proof.
  apply V_ext; [intro; apply lookup_push | apply kp_push | apply refund_push | apply logs_push
                | apply al_addr_push | apply al_slot_push].
Qed.

(** the view with the account at [a] replaced by object [o] *)
Definition vput (kp0 : keeper) (v : view) (a : addr) (o : obj) : view :=
  vset_comm (vset_stor (vset_acct v a (Some (aview_of o))) a (st kp0 a o)) a (comm kp0 a o).

Lemma V_set_obj s a o : veq (V (set_obj s a o)) (vput (kp s) (V s) a o).
Proof.
  split; simpl; intros; try reflexivity; rewrite ?lookup_set_obj; unfold upd;
    destruct (Z.eqb_spec a0 a); subst; reflexivity.
Qed.

(** the view with the account at [a] as the keeper has it *)
Definition vdrop (kp0 : keeper) (v : view) (a : addr) : view :=
  vset_comm (vset_stor (vset_acct v a (option_map aview_of (kobj kp0 a))) a (k_stor kp0 a)) a (k_stor kp0 a).

Lemma st_kobj kp0 a o k : kobj kp0 a = Some o -> st kp0 a o k = k_stor kp0 a k.
Proof. unfold kobj. destruct (k_acct kp0 a); [|discriminate]. intros [= <-]. reflexivity. Qed.
Lemma comm_kobj kp0 a o k : kobj kp0 a = Some o -> comm kp0 a o k = k_stor kp0 a k.
Proof. unfold kobj. destruct (k_acct kp0 a); [|discriminate]. intros [= <-]. reflexivity. Qed.

Lemma V_del_obj s a : veq (V (del_obj s a)) (vdrop (kp s) (V s) a).
Proof.
  split; simpl; intros; try reflexivity; rewrite ?lookup_del_obj; unfold upd;
    destruct (Z.eqb_spec a0 a); subst; try reflexivity;
    destruct (kobj (kp s) a) eqn:Hk; try reflexivity;
    [apply st_kobj | apply comm_kobj]; assumption.
Qed.

(** congruences *)
Lemma vput_veq kp0 v w a o : veq v w -> veq (vput kp0 v a o) (vput kp0 w a o).
Proof. intros []. split; simpl; intros; unfold upd; try destruct (_ =? _); auto. Qed.
Lemma vdrop_veq kp0 v w a : veq v w -> veq (vdrop kp0 v a) (vdrop kp0 w a).
Proof. intros []. split; simpl; intros; unfold upd; try destruct (_ =? _); auto. Qed.

(** an object update that leaves the account as it is *)
Lemma vput_same kp0 v a o :
  v_acct v a = Some (aview_of o) -> (forall k, v_stor v a k = st kp0 a o k) ->
  (forall k, v_comm v a k = comm kp0 a o k) -> veq (vput kp0 v a o) v.
Proof.
  intros Ha Hs Hc. split; simpl; intros; try reflexivity; unfold upd;
    destruct (Z.eqb_spec a0 a); subst; auto.
Qed.

(** caching a committed value does not change what an object shows *)
Lemma comm_cache_origin kp0 a o k k' : comm kp0 a (cache_origin kp0 a o k) k' = comm kp0 a o k'.
Proof.
  unfold cache_origin. destruct (origin o k) eqn:Ho; [reflexivity|].
  unfold comm. simpl. unfold upd. destruct (Z.eqb_spec k' k); [subst; rewrite Ho|]; reflexivity.
Qed.
Lemma st_cache_origin kp0 a o k k' : st kp0 a (cache_origin kp0 a o k) k' = st kp0 a o k'.
Proof.
  unfold st. rewrite comm_cache_origin. unfold cache_origin. destruct (origin o k); reflexivity.
Qed.
Lemma aview_cache_origin kp0 a o k : aview_of (cache_origin kp0 a o k) = aview_of o.
Proof. unfold cache_origin. destruct (origin o k); reflexivity. Qed.
Lemma comm_cache_state kp0 a o k k' : comm kp0 a (cache_state kp0 a o k) k' = comm kp0 a o k'.
Proof. unfold cache_state. destruct (dirty o k); [reflexivity|apply comm_cache_origin]. Qed.
Lemma st_cache_state kp0 a o k k' : st kp0 a (cache_state kp0 a o k) k' = st kp0 a o k'.
Proof. unfold cache_state. destruct (dirty o k); [reflexivity|apply st_cache_origin]. Qed.
Lemma aview_cache_state kp0 a o k : aview_of (cache_state kp0 a o k) = aview_of o.
Proof. unfold cache_state. destruct (dirty o k); [reflexivity|apply aview_cache_origin]. Qed.

(** what a loaded object shows is what the view shows *)
Lemma V_acct_lookup s a : v_acct (V s) a = option_map aview_of (lookup s a).
Proof. reflexivity. Qed.
Lemma V_stor_some s a o k : lookup s a = Some o -> v_stor (V s) a k = st (kp s) a o k.
Proof. intro H. simpl. rewrite H. reflexivity. Qed.
Lemma V_comm_some s a o k : lookup s a = Some o -> v_comm (V s) a k = comm (kp s) a o k.
Proof. intro H. simpl. rewrite H. reflexivity. Qed.
Lemma V_stor_none s a k : lookup s a = None -> v_stor (V s) a k = k_stor (kp s) a k.
Proof. intro H. simpl. rewrite H. reflexivity. Qed.
Lemma V_comm_none s a k : lookup s a = None -> v_comm (V s) a k = k_stor (kp s) a k.
Proof. intro H. simpl. rewrite H. reflexivity. Qed.

Lemma lookup_none_kobj s a : lookup s a = None -> kobj (kp s) a = None.
Proof. rewrite lookup_def. destruct (objs s a); [discriminate|auto]. Qed.
