(** C16 — evaluation of implementation traces: correspondence (model vs observed DeliverTx
    outcomes) and the property predicate [Pb] on the observed trace itself. *)
From Coq Require Import List Bool Arith.
Import ListNotations.
Require Import Nib.C16.Model Nib.C16.Spec Nib.C16.Spelled.

(** the world a history starts from: sudoers written at setup, authz grants saved at setup *)
(** [w_raw]: the sudoers were imported from a genesis section, i.e. stored as given (any order,
    duplicates) until the first accepted EditSudoers rewrites the list in canonical form *)
(** [w_owners]: the re-dispatching contracts of the case with their owners (contract, owner);
    [w_setup_ok]: every MsgGrant of the setup was accepted (sent by the granter in a tx of its own, or,
    when the granter is a contract, dispatched by it at its owner's request) — the model takes the
    grants as saved, so a refused one is a disagreement *)
Record world := { w_root : addr; w_contracts : list addr; w_grants : list grant; w_raw : bool;
                  w_owners : list (addr * addr); w_setup_ok : bool }.

(** the model the tree is compared with: wrapper guard in place (Gen/C16Oblig.v) *)
Definition w_cfg (w : world) : cfg := mk_cfg (w_grants w) (w_owners w).

(** txs as written: address fields of the privileged messages with their spelling *)
Definition case : Type := world * list (list smsg * obs).

(** model vs implementation for one tx, from model state [s] *)
Definition is_edit_sudoers (m : msg) : bool := match m with EditSudoers _ _ _ _ => true | _ => false end.

Definition step_mismatch (raw : bool) (g : cfg) (s : st) (stx : list smsg) (o : obs) : bool * st :=
  let tx := map ids stx in
  let '(s', ok) := sdeliver g s stx in
  let bad :=
    negb (Bool.eqb ok (o_ok o)) ||
    negb (root s' =? o_root o) ||
    negb (list_eqb (contracts s') (o_contracts o)) ||
    (* the sudo store holds exactly the sudoers value: digest equal iff value equal — except that an
       accepted EditSudoers may rewrite a genesis-imported list into canonical form *)
    (negb (sudoers_eqb s s') && o_same_sudo o) ||
    (sudoers_eqb s s' && negb (o_same_sudo o) &&
     negb (raw && ok && existsb is_edit_sudoers (leaves_tx tx))) ||
    (* a store the model did not write must have an unchanged digest *)
    ((w_oracle s' =? w_oracle s) && negb (o_same_oracle o)) ||
    ((w_infl s' =? w_infl s) && negb (o_same_infl o)) ||
    ((w_meta s' =? w_meta s) && negb (o_same_meta o)) in
  (bad, s').

Fixpoint trace_mismatch (raw : bool) (g : cfg) (s : st) (t : list (list smsg * obs)) : bool :=
  match t with
  | [] => false
  | (tx, o) :: r => let '(bad, s') := step_mismatch raw g s tx o in bad || trace_mismatch raw g s' r
  end.

Definition mismatch (c : case) : bool :=
  let w := fst c in
  negb (w_setup_ok w) ||
  trace_mismatch (w_raw w) (w_cfg w) (mk_st (w_root w) (normalize (w_contracts w))) (snd c).

Definition violates (c : case) : bool :=
  let w := fst c in
  negb (sPb (w_cfg w) (w_root w) (normalize (w_contracts w)) (snd c)).
