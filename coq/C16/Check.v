(** C16 — evaluation of implementation traces: correspondence (model vs observed DeliverTx
    outcomes) and the property predicate [Pb] on the observed trace itself. *)
From Coq Require Import List Bool Arith.
Import ListNotations.
Require Import Nib.C16.Model Nib.C16.Spec.

(** the world a history starts from: sudoers written at setup, authz grants saved at setup *)
(** [w_raw]: the sudoers were imported from a genesis section, i.e. stored as given (any order,
    duplicates) until the first accepted EditSudoers rewrites the list in canonical form *)
Record world := { w_root : addr; w_contracts : list addr; w_grants : list grant; w_raw : bool }.

Definition case : Type := world * list (list msg * obs).

(** model vs implementation for one tx, from model state [s] *)
Definition is_edit_sudoers (m : msg) : bool := match m with EditSudoers _ _ _ _ => true | _ => false end.

Definition step_mismatch (raw : bool) (g : list grant) (s : st) (tx : list msg) (o : obs) : bool * st :=
  let '(s', ok) := deliver g s tx in
  let bad :=
    negb (Bool.eqb ok (o_ok o)) ||
    negb (root s' =? o_root o) ||
    negb (list_eqb (contracts s') (o_contracts o)) ||
    (* the sudo store holds exactly the sudoers value: digest equal iff value equal — except that an
       accepted EditSudoers may rewrite a genesis-imported list into canonical form *)
    (negb (sudoers_eqb s s') && o_same_sudo o) ||
    (sudoers_eqb s s' && negb (o_same_sudo o) &&
     negb (raw && ok && existsb is_edit_sudoers (leaves_tx tx))) ||
    (* a store the model did not write must have an unchanged digest *)
    ((w_oracle s' =? w_oracle s) && negb (o_same_oracle o)) ||
    ((w_infl s' =? w_infl s) && negb (o_same_infl o)) ||
    ((w_meta s' =? w_meta s) && negb (o_same_meta o)) in
  (bad, s').

Fixpoint trace_mismatch (raw : bool) (g : list grant) (s : st) (t : list (list msg * obs)) : bool :=
  match t with
  | [] => false
  | (tx, o) :: r => let '(bad, s') := step_mismatch raw g s tx o in bad || trace_mismatch raw g s' r
  end.

Definition mismatch (c : case) : bool :=
  let w := fst c in
  trace_mismatch (w_raw w) (w_grants w) (mk_st (w_root w) (normalize (w_contracts w))) (snd c).

Definition violates (c : case) : bool :=
  let w := fst c in
  negb (Pb (w_root w) (normalize (w_contracts w)) (snd c)).
