(** C16 — privileged chain operations succeed only for current sudoers.
    This file holds only the exported statements (each closed by [exact]). *)
From Coq Require Import List Bool Arith.
Import ListNotations.
Require Import Nib.C16.Model Nib.C16.Spec Nib.C16.Proofs Nib.C16.Spelled Nib.C16.ProofsSpelled.

(** Only the current root edits the sudoers — handler form: a successful MsgEditSudoers /
    MsgChangeRoot was sent by the root in force when it ran. *)
Theorem C16_root_only_edits :
  forall s m s', is_edit m = true -> handle_leaf s m = Some s' -> signer m = root s.
Proof. exact root_only_edits_leaf. Qed.
Print Assumptions C16_root_only_edits.

(** … and transaction form, for any tx (several messages, trees of MsgExec and contract-execution
    carriers of any depth, any grants, either variant of the wasm wrapper guard):
    if the sudoers differ after DeliverTx, the tx was accepted and carried an edit whose sender is
    the root in force before the tx. *)
Theorem C16_sudoers_change_only_by_root :
  forall cf s tx, ~ same_sudoers (fst (deliver cf s tx)) s ->
  snd (deliver cf s tx) = true /\
  exists m, In m (leaves_tx tx) /\ is_edit m = true /\ signer m = root s.
Proof. exact deliver_sudoers_change. Qed.
Print Assumptions C16_sudoers_change_only_by_root.

(** A gated operation succeeds if and only if its sender is the root or a currently listed
    contract (exactly CheckPermissions) and its payload is valid. *)
Theorem C16_gated_iff_permitted :
  forall cf s k a pv,
  (exists s', exec_msg cf s (Gated k a pv) = Some s') <-> permitted s a = true /\ pv = true.
Proof. exact gated_iff_permitted. Qed.
Print Assumptions C16_gated_iff_permitted.

(** Wrapped in authz exec: the same condition on the INNER signer, plus the authz condition
    (inner signer is the grantee itself, or granted that message type to the grantee). *)
Theorem C16_gated_in_exec_iff :
  forall cf s ge k a pv,
  (exists s', exec_msg cf s (Exec ge [Gated k a pv]) = Some s') <->
  (a = ge \/ has_grant (c_grants cf) a ge (KGated k) = true) /\ permitted s a = true /\ pv = true.
Proof. exact gated_exec_iff. Qed.
Print Assumptions C16_gated_in_exec_iff.

(** Dispatched by a contract (MsgExecuteContract on a contract that re-dispatches): the contract is
    the sender, so exactly its own listing counts — a listed sudo CONTRACT does get its gated
    message through, nobody gets one through in somebody else's name. *)
Theorem C16_gated_in_wasm_iff :
  forall cf s sd c k a pv,
  (exists s', exec_msg cf s (Wasm sd c [Gated k a pv]) = Some s') <->
  owner_ok cf c sd = true /\ a = c /\ permitted s a = true /\ pv = true.
Proof. exact gated_wasm_iff. Qed.
Print Assumptions C16_gated_in_wasm_iff.

(** A contract dispatching a MsgExec: the exec's grantee must be the contract itself (the guard of
    handleSdkMessage applies to the WRAPPER), and the authz condition is then about the contract. *)
Theorem C16_gated_in_wasm_exec_iff :
  forall cf s sd c ge k a pv, c_wguard cf = true ->
  ((exists s', exec_msg cf s (Wasm sd c [Exec ge [Gated k a pv]]) = Some s') <->
   owner_ok cf c sd = true /\ ge = c /\
   (a = c \/ has_grant (c_grants cf) a c (KGated k) = true) /\ permitted s a = true /\ pv = true).
Proof. exact gated_wasm_exec_iff. Qed.
Print Assumptions C16_gated_in_wasm_exec_iff.

(** carriers never add authority: every privileged leaf of an accepted tx — at any depth of MsgExec
    and contract-execution wrappers, under any set of grants — had, in the state it ran in, the
    authority its handler asks for. *)
Theorem C16_every_executed_leaf_authorised :
  forall cf s tx s', deliver cf s tx = (s', true) ->
  forall l1 m l2, leaves_tx tx = l1 ++ m :: l2 ->
  exists s1, run_leaves s l1 = Some s1 /\ authorised (root s1) (contracts s1) m.
Proof. exact deliver_each_leaf_authorised. Qed.
Print Assumptions C16_every_executed_leaf_authorised.

(** WHO REALLY AUTHORISED.  Every message of an accepted tx, wrappers included, at any depth and in
    any mix of authz and contract carriers, is presented by the principal its carrier has
    authenticated (tx signature / grantee itself or a granter of the grantee / the executing contract,
    itself called by its owner) [wa_b] … *)
Theorem C16_accepted_tree_well_authorised :
  forall cf s tx s', c_wguard cf = true -> deliver cf s tx = (s', true) ->
  wa_tx cf tx = true /\ signable cf tx = true.
Proof. exact deliver_well_authorised. Qed.
Print Assumptions C16_accepted_tree_well_authorised.

(** … so the sender of every privileged leaf of an accepted tx is a CURRENT sudoer in the state
    the leaf ran in AND stands behind it: it signed the tx, or has issued an authz grant, or is a
    contract that the tx executes. *)
Theorem C16_privileged_leaf_sudoer_and_backed :
  forall cf s tx s', c_wguard cf = true -> deliver cf s tx = (s', true) ->
  forall l1 l l2, leaves_tx tx = l1 ++ l :: l2 ->
  (exists s1, run_leaves s l1 = Some s1 /\ authorised (root s1) (contracts s1) l) /\
  (exists m, In m tx /\ is_contract cf (signer m) = false /\
             backed cf (signer m) (executed_contracts m) (signer l)).
Proof. exact deliver_leaf_sudoer_and_backed. Qed.
Print Assumptions C16_privileged_leaf_sudoer_and_backed.

(** The variant of app/wasmext handleSdkMessage that skips the signer guard for MsgExec wrappers
    ([c_wguard = false]; Gen/C16Oblig.v ties the flag to the tree) does NOT have the property: a
    contract that is neither root nor listed, with no grant anywhere, lists itself. *)
Theorem C16_unguarded_wrapper_refuted :
  exists cf s tx s',
    c_wguard cf = false /\ c_grants cf = [] /\
    permitted s 7 = false /\ deliver cf s tx = (s', true) /\ permitted s' 7 = true /\
    wa_tx cf tx = false /\
    (exists l, In l (leaves_tx tx) /\
       forall m, In m tx -> ~ backed cf (signer m) (executed_contracts m) (signer l)).
Proof. exact unguarded_wrapper_refuted. Qed.
Print Assumptions C16_unguarded_wrapper_refuted.

(** A rejected privileged message changes no state (sudoers and the three gated stores). *)
Theorem C16_rejected_changes_nothing :
  forall cf s tx, snd (deliver cf s tx) = false -> fst (deliver cf s tx) = s.
Proof. exact deliver_rejected. Qed.
Print Assumptions C16_rejected_changes_nothing.

(** … including what earlier messages of the same tx had already written. *)
Theorem C16_failing_message_rolls_back_tx :
  forall cf s pre m post,
  (forall s1, run_msgs cf s pre = Some s1 -> exec_msg cf s1 m = None) ->
  deliver cf s (pre ++ m :: post) = (s, false).
Proof. exact deliver_atomic. Qed.
Print Assumptions C16_failing_message_rolls_back_tx.

(** Stale permissions.  The former root and a removed contract lose their permission with the
    very message that demotes them … *)
Theorem C16_former_root_unpermitted :
  forall s old new s', handle_leaf s (ChangeRoot old new) = Some s' -> old <> new ->
  mem old (contracts s) = false -> permitted s' old = false.
Proof. exact former_root_unpermitted. Qed.
Print Assumptions C16_former_root_unpermitted.

Theorem C16_removed_contract_unpermitted :
  forall s sd cs wf c s', handle_leaf s (EditSudoers Remove sd cs wf) = Some s' -> In c cs ->
  c <> root s -> permitted s' c = false.
Proof. exact removed_contract_unpermitted. Qed.
Print Assumptions C16_removed_contract_unpermitted.

(** … an account without permission gets no privileged message through from the very next tx,
    directly or wrapped … *)
Theorem C16_unpermitted_rejected :
  forall cf s tx a m r, permitted s a = false -> leaves_tx tx = m :: r -> signer m = a ->
  deliver cf s tx = (s, false).
Proof. exact unpermitted_first_leaf_rejected. Qed.
Print Assumptions C16_unpermitted_rejected.

(** … and stays out over any history in which no message lets it back in: all its txs are rejected. *)
Theorem C16_stale_permission_over_histories :
  forall cf a h s, permitted s a = false -> no_grant_to a h = true ->
  permitted (fst (run_history cf s h)) a = false /\
  Forall2 (fun mine ok => mine = true -> ok = false) (first_leaf_by a h) (snd (run_history cf s h)).
Proof. exact stale_over_history. Qed.
Print Assumptions C16_stale_permission_over_histories.

(** The whole property as evaluated on traces: every history of the model, from every state and
    under every set of grants, satisfies the trace property [P] … *)
Theorem C16_model_satisfies_property :
  forall cf, c_wguard cf = true -> forall h s, P cf (root s) (contracts s) (model_trace cf s h).
Proof. exact model_satisfies_P. Qed.
Print Assumptions C16_model_satisfies_property.

(** … and the boolean checker run on implementation traces is sound for that same [P]. *)
Theorem C16_checker_sound : forall cf t cr cc, Pb cf cr cc t = true -> P cf cr cc t.
Proof. exact Pb_sound. Qed.
Print Assumptions C16_checker_sound.

(** ADDRESS SPELLINGS.  The sender / new_root / contracts fields of the privileged messages are bech32
    strings with two accepted spellings (lower case = canonical, upper case).  [sdeliver] = decode every
    string to the identity it names, then the identity-keyed model above.  Outcomes do not depend on the
    spelling: two txs naming the same identities in accepted spellings are delivered alike from every
    state … *)
Theorem C16_outcome_independent_of_spelling :
  forall cf s a b, same_ids a b -> forallb spelled_ok a = true -> forallb spelled_ok b = true ->
  sdeliver cf s a = sdeliver cf s b.
Proof. exact spelling_irrelevant. Qed.
Print Assumptions C16_outcome_independent_of_spelling.

(** … and so are whole histories (same verdicts, same final sudoers and stores). *)
Theorem C16_history_independent_of_spelling :
  forall cf h1 h2 s,
  Forall2 (fun a b => same_ids a b /\ forallb spelled_ok a = true /\ forallb spelled_ok b = true) h1 h2 ->
  srun_history cf s h1 = srun_history cf s h2.
Proof. exact spelling_irrelevant_history. Qed.
Print Assumptions C16_history_independent_of_spelling.

(** A string that does not decode (mixed case, …), anywhere in the message tree, refuses the tx. *)
Theorem C16_undecodable_address_refuses_tx :
  forall cf s stx, forallb spelled_ok stx = false -> sdeliver cf s stx = (s, false).
Proof. exact bad_spelling_rejected. Qed.
Print Assumptions C16_undecodable_address_refuses_tx.

(** Whatever is accepted as written is accepted as the identities it names, so every theorem above
    about [deliver] speaks about txs as written. *)
Theorem C16_accepted_as_written_is_accepted_by_identity :
  forall cf s stx s', sdeliver cf s stx = (s', true) ->
  forallb spelled_ok stx = true /\ deliver cf s (map ids stx) = (s', true).
Proof. exact sdeliver_accepts_by_identity. Qed.
Print Assumptions C16_accepted_as_written_is_accepted_by_identity.

(** A sudoers store keyed by the RAW strings of the messages (ChangeRoot stores msg.NewRoot as given,
    RemoveContracts removes the entry as given, the root test of EditSudoers compares strings — the
    switches Gen/C16Facts.v reads off x/sudo/keeper) does NOT have the property: (a) an accepted removal
    in upper case removes nothing and the contract stays permitted, (b) after an accepted hand-over to an
    upper-case new root that root is refused by every gated operation, (c) the root spelled in upper case
    cannot edit; the lower-case twins behave. *)
Theorem C16_raw_string_store_refuted :
  snd (raw_run tree_rawcfg raw0 [SEdit Remove (L 0) [U 1] true; SGated GOracle (L 1) true]) = [true; true] /\
  snd (raw_run tree_rawcfg raw0 [SEdit Remove (L 0) [L 1] true; SGated GOracle (L 1) true]) = [true; false] /\
  snd (raw_run tree_rawcfg raw0 [SRoot (L 0) (U 2); SGated GOracle (L 2) true; SGated GOracle (U 2) true]) = [true; false; false] /\
  snd (raw_run tree_rawcfg raw0 [SRoot (L 0) (L 2); SGated GOracle (L 2) true; SGated GOracle (U 2) true]) = [true; true; true] /\
  snd (raw_run tree_rawcfg raw0 [SEdit Add (U 0) [L 3] true]) = [false] /\
  snd (raw_run tree_rawcfg raw0 [SEdit Add (L 0) [L 3] true]) = [true].
Proof. exact raw_string_store_refuted. Qed.
Print Assumptions C16_raw_string_store_refuted.

Theorem C16_raw_string_store_each_switch_needed :
  snd (raw_run {| rw_root := true; rw_remove := false; rw_sender := true |} raw0
         [SEdit Remove (L 0) [U 1] true; SGated GOracle (L 1) true]) = [true; true] /\
  snd (raw_run {| rw_root := false; rw_remove := true; rw_sender := true |} raw0
         [SRoot (L 0) (U 2); SGated GOracle (L 2) true]) = [true; false] /\
  snd (raw_run {| rw_root := true; rw_remove := true; rw_sender := false |} raw0
         [SEdit Add (U 0) [L 3] true]) = [false].
Proof. exact raw_string_store_each_switch_needed. Qed.
Print Assumptions C16_raw_string_store_each_switch_needed.

(** A string store that writes the String() of the parsed address and compares parsed addresses
    simulates the identity-keyed model, handler call by handler call, for every accepted spelling of
    every field, from every related pair of states — hence its verdicts do not depend on spellings. *)
Theorem C16_canonical_store_simulates_identity_model :
  forall l s rs, Rel s rs -> forallb spelled_ok l = true ->
  snd (raw_run canon_rawcfg rs l) = snd (id_run s (map ids l)) /\
  Rel (fst (id_run s (map ids l))) (fst (raw_run canon_rawcfg rs l)).
Proof. exact canon_store_simulates. Qed.
Print Assumptions C16_canonical_store_simulates_identity_model.

Theorem C16_canonical_store_independent_of_spelling :
  forall s rs l1 l2, Rel s rs -> map ids l1 = map ids l2 ->
  forallb spelled_ok l1 = true -> forallb spelled_ok l2 = true ->
  snd (raw_run canon_rawcfg rs l1) = snd (raw_run canon_rawcfg rs l2).
Proof. exact canon_store_spelling_irrelevant. Qed.
Print Assumptions C16_canonical_store_independent_of_spelling.

(** The trace property on txs as written, and its checker (the one run on implementation traces). *)
Theorem C16_spelled_model_satisfies_property :
  forall cf, c_wguard cf = true -> forall h s, sP cf (root s) (contracts s) (smodel_trace cf s h).
Proof. exact model_satisfies_sP. Qed.
Print Assumptions C16_spelled_model_satisfies_property.

Theorem C16_spelled_checker_sound : forall cf t cr cc, sPb cf cr cc t = true -> sP cf cr cc t.
Proof. exact sPb_sound. Qed.
Print Assumptions C16_spelled_checker_sound.
