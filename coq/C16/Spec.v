(** C16 — the property over an observed history (what DeliverTx did, per transaction), as a
    Prop [P] and as the boolean checker [Pb] evaluated on implementation traces. *)
From Coq Require Import List Bool Arith Lia.
Import ListNotations.
Require Import Nib.C16.Model.

(** what the harness observes around one DeliverTx *)
Record obs := {
  o_ok : bool;                 (* tx code = 0 *)
  o_root : addr;               (* sudoers read back after the tx *)
  o_contracts : list addr;     (* sorted ids *)
  o_same_sudo : bool;          (* sha256 of the raw sudo store equal before / after *)
  o_same_oracle : bool;        (* … oracle store *)
  o_same_infl : bool;          (* … inflation store *)
  o_same_meta : bool           (* … bank denom-metadata prefix *)
}.

Definition is_edit (m : msg) : bool :=
  match m with EditSudoers _ _ _ _ | ChangeRoot _ _ => true | _ => false end.

Definition writes_oracle (m : msg) : bool := match m with Gated GOracle _ _ => true | _ => false end.
Definition writes_infl (m : msg) : bool :=
  match m with Gated GInflEdit _ _ | Gated GInflToggle _ _ => true | _ => false end.
Definition writes_meta (m : msg) : bool := match m with Gated GMeta _ _ => true | _ => false end.

(** a message that is one privileged leaf, possibly under singleton carriers (MsgExec, contract execution) *)
Fixpoint single_leaf (m : msg) : option msg :=
  match m with
  | Exec _ [x] => single_leaf x
  | Exec _ _ => None
  | Wasm _ _ [x] => single_leaf x
  | Wasm _ _ _ => None
  | _ => Some m
  end.

Definition is_leaf (m : msg) : bool := match m with Exec _ _ | Wasm _ _ _ => false | _ => true end.

(** the authority a leaf needs, w.r.t. the sudoers (cr, cc) in force when it runs *)
Definition authorised_b (cr : addr) (cc : list addr) (l : msg) : bool :=
  match l with
  | EditSudoers Add s _ wf | EditSudoers Remove s _ wf => (s =? cr) && wf
  | EditSudoers UnknownAction _ _ _ => false
  | ChangeRoot s _ => s =? cr
  | Gated _ s pv => (mem s cc || (s =? cr)) && pv
  | Exec _ _ | Wasm _ _ _ => false
  end.

Definition authorised (cr : addr) (cc : list addr) (l : msg) : Prop :=
  match l with
  | EditSudoers Add s _ wf | EditSudoers Remove s _ wf => s = cr /\ wf = true
  | EditSudoers UnknownAction _ _ _ => False
  | ChangeRoot s _ => s = cr
  | Gated _ s pv => (In s cc \/ s = cr) /\ pv = true
  | Exec _ _ | Wasm _ _ _ => False
  end.

(** what the edits carried by a tx do to the sudoers when every one of them succeeds *)
Definition apply_edit (rc : addr * list addr) (m : msg) : addr * list addr :=
  match m with
  | EditSudoers Add _ cs _ => (fst rc, fold_left (fun acc a => insert a acc) cs (snd rc))
  | EditSudoers Remove _ cs _ => (fst rc, fold_left (fun acc a => remove_addr a acc) cs (snd rc))
  | ChangeRoot _ n => (n, snd rc)
  | _ => rc
  end.

Definition apply_edits (l : list msg) (rc : addr * list addr) : addr * list addr := fold_left apply_edit l rc.

Definition unchanged (cr : addr) (cc : list addr) (o : obs) : Prop :=
  o_root o = cr /\ o_contracts o = cc /\ o_same_sudo o = true /\
  o_same_oracle o = true /\ o_same_infl o = true /\ o_same_meta o = true.

(** one transaction, judged against the sudoers observed just before it *)
Definition step_P (cf : cfg) (cr : addr) (cc : list addr) (tx : list msg) (o : obs) : Prop :=
  (* a rejected privileged message changes no state *)
  (o_ok o = false -> unchanged cr cc o) /\
  (* only the current root edits the sudoers *)
  (o_root o <> cr \/ o_contracts o <> cc \/ o_same_sudo o = false ->
     exists m, In m (leaves_tx tx) /\ is_edit m = true /\ signer m = cr) /\
  (* an accepted tx leaves exactly the sudoers its edits describe: added means listed, removed means
     gone, the new root is the one named *)
  (o_ok o = true -> (o_root o, o_contracts o) = apply_edits (leaves_tx tx) (cr, cc)) /\
  (* a single privileged message (direct or wrapped in authz exec) succeeds only with authority … *)
  (forall m l, tx = [m] -> single_leaf m = Some l -> o_ok o = true -> authorised cr cc l) /\
  (* … and, sent directly (by an account that can sign), succeeds whenever it has it *)
  (forall l, tx = [l] -> is_leaf l = true -> is_contract cf (signer l) = false ->
     authorised cr cc l -> o_ok o = true) /\
  (* an accepted tx is well-authorised all the way down: every message of every carrier (MsgExec,
     contract execution), wrappers included, is presented by the principal the carrier has
     authenticated — nobody's name is used without its signature, its grant or its own dispatch *)
  (o_ok o = true -> wa_tx cf tx = true) /\
  (* a sudoer that is a CONTRACT exercises its authority by dispatching the message itself *)
  (forall sd c l, tx = [Wasm sd c [l]] -> owner_ok cf c sd = true -> is_contract cf sd = false ->
     is_leaf l = true -> signer l = c -> authorised cr cc l -> o_ok o = true) /\
  (* a store changes only when the tx carries the operation that writes it *)
  (o_same_oracle o = false -> exists m, In m (leaves_tx tx) /\ writes_oracle m = true) /\
  (o_same_infl o = false -> exists m, In m (leaves_tx tx) /\ writes_infl m = true) /\
  (o_same_meta o = false -> exists m, In m (leaves_tx tx) /\ writes_meta m = true).

Fixpoint P (cf : cfg) (cr : addr) (cc : list addr) (t : list (list msg * obs)) : Prop :=
  match t with
  | [] => True
  | (tx, o) :: r => step_P cf cr cc tx o /\ P cf (o_root o) (o_contracts o) r
  end.

(* ------------------------------------------------------------------ boolean checker *)

Definition unchanged_b (cr : addr) (cc : list addr) (o : obs) : bool :=
  (o_root o =? cr) && list_eqb (o_contracts o) cc && o_same_sudo o &&
  o_same_oracle o && o_same_infl o && o_same_meta o.

Definition step_Pb (cf : cfg) (cr : addr) (cc : list addr) (tx : list msg) (o : obs) : bool :=
  (o_ok o || unchanged_b cr cc o) &&
  (((o_root o =? cr) && list_eqb (o_contracts o) cc && o_same_sudo o) ||
   existsb (fun m => is_edit m && (signer m =? cr)) (leaves_tx tx)) &&
  (negb (o_ok o) ||
   ((o_root o =? fst (apply_edits (leaves_tx tx) (cr, cc))) &&
    list_eqb (o_contracts o) (snd (apply_edits (leaves_tx tx) (cr, cc))))) &&
  (match tx with
   | [m] =>
       match single_leaf m with
       | Some l => (negb (o_ok o) || authorised_b cr cc l) &&
                   (negb (is_leaf m && negb (is_contract cf (signer m)) && authorised_b cr cc m) || o_ok o)
       | None => true
       end
   | _ => true
   end) &&
  (negb (o_ok o) || wa_tx cf tx) &&
  (match tx with
   | [Wasm sd c [l]] =>
       negb (owner_ok cf c sd && negb (is_contract cf sd) && is_leaf l && (signer l =? c) &&
             authorised_b cr cc l) || o_ok o
   | _ => true
   end) &&
  (o_same_oracle o || existsb writes_oracle (leaves_tx tx)) &&
  (o_same_infl o || existsb writes_infl (leaves_tx tx)) &&
  (o_same_meta o || existsb writes_meta (leaves_tx tx)).

Fixpoint Pb (cf : cfg) (cr : addr) (cc : list addr) (t : list (list msg * obs)) : bool :=
  match t with
  | [] => true
  | (tx, o) :: r => step_Pb cf cr cc tx o && Pb cf (o_root o) (o_contracts o) r
  end.

Lemma list_eqb_eq a b : list_eqb a b = true -> a = b.
Proof.
  revert b; induction a as [|x a IH]; intros [|y b] H; simpl in H; try discriminate; auto.
  apply andb_true_iff in H as [H1 H2]. apply Nat.eqb_eq in H1. subst. f_equal. auto.
Qed.

Lemma list_eqb_refl a : list_eqb a a = true.
Proof. induction a; simpl; auto. rewrite Nat.eqb_refl. auto. Qed.

Lemma mem_In a l : mem a l = true <-> In a l.
Proof.
  induction l as [|x l IH]; simpl.
  - split; [discriminate | tauto].
  - rewrite orb_true_iff, Nat.eqb_eq, IH. split; intros [H|H]; auto.
Qed.

Lemma authorised_b_sound cr cc l : authorised_b cr cc l = true -> authorised cr cc l.
Proof.
  destruct l as [a s cs wf | s n | k s pv | g ms | sd c ms]; simpl.
  - destruct a; simpl; try discriminate;
      rewrite andb_true_iff, Nat.eqb_eq; tauto.
  - apply Nat.eqb_eq.
  - rewrite andb_true_iff, orb_true_iff, Nat.eqb_eq, mem_In. tauto.
  - discriminate.
  - discriminate.
Qed.

Lemma authorised_b_complete cr cc l : authorised cr cc l -> authorised_b cr cc l = true.
Proof.
  destruct l as [a s cs wf | s n | k s pv | g ms | sd c ms]; simpl.
  - destruct a; simpl; try tauto;
      rewrite andb_true_iff, Nat.eqb_eq; tauto.
  - apply Nat.eqb_eq.
  - rewrite andb_true_iff, orb_true_iff, Nat.eqb_eq, mem_In. tauto.
  - tauto.
  - tauto.
Qed.

Lemma unchanged_b_sound cr cc o : unchanged_b cr cc o = true -> unchanged cr cc o.
Proof.
  unfold unchanged_b, unchanged. rewrite !andb_true_iff, Nat.eqb_eq.
  intros [[[[[H1 H2] H3] H4] H5] H6]. apply list_eqb_eq in H2. tauto.
Qed.

Lemma existsb_leaf (f : msg -> bool) (l : list msg) : existsb f l = true -> exists m, In m l /\ f m = true.
Proof. intro H. apply existsb_exists in H. exact H. Qed.

Lemma step_Pb_sound cf cr cc tx o : step_Pb cf cr cc tx o = true -> step_P cf cr cc tx o.
Proof.
  unfold step_Pb, step_P. rewrite !andb_true_iff.
  intros [[[[[[[[H1 H2] He] H3] Hw] Hc] H4] H5] H6].
  split; [|split; [|split; [|split; [|split; [|split; [|split; [|split; [|split]]]]]]]].
  - intro Hk. rewrite Hk in H1. simpl in H1. apply unchanged_b_sound in H1. exact H1.
  - intro Hc'. apply orb_true_iff in H2 as [H2|H2].
    + rewrite !andb_true_iff, Nat.eqb_eq in H2. destruct H2 as [[Ha Hb] Hd].
      apply list_eqb_eq in Hb. destruct Hc' as [Hc'|[Hc'|Hc']]; try contradiction.
      rewrite Hd in Hc'. discriminate.
    + apply existsb_leaf in H2 as (m & Hin & Hm). apply andb_true_iff in Hm as [Hm1 Hm2].
      apply Nat.eqb_eq in Hm2. exists m. auto.
  - intro Hok. rewrite Hok in He. simpl in He. apply andb_true_iff in He as [He1 He2].
    apply Nat.eqb_eq in He1. apply list_eqb_eq in He2.
    destruct (apply_edits (leaves_tx tx) (cr, cc)) as [r1 c1]. simpl in *. subst. reflexivity.
  - intros m l Htx Hl Hok. subst tx. rewrite Hl in H3.
    apply andb_true_iff in H3 as [H3 _]. rewrite Hok in H3. simpl in H3.
    apply authorised_b_sound. exact H3.
  - intros l Htx Hleaf Hnc Hau. subst tx.
    assert (Hs : single_leaf l = Some l) by (destruct l; simpl in *; auto; discriminate).
    rewrite Hs in H3. apply andb_true_iff in H3 as [_ H3].
    rewrite Hleaf, Hnc, (authorised_b_complete _ _ _ Hau) in H3. simpl in H3. exact H3.
  - intro Hok. rewrite Hok in Hw. simpl in Hw. exact Hw.
  - intros sd c l Htx Hown Hsd Hleaf Hsg Hau. subst tx.
    rewrite Hown, Hsd, Hleaf, (authorised_b_complete _ _ _ Hau) in Hc.
    apply Nat.eqb_eq in Hsg. rewrite Hsg in Hc. simpl in Hc. exact Hc.
  - intro Hk. rewrite Hk in H4. simpl in H4. apply existsb_leaf in H4. exact H4.
  - intro Hk. rewrite Hk in H5. simpl in H5. apply existsb_leaf in H5. exact H5.
  - intro Hk. rewrite Hk in H6. simpl in H6. apply existsb_leaf in H6. exact H6.
Qed.

Lemma Pb_sound cf t : forall cr cc, Pb cf cr cc t = true -> P cf cr cc t.
Proof.
  induction t as [|[tx o] r IH]; intros cr cc H; simpl in *; auto.
  apply andb_true_iff in H as [H1 H2]. split.
  - apply step_Pb_sound. exact H1.
  - apply IH. exact H2.
Qed.
