(** C16 — vocabulary of the facts re-extracted from /repo by harness/gen/c16 (Gen/C16Facts.v):
    which functions call a sudo gate, which Msg handlers reach one, and the normal forms of the
    gate functions.  Only types and boolean checks here; the generated terms live in Gen/C16Facts.v. *)
From Coq Require Import String List Bool Arith.
Import ListNotations.
Open Scope string_scope.
Require Import Nib.C16.Model Nib.C16.Spec Nib.C16.Spelled.

Inductive gate := GateSudoers | GateRoot | GateNone.

Record gate_site := { gs_module : string; gs_fn : string; gs_gate : gate; gs_gate_first : bool }.
Record handler := { h_module : string; h_name : string; h_gate : gate }.

Definition gate_eqb (a b : gate) : bool :=
  match a, b with GateSudoers, GateSudoers | GateRoot, GateRoot | GateNone, GateNone => true | _, _ => false end.

Definition site_key (s : gate_site) : string * string * gate := (gs_module s, gs_fn s, gs_gate s).
Definition handler_key (h : handler) : string * string * gate := (h_module h, h_name h, h_gate h).

Definition key_eqb (a b : string * string * gate) : bool :=
  let '(m1, f1, g1) := a in let '(m2, f2, g2) := b in
  String.eqb m1 m2 && String.eqb f1 f2 && gate_eqb g1 g2.

Fixpoint keys_eqb (a b : list (string * string * gate)) : bool :=
  match a, b with
  | [], [] => true
  | x :: a', y :: b' => key_eqb x y && keys_eqb a' b'
  | _, _ => false
  end.

(** the Msg handler that carries each gated operation of the model *)
Definition handler_of (k : gkind) : string * string * gate :=
  match k with
  | GInflEdit => ("inflation", "msgServer.EditInflationParams", GateSudoers)
  | GInflToggle => ("inflation", "msgServer.ToggleInflation", GateSudoers)
  | GOracle => ("oracle", "msgServer.EditOracleParams", GateSudoers)
  | GMeta => ("tokenfactory", "Keeper.SudoSetDenomMetadata", GateSudoers)
  end.

(** all gated operations the model knows, in the generator's (module, name) order *)
Definition all_gkinds : list gkind := [GInflEdit; GInflToggle; GOracle; GMeta].

(** the root-only handlers the model knows (EditSudoers -> AddContracts / RemoveContracts; ChangeRoot) *)
Definition root_handlers : list (string * string * gate) :=
  [("sudo", "Keeper.AddContracts", GateRoot); ("sudo", "Keeper.RemoveContracts", GateRoot);
   ("sudo", "MsgServer.ChangeRoot", GateRoot); ("sudo", "MsgServer.EditSudoers", GateRoot)].

(** the functions that call a gate directly *)
Definition expected_sites : list (string * string * gate) :=
  [("inflation", "sudoExtension.EditInflationParams", GateSudoers);
   ("inflation", "sudoExtension.ToggleInflation", GateSudoers);
   ("oracle", "msgServer.EditOracleParams", GateSudoers);
   ("sudo", "Keeper.AddContracts", GateRoot);
   ("sudo", "Keeper.RemoveContracts", GateRoot);
   ("sudo", "MsgServer.ChangeRoot", GateRoot);
   ("tokenfactory", "Keeper.SudoSetDenomMetadata", GateSudoers)].

Definition gated (hs : list handler) (g : gate) : list (string * string * gate) :=
  map handler_key (filter (fun h => gate_eqb (h_gate h) g) hs).

(** one control-flow path of app/wasmext from the contract-message entry point (DispatchMsg) to the
    Msg router lookup: the switch / type-switch branches it takes, and whether the guard "every signer
    of the dispatched message is the dispatching contract" lies on it *)
Record route_path := { rp_branch : string; rp_signer_guard : bool }.

(** a string written into the stored sudoers from a message (x/sudo/keeper): [sw_what] = "root" (the new
    root), "add" / "remove" (argument of Contracts.Add / Contracts.Remove); [sw_canonical] = the written
    string is the String() of the PARSED address, not the string of the message *)
Record sudoers_write := { sw_fn : string; sw_what : string; sw_expr : string; sw_canonical : bool }.

Record facts := {
  f_sites : list gate_site;
  f_handlers : list handler;
  f_gate_functions : list string;
  f_wasm_routes : list route_path;
  f_writes : list sudoers_write
}.

Definition writes_of (f : facts) (what : string) : list sudoers_write :=
  filter (fun w => String.eqb (sw_what w) what) (f_writes f).

Definition nonempty {A} (l : list A) : bool := match l with [] => false | _ => true end.

(** the switches of the string-keyed store of Spelled.v as read off the tree:
    every write of the root is canonical; the entries of a removal are (also) removed under their
    canonical spelling; no root test compares the sender and the stored root as STRINGS *)
Definition rawcfg_of (f : facts) : rawcfg :=
  {| rw_root := nonempty (writes_of f "root") && forallb sw_canonical (writes_of f "root");
     rw_remove := existsb sw_canonical (writes_of f "remove");
     rw_sender := negb (existsb (String.eqb "GateRoot:$0==$1") (f_gate_functions f)) |}.

(** with all three in place (and canonical additions) the store behaves as the identity-keyed model
    (ProofsSpelled.canon_store_simulates): spellings cannot matter *)
Definition spelling_safe (f : facts) : bool :=
  rw_root (rawcfg_of f) && rw_remove (rawcfg_of f) && rw_sender (rawcfg_of f) &&
  nonempty (writes_of f "add") && forallb sw_canonical (writes_of f "add").

(** the wrapper-guard switch of the model ([Model.c_wguard]) as read off the tree: a message a
    contract dispatches reaches the router only past the signer guard, on EVERY branch — also the
    branches taken by wrapper messages (MsgExec, MsgExecuteContract) *)
Definition wguard_of (f : facts) : bool :=
  match f_wasm_routes f with [] => false | _ => forallb rp_signer_guard (f_wasm_routes f) end.

Fixpoint strs_eqb (a b : list string) : bool :=
  match a, b with
  | [], [] => true
  | x :: a', y :: b' => String.eqb x y && strs_eqb a' b'
  | _, _ => false
  end.

(** the gate functions of x/sudo/keeper, recognised by the normal form of their body (parameters
    $0 $1, receiver $r), whatever their name, receiver or file:
      root test on the decoded addresses (AddContracts / RemoveContracts) — Model.v [sender =? root s]
      root test on the decoded addresses (ChangeRoot)                     — Model.v [sender =? root s]
    ([addr(X)==addr(Y)] = sdk.AccAddressFromBech32(X).Equals(sdk.AccAddressFromBech32(Y)); a comparison of
    the STRINGS would read [X==Y] and is not the model's identity test: a valid upper-case sender differs)
      CheckPermissions: listed contract or root                    — Model.v [permitted]
    ([member(X,y)] is the generator's one spelling of a list-membership test: set.New(X...).Has(y) or
    slices.Contains(X,y); any other lookup, e.g. a binary search, keeps its own text) *)
Definition model_gate_functions : list string :=
  ["GateRoot:addr($0)==addr($1)";
   "GateRoot:addr($0.Root)==addr($1.Sender)";
   "GateSudoers:member($r.Sudoers.Get($1).Contracts,$0.String())||$0.String()==$r.Sudoers.Get($1).Root"].

(** what the model assumes about the code, as a check on the generated facts *)
Definition facts_ok (f : facts) : bool :=
  (* the handlers gated by CheckPermissions are exactly the model's gated operations *)
  keys_eqb (gated (f_handlers f) GateSudoers) (map handler_of all_gkinds) &&
  (* the root-only handlers are exactly the sudoers edits *)
  keys_eqb (gated (f_handlers f) GateRoot) root_handlers &&
  (* the gate call sites are the known ones and each precedes every state write of its function *)
  keys_eqb (map site_key (f_sites f)) expected_sites &&
  forallb gs_gate_first (f_sites f) &&
  (* the gate functions compute what the model's [permitted] / root test computes *)
  strs_eqb (f_gate_functions f) model_gate_functions &&
  (* whatever a contract dispatches is checked against the contract, wrappers included *)
  wguard_of f &&
  (* what is stored / compared is the identity an address string decodes to, not its spelling *)
  spelling_safe f.
