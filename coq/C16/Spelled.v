(** C16 — address SPELLINGS.  The sender, new_root and contracts fields of the privileged messages are
    bech32 STRINGS.  A bech32 string has exactly two accepted spellings — all lower-case (what
    AccAddress.String() produces: the canonical one) and all upper-case; anything else (mixed case, bad
    checksum, …) is refused by ValidateBasic.  This file puts an explicit DECODE step (string -> account
    identity) in front of the identity-keyed model of Model.v, and — for the refutation — a model of a
    sudoers store keyed by the RAW strings of the messages.  No proofs in this file. *)
From Coq Require Import List Bool Arith.
Import ListNotations.
Require Import Nib.C16.Model Nib.C16.Spec.

Inductive spelling := SpLower | SpUpper | SpBad.

(** an address as written in a message: the account it stands for, and how it is spelled *)
Record astr := mkAStr { as_id : addr; as_sp : spelling }.

Definition sp_ok (p : spelling) : bool := match p with SpBad => false | _ => true end.

(** sdk.AccAddressFromBech32 *)
Definition decode (a : astr) : option addr := if sp_ok (as_sp a) then Some (as_id a) else None.

(** messages as they travel: leaves carry strings; the carriers' own fields (grantee, wasm sender /
    contract) belong to other modules and are kept as identities *)
Inductive smsg :=
| SEdit (a : action) (sender : astr) (cs : list astr) (wf : bool)
| SRoot (sender new : astr)
| SGated (k : gkind) (sender : astr) (payload_valid : bool)
| SExec (grantee : addr) (inner : list smsg)
| SWasm (sender contract : addr) (inner : list smsg).

(** the identities a spelled message stands for *)
Fixpoint ids (m : smsg) : msg :=
  match m with
  | SEdit a sd cs wf => EditSudoers a (as_id sd) (map as_id cs) wf
  | SRoot sd n => ChangeRoot (as_id sd) (as_id n)
  | SGated k sd pv => Gated k (as_id sd) pv
  | SExec ge ms => Exec ge (map ids ms)
  | SWasm sd c ms => Wasm sd c (map ids ms)
  end.

(** every address string of the message tree decodes (ValidateBasic of the leaf, which every path to a
    handler runs: baseapp for top-level messages, MsgExec.ValidateBasic for nested ones,
    handleSdkMessage for contract-dispatched ones) *)
Fixpoint spelled_ok (m : smsg) : bool :=
  match m with
  | SEdit _ sd cs _ => sp_ok (as_sp sd) && forallb (fun c => sp_ok (as_sp c)) cs
  | SRoot sd n => sp_ok (as_sp sd) && sp_ok (as_sp n)
  | SGated _ sd _ => sp_ok (as_sp sd)
  | SExec _ ms => forallb spelled_ok ms
  | SWasm _ _ ms => forallb spelled_ok ms
  end.

(** the decode step for a whole tx: None = some string does not decode, the tx is refused *)
Definition decode_tx (stx : list smsg) : option (list msg) :=
  if forallb spelled_ok stx then Some (map ids stx) else None.

(** DeliverTx of a tx as written: decode, then the identity-keyed model *)
Definition sdeliver (cf : cfg) (s : st) (stx : list smsg) : st * bool :=
  match decode_tx stx with
  | Some tx => deliver cf s tx
  | None => (s, false)
  end.

Fixpoint srun_history (cf : cfg) (s : st) (h : list (list smsg)) : st * list bool :=
  match h with
  | [] => (s, [])
  | stx :: r =>
      let '(s1, ok) := sdeliver cf s stx in
      let '(s2, oks) := srun_history cf s1 r in (s2, ok :: oks)
  end.

(** the same tree with other (accepted) spellings: same shape, same identities *)
Definition same_ids (a b : list smsg) : Prop := map ids a = map ids b.

(** the trace property on txs as written: a tx with an undecodable address is rejected and changes
    nothing; any other tx is judged by the identities it names — so by construction NOT by how they
    are spelled *)
Definition sstep_P (cf : cfg) (cr : addr) (cc : list addr) (stx : list smsg) (o : obs) : Prop :=
  match decode_tx stx with
  | Some tx => step_P cf cr cc tx o
  | None => o_ok o = false /\ unchanged cr cc o
  end.

Fixpoint sP (cf : cfg) (cr : addr) (cc : list addr) (t : list (list smsg * obs)) : Prop :=
  match t with
  | [] => True
  | (stx, o) :: r => sstep_P cf cr cc stx o /\ sP cf (o_root o) (o_contracts o) r
  end.

Definition sstep_Pb (cf : cfg) (cr : addr) (cc : list addr) (stx : list smsg) (o : obs) : bool :=
  match decode_tx stx with
  | Some tx => step_Pb cf cr cc tx o
  | None => negb (o_ok o) && unchanged_b cr cc o
  end.

Fixpoint sPb (cf : cfg) (cr : addr) (cc : list addr) (t : list (list smsg * obs)) : bool :=
  match t with
  | [] => true
  | (stx, o) :: r => sstep_Pb cf cr cc stx o && sPb cf (o_root o) (o_contracts o) r
  end.

(* ------------------------------------------------------------------ a store keyed by raw strings *)

(** The variant to be refuted: the sudoers store keeps STRINGS and the handlers work on the strings of
    the message.  Three switches, one per place where x/sudo/keeper touches a message string
    (Gen/C16Facts.v [sudoers_writes] / [gate_functions] say which the tree has):
      [rw_root]   ChangeRoot stores the canonical spelling of the parsed new root (false: msg.NewRoot as given)
      [rw_remove] RemoveContracts removes the canonical spelling of the parsed entry (false: the entry as given)
      [rw_sender] senderHasPermission compares parsed addresses (false: the strings)
    AddContracts stores contract.String() and CheckPermissions looks up addr.String() in every variant. *)
Record rawcfg := { rw_root : bool; rw_remove : bool; rw_sender : bool }.

Record rst := { r_root : astr; r_contracts : list astr }.

Definition sp_eqb (a b : spelling) : bool :=
  match a, b with SpLower, SpLower | SpUpper, SpUpper | SpBad, SpBad => true | _, _ => false end.
Definition astr_eqb (a b : astr) : bool := (as_id a =? as_id b) && sp_eqb (as_sp a) (as_sp b).
Definition canon (a : astr) : astr := mkAStr (as_id a) SpLower.

Definition raw_mem (a : astr) (l : list astr) : bool := existsb (astr_eqb a) l.
Definition raw_add (a : astr) (l : list astr) : list astr := if raw_mem a l then l else l ++ [a].
Definition raw_remove (a : astr) (l : list astr) : list astr := filter (fun x => negb (astr_eqb a x)) l.

(** CheckPermissions(addr): addr.String() is in the stored list or equals the stored root *)
Definition raw_permitted (s : rst) (a : addr) : bool :=
  raw_mem (mkAStr a SpLower) (r_contracts s) || astr_eqb (mkAStr a SpLower) (r_root s).

Definition raw_sender_is_root (rc : rawcfg) (s : rst) (sd : astr) : bool :=
  if rw_sender rc then as_id sd =? as_id (r_root s) else astr_eqb sd (r_root s).

(** the handlers on one leaf whose strings all decode (None = error) *)
Definition raw_handle (rc : rawcfg) (s : rst) (m : smsg) : option rst :=
  if negb (spelled_ok m) then None else
  match m with
  | SEdit Add sd cs wf =>
      if raw_sender_is_root rc s sd && wf
      then Some {| r_root := r_root s; r_contracts := fold_left (fun acc c => raw_add (canon c) acc) cs (r_contracts s) |}
      else None
  | SEdit Remove sd cs wf =>
      if raw_sender_is_root rc s sd && wf
      then Some {| r_root := r_root s;
                   r_contracts := fold_left (fun acc c => raw_remove (if rw_remove rc then canon c else c) acc) cs (r_contracts s) |}
      else None
  | SEdit UnknownAction _ _ _ => None
  | SRoot sd n =>
      (* validateRootPermissions parses both sides *)
      if as_id sd =? as_id (r_root s)
      then Some {| r_root := if rw_root rc then canon n else n; r_contracts := r_contracts s |}
      else None
  | SGated _ sd pv => if raw_permitted s (as_id sd) && pv then Some s else None
  | _ => None
  end.

Fixpoint raw_run (rc : rawcfg) (s : rst) (l : list smsg) : rst * list bool :=
  match l with
  | [] => (s, [])
  | m :: r =>
      match raw_handle rc s m with
      | Some s' => let '(s2, oks) := raw_run rc s' r in (s2, true :: oks)
      | None => let '(s2, oks) := raw_run rc s r in (s2, false :: oks)
      end
  end.

Definition tree_rawcfg : rawcfg := {| rw_root := false; rw_remove := false; rw_sender := false |}.
Definition canon_rawcfg : rawcfg := {| rw_root := true; rw_remove := true; rw_sender := true |}.
