(** C16 — proofs about the model: authority of every executed leaf, rollback, frames, stale
    permissions, and the link to the trace property [P] that [Pb] evaluates on implementation traces. *)
From Coq Require Import List Bool Arith Lia.
Import ListNotations.
Require Import Nib.C16.Model Nib.C16.Spec.

(* ------------------------------------------------------------------ induction on message trees *)

Section MsgInd.
  Variable Q : msg -> Prop.
  Hypothesis HE : forall a s cs wf, Q (EditSudoers a s cs wf).
  Hypothesis HC : forall s n, Q (ChangeRoot s n).
  Hypothesis HG : forall k s pv, Q (Gated k s pv).
  Hypothesis HX : forall ge ms, Forall Q ms -> Q (Exec ge ms).
  Hypothesis HW : forall sd c ms, Forall Q ms -> Q (Wasm sd c ms).

  Fixpoint msg_ind' (m : msg) : Q m :=
    match m with
    | EditSudoers a s cs wf => HE a s cs wf
    | ChangeRoot s n => HC s n
    | Gated k s pv => HG k s pv
    | Exec ge ms =>
        HX ge ms ((fix go (l : list msg) : Forall Q l :=
                    match l with
                    | [] => Forall_nil Q
                    | x :: r => Forall_cons x (msg_ind' x) (go r)
                    end) ms)
    | Wasm sd c ms =>
        HW sd c ms ((fix go (l : list msg) : Forall Q l :=
                    match l with
                    | [] => Forall_nil Q
                    | x :: r => Forall_cons x (msg_ind' x) (go r)
                    end) ms)
    end.
End MsgInd.

(* ------------------------------------------------------------------ basic facts *)

Lemma exec_leaf cf s m : is_leaf m = true -> exec_msg cf s m = handle_leaf s m.
Proof. destruct m; simpl; auto; discriminate. Qed.

Lemma exec_Exec cf s ge ms :
  exec_msg cf s (Exec ge ms) =
  match ms with
  | [] => None
  | _ => dispatch (fun s' m' => exec_msg cf s' m') (dispatch_ok (c_grants cf) ge) s ms
  end.
Proof. destruct ms; reflexivity. Qed.

Lemma exec_Wasm cf s sd c ms :
  exec_msg cf s (Wasm sd c ms) =
  match ms with
  | [] => None
  | _ => if owner_ok cf c sd
         then dispatch (fun s' m' => exec_msg cf s' m') (wasm_ok (c_wguard cf) c) s ms
         else None
  end.
Proof. destruct ms; reflexivity. Qed.

Lemma leaves_leaf m : is_leaf m = true -> leaves m = [m].
Proof. destruct m; simpl; auto; discriminate. Qed.

Lemma run_leaves_app s l1 l2 :
  run_leaves s (l1 ++ l2) = match run_leaves s l1 with Some s1 => run_leaves s1 l2 | None => None end.
Proof.
  revert s; induction l1 as [|m l1 IH]; intro s; simpl; auto.
  destruct (handle_leaf s m); auto.
Qed.

(** a carrier only ever removes behaviours: whatever its inner messages do, the plain sequence of
    their leaves does too — whatever the carrier's entry test *)
Lemma dispatch_flatten (f : st -> msg -> option st) (ok : msg -> bool) : forall l s s',
  Forall (fun m => forall s s', f s m = Some s' -> run_leaves s (leaves m) = Some s') l ->
  dispatch f ok s l = Some s' -> run_leaves s (flat_map leaves l) = Some s'.
Proof.
  induction l as [|x r IHr]; intros s s' HF H; simpl in *.
  - exact H.
  - inversion HF as [|? ? Hx Hr]; subst.
    destruct (ok x); try discriminate.
    destruct (f s x) as [s1|] eqn:E; try discriminate.
    rewrite run_leaves_app, (Hx _ _ E). apply IHr; auto.
Qed.

(** the carrier layers (authz, contract dispatch) never add behaviours: whatever a message tree
    does, the plain sequence of its leaves does too *)
Lemma exec_flatten cf : forall m s s', exec_msg cf s m = Some s' -> run_leaves s (leaves m) = Some s'.
Proof.
  induction m as [a sd cs wf | sd n | k sd pv | ge ms IH | sd c ms IH] using msg_ind'; intros s s' H;
    try (simpl in *; rewrite H; reflexivity).
  - rewrite exec_Exec in H. simpl leaves.
    destruct ms as [|m0 r]; try discriminate.
    eapply dispatch_flatten; eauto.
  - rewrite exec_Wasm in H. simpl leaves.
    destruct ms as [|m0 r]; try discriminate.
    destruct (owner_ok cf c sd); try discriminate.
    eapply dispatch_flatten; eauto.
Qed.

Lemma run_msgs_flatten cf : forall tx s s', run_msgs cf s tx = Some s' -> run_leaves s (leaves_tx tx) = Some s'.
Proof.
  induction tx as [|m r IH]; intros s s' H; simpl in *; auto.
  destruct (exec_msg cf s m) as [s1|] eqn:E; try discriminate.
  rewrite run_leaves_app, (exec_flatten cf _ _ _ E). auto.
Qed.

Lemma handle_leaf_is_leaf s m s' : handle_leaf s m = Some s' -> is_leaf m = true.
Proof. destruct m; simpl; auto; discriminate. Qed.

(** what a successful handler implies: the sender had the authority the handler asks for *)
Lemma handle_leaf_authorised s m s' :
  handle_leaf s m = Some s' -> authorised (root s) (contracts s) m.
Proof.
  destruct m as [a sd cs wf | sd n | k sd pv | ge ms | wsd wc wms]; simpl; try discriminate.
  - destruct a; try discriminate;
      destruct ((sd =? root s) && wf) eqn:E; try discriminate; intros _;
      apply andb_true_iff in E as [E1 E2]; apply Nat.eqb_eq in E1; auto.
  - destruct (sd =? root s) eqn:E; try discriminate. intros _. apply Nat.eqb_eq. exact E.
  - destruct (permitted s sd && pv) eqn:E; try discriminate. intros _.
    apply andb_true_iff in E as [E1 E2]. unfold permitted in E1.
    apply orb_true_iff in E1. rewrite mem_In, Nat.eqb_eq in E1. auto.
Qed.

Lemma authorised_handle s m :
  is_leaf m = true -> authorised (root s) (contracts s) m -> exists s', handle_leaf s m = Some s'.
Proof.
  destruct m as [a sd cs wf | sd n | k sd pv | ge ms | wsd wc wms]; simpl; try discriminate; intros _ H.
  - destruct a; try contradiction; destruct H as [H1 H2]; subst;
      rewrite Nat.eqb_refl; simpl; eexists; reflexivity.
  - subst. rewrite Nat.eqb_refl. eexists; reflexivity.
  - destruct H as [H1 H2]. subst pv.
    assert (Hp : permitted s sd = true).
    { unfold permitted. apply orb_true_iff. rewrite mem_In, Nat.eqb_eq. exact H1. }
    rewrite Hp. simpl. eexists; reflexivity.
Qed.

Definition same_sudoers (s1 s2 : st) : Prop := root s1 = root s2 /\ contracts s1 = contracts s2.

Lemma same_sudoers_dec s1 s2 : {same_sudoers s1 s2} + {~ same_sudoers s1 s2}.
Proof.
  unfold same_sudoers.
  destruct (Nat.eq_dec (root s1) (root s2)); [|right; tauto].
  destruct (list_eq_dec Nat.eq_dec (contracts s1) (contracts s2)); [left|right]; tauto.
Qed.

Lemma sudoers_eqb_spec s1 s2 : sudoers_eqb s1 s2 = true <-> same_sudoers s1 s2.
Proof.
  unfold sudoers_eqb, same_sudoers. rewrite andb_true_iff, Nat.eqb_eq. split.
  - intros [H1 H2]. apply list_eqb_eq in H2. auto.
  - intros [H1 H2]. rewrite H2. split; auto. apply list_eqb_refl.
Qed.

(** only edits touch the sudoers, only the matching gated op touches a store *)
Lemma handle_leaf_frame s m s' :
  handle_leaf s m = Some s' ->
  (is_edit m = false -> same_sudoers s' s) /\
  (writes_oracle m = false -> w_oracle s' = w_oracle s) /\
  (writes_infl m = false -> w_infl s' = w_infl s) /\
  (writes_meta m = false -> w_meta s' = w_meta s).
Proof.
  unfold same_sudoers.
  destruct m as [a sd cs wf | sd n | k sd pv | ge ms | wsd wc wms]; simpl; try discriminate.
  - destruct a; try discriminate; destruct ((sd =? root s) && wf); try discriminate;
      intro H; inversion H; subst; simpl; repeat split; auto; discriminate.
  - destruct (sd =? root s); try discriminate. intro H; inversion H; subst; simpl.
    repeat split; auto; discriminate.
  - destruct (permitted s sd && pv); try discriminate. intro H; inversion H; subst.
    destruct k; simpl; repeat split; auto; discriminate.
Qed.

(* ------------------------------------------------------------------ leaf sequences *)

(** every leaf of a successful run had, when it ran, the authority its handler asks for *)
Lemma run_leaves_each_authorised : forall l s s',
  run_leaves s l = Some s' ->
  forall l1 m l2, l = l1 ++ m :: l2 ->
  exists s1, run_leaves s l1 = Some s1 /\ authorised (root s1) (contracts s1) m.
Proof.
  induction l as [|x r IH]; intros s s' H l1 m l2 E.
  - destruct l1; discriminate.
  - simpl in H. destruct (handle_leaf s x) as [sx|] eqn:Hx; try discriminate.
    destruct l1 as [|y l1]; simpl in E; inversion E; subst.
    + exists s. split; auto. eapply handle_leaf_authorised; eauto.
    + simpl. rewrite Hx. eapply IH; eauto.
Qed.

Lemma run_leaves_sudoers_change : forall l s s',
  run_leaves s l = Some s' -> ~ same_sudoers s' s ->
  exists m, In m l /\ is_edit m = true /\ signer m = root s.
Proof.
  induction l as [|x r IH]; intros s s' H Hne; simpl in H.
  - inversion H; subst. exfalso. apply Hne. split; auto.
  - destruct (handle_leaf s x) as [sx|] eqn:Hx; try discriminate.
    destruct (is_edit x) eqn:Ee.
    + exists x. split; [left; auto|]. split; auto.
      pose proof (handle_leaf_authorised _ _ _ Hx) as Ha.
      destruct x as [a sd cs wf | sd n | k sd pv | ge ms | wsd wc wms]; simpl in *; try discriminate.
      * destruct a; simpl in Ha; tauto.
      * exact Ha.
    + destruct (handle_leaf_frame _ _ _ Hx) as [Hs _]. specialize (Hs Ee).
      destruct (IH sx s' H) as (m & Hin & He & Hsg).
      { intro Hc. apply Hne. destruct Hc, Hs. split; congruence. }
      exists m. split; [right; auto|]. split; auto. destruct Hs. congruence.
Qed.

Lemma run_leaves_store_change (wr : msg -> bool) (cnt : st -> nat) :
  (forall s m s', handle_leaf s m = Some s' -> wr m = false -> cnt s' = cnt s) ->
  forall l s s', run_leaves s l = Some s' -> cnt s' <> cnt s ->
  exists m, In m l /\ wr m = true.
Proof.
  intros Hfr. induction l as [|x r IH]; intros s s' H Hne; simpl in H.
  - inversion H; subst. congruence.
  - destruct (handle_leaf s x) as [sx|] eqn:Hx; try discriminate.
    destruct (wr x) eqn:Ew.
    + exists x. split; [left|]; auto.
    + rewrite <- (Hfr _ _ _ Hx Ew) in Hne.
      destruct (IH sx s' H Hne) as (m & Hin & Hm). exists m. split; [right|]; auto.
Qed.

Lemma handle_leaf_effect s m s' :
  handle_leaf s m = Some s' -> (root s', contracts s') = apply_edit (root s, contracts s) m.
Proof.
  destruct m as [a sd cs wf | sd n | k sd pv | ge ms | wsd wc wms]; simpl; try discriminate.
  - destruct a; try discriminate; destruct ((sd =? root s) && wf); try discriminate;
      intro H; inversion H; subst; reflexivity.
  - destruct (sd =? root s); try discriminate. intro H; inversion H; subst; reflexivity.
  - destruct (permitted s sd && pv); try discriminate. intro H; inversion H; subst. destruct k; reflexivity.
Qed.

Lemma run_leaves_effect : forall l s s',
  run_leaves s l = Some s' -> (root s', contracts s') = apply_edits l (root s, contracts s).
Proof.
  induction l as [|x r IH]; intros s s' H; simpl in H.
  - inversion H; subst. reflexivity.
  - destruct (handle_leaf s x) as [sx|] eqn:Hx; try discriminate.
    unfold apply_edits. simpl. rewrite <- (handle_leaf_effect _ _ _ Hx). apply IH. exact H.
Qed.

(* ------------------------------------------------------------------ single messages *)

Lemma single_leaf_leaves : forall m l, single_leaf m = Some l -> leaves m = [l] /\ is_leaf l = true.
Proof.
  induction m as [a sd cs wf | sd n | k sd pv | ge ms IH | wsd wc ms IH] using msg_ind'; intros l H; simpl in H;
    try (inversion H; subst; simpl; auto; fail).
  - destruct ms as [|x [|y r]]; try discriminate.
    inversion IH as [|? ? Hx _]; subst. simpl. rewrite app_nil_r. apply Hx. exact H.
  - destruct ms as [|x [|y r]]; try discriminate.
    inversion IH as [|? ? Hx _]; subst. simpl. rewrite app_nil_r. apply Hx. exact H.
Qed.

(** C16_gated_iff_permitted, direct form *)
Lemma gated_iff_permitted cf s k a pv :
  (exists s', exec_msg cf s (Gated k a pv) = Some s') <-> permitted s a = true /\ pv = true.
Proof.
  simpl. split.
  - intros [s' H]. destruct (permitted s a && pv) eqn:E; try discriminate. apply andb_true_iff in E. exact E.
  - intros [H1 H2]. rewrite H1, H2. eexists; reflexivity.
Qed.

Lemma gated_effect cf s k a pv s' : exec_msg cf s (Gated k a pv) = Some s' -> s' = bump k s.
Proof. simpl. destruct (permitted s a && pv); intro H; inversion H; auto. Qed.

(** wrapped once in MsgExec: exactly the authz condition on top *)
Lemma gated_exec_iff cf s ge k a pv :
  (exists s', exec_msg cf s (Exec ge [Gated k a pv]) = Some s') <->
  (a = ge \/ has_grant (c_grants cf) a ge (KGated k) = true) /\ permitted s a = true /\ pv = true.
Proof.
  rewrite exec_Exec. simpl. unfold dispatch_ok. simpl. split.
  - intros [s' H].
    destruct ((a =? ge) || has_grant (c_grants cf) a ge (KGated k)) eqn:D; try discriminate.
    destruct (permitted s a && pv) eqn:E; try discriminate.
    apply orb_true_iff in D. rewrite Nat.eqb_eq in D. apply andb_true_iff in E. tauto.
  - intros [D [H1 H2]].
    assert (D' : (a =? ge) || has_grant (c_grants cf) a ge (KGated k) = true).
    { apply orb_true_iff. rewrite Nat.eqb_eq. exact D. }
    rewrite D', H1, H2. simpl. eexists; reflexivity.
Qed.

(** dispatched by a contract: the contract is the sender — its own listing counts, nobody else's.
    (a gated message is not a wrapper, so this holds whatever the wrapper guard does) *)
Lemma gated_wasm_iff cf s sd c k a pv :
  (exists s', exec_msg cf s (Wasm sd c [Gated k a pv]) = Some s') <->
  owner_ok cf c sd = true /\ a = c /\ permitted s a = true /\ pv = true.
Proof.
  rewrite exec_Wasm. unfold wasm_ok. simpl. rewrite andb_false_r, orb_false_r. split.
  - intros [s' H].
    destruct (owner_ok cf c sd); try discriminate. simpl in H.
    destruct (a =? c) eqn:D; try discriminate.
    destruct (permitted s a && pv) eqn:E; try discriminate.
    apply Nat.eqb_eq in D. apply andb_true_iff in E. tauto.
  - intros [Ho [D [H1 H2]]]. subst a. rewrite Ho, Nat.eqb_refl, H1, H2. simpl. eexists; reflexivity.
Qed.

(** a contract dispatching a MsgExec: the exec's grantee must be the contract itself, and then the
    authz condition is about the contract — a spoofed grantee gets nothing through *)
Lemma gated_wasm_exec_iff cf s sd c ge k a pv :
  c_wguard cf = true ->
  ((exists s', exec_msg cf s (Wasm sd c [Exec ge [Gated k a pv]]) = Some s') <->
   owner_ok cf c sd = true /\ ge = c /\
   (a = c \/ has_grant (c_grants cf) a c (KGated k) = true) /\ permitted s a = true /\ pv = true).
Proof.
  intro Hg. rewrite exec_Wasm. unfold wasm_ok. rewrite Hg.
  cbn [dispatch signer negb andb orb is_exec]. rewrite orb_false_r. split.
  - intros [s' H].
    destruct (owner_ok cf c sd); try discriminate.
    destruct (ge =? c) eqn:D; try discriminate. apply Nat.eqb_eq in D. subst ge.
    destruct (exec_msg cf s (Exec c [Gated k a pv])) as [s1|] eqn:E; try discriminate.
    destruct (proj1 (gated_exec_iff cf s c k a pv) (ex_intro _ s1 E)) as (H1 & H2 & H3). tauto.
  - intros (Ho & D & H1 & H2 & H3). subst ge. rewrite Ho, Nat.eqb_refl.
    destruct (proj2 (gated_exec_iff cf s c k a pv) (conj H1 (conj H2 H3))) as [s1 E].
    rewrite E. eexists; reflexivity.
Qed.

(** C16_root_only_edits, handler form *)
Lemma root_only_edits_leaf s m s' :
  is_edit m = true -> handle_leaf s m = Some s' -> signer m = root s.
Proof.
  intros He H. pose proof (handle_leaf_authorised _ _ _ H) as Ha.
  destruct m as [a sd cs wf | sd n | k sd pv | ge ms | wsd wc wms]; simpl in *; try discriminate.
  - destruct a; simpl in Ha; tauto.
  - exact Ha.
Qed.

(* ------------------------------------------------------------------ deliver *)

Lemma deliver_rejected cf s tx : snd (deliver cf s tx) = false -> fst (deliver cf s tx) = s.
Proof.
  unfold deliver. destruct tx as [|m r]; auto.
  destruct (signable cf (m :: r)); auto.
  destruct (run_msgs cf s (m :: r)); simpl; auto.
  discriminate.
Qed.

Lemma deliver_ok cf s tx s' :
  deliver cf s tx = (s', true) -> tx <> [] /\ signable cf tx = true /\ run_msgs cf s tx = Some s'.
Proof.
  unfold deliver. destruct tx as [|m r]; [intro H; inversion H|].
  destruct (signable cf (m :: r)); [|intro H; inversion H].
  destruct (run_msgs cf s (m :: r)) as [s1|] eqn:E; intro H; inversion H; subst.
  split; [discriminate|]. split; auto.
Qed.

(** a tx with a failing message discards what earlier messages of the same tx wrote *)
Lemma deliver_atomic cf s pre m post :
  (forall s1, run_msgs cf s pre = Some s1 -> exec_msg cf s1 m = None) ->
  deliver cf s (pre ++ m :: post) = (s, false).
Proof.
  intro H. unfold deliver.
  assert (E : run_msgs cf s (pre ++ m :: post) = None).
  { revert s H. induction pre as [|x pre IH]; intros s H; simpl.
    - rewrite (H s eq_refl). reflexivity.
    - destruct (exec_msg cf s x) as [sx|] eqn:Ex; auto. apply IH. intros s1 H1. apply H. simpl. rewrite Ex. exact H1. }
  rewrite E. destruct (pre ++ m :: post); [reflexivity|].
  destruct (signable cf (m0 :: l)); reflexivity.
Qed.

(** C16_root_only_edits, tx form: the sudoers differ after a tx only if it carried an edit signed
    by the root in force before the tx *)
Lemma deliver_sudoers_change cf s tx :
  ~ same_sudoers (fst (deliver cf s tx)) s ->
  snd (deliver cf s tx) = true /\
  exists m, In m (leaves_tx tx) /\ is_edit m = true /\ signer m = root s.
Proof.
  intro Hne. destruct (deliver cf s tx) as [s' ok] eqn:D. simpl in *.
  destruct ok.
  - split; auto. apply deliver_ok in D as (_ & _ & R). apply run_msgs_flatten in R.
    eapply run_leaves_sudoers_change; eauto.
  - pose proof (deliver_rejected cf s tx) as Hr. rewrite D in Hr. simpl in Hr.
    rewrite (Hr eq_refl) in Hne. exfalso. apply Hne. split; auto.
Qed.

(** every leaf of an accepted tx, at any MsgExec depth, was authorised in the state it ran in *)
Lemma deliver_each_leaf_authorised cf s tx s' :
  deliver cf s tx = (s', true) ->
  forall l1 m l2, leaves_tx tx = l1 ++ m :: l2 ->
  exists s1, run_leaves s l1 = Some s1 /\ authorised (root s1) (contracts s1) m.
Proof.
  intros D. apply deliver_ok in D as (_ & _ & R). apply run_msgs_flatten in R.
  eapply run_leaves_each_authorised; eauto.
Qed.

(* ------------------------------------------------------------------ stale permissions *)

Lemma mem_insert a x l : mem a (insert x l) = (a =? x) || mem a l.
Proof.
  induction l as [|y l IH]; simpl; auto.
  destruct (x <? y) eqn:E1; simpl; auto.
  destruct (x =? y) eqn:E2; simpl.
  - apply Nat.eqb_eq in E2. subst. destruct (a =? y); auto.
  - rewrite IH. destruct (a =? x), (a =? y); auto.
Qed.

Lemma mem_remove a x l : mem a (remove_addr x l) = negb (a =? x) && mem a l.
Proof.
  induction l as [|y l IH]; simpl.
  - rewrite andb_false_r. reflexivity.
  - destruct (x =? y) eqn:E; simpl.
    + rewrite IH. apply Nat.eqb_eq in E. subst. destruct (a =? y); auto.
    + rewrite IH. destruct (a =? x) eqn:E2; simpl; auto.
      apply Nat.eqb_eq in E2. subst. rewrite E. reflexivity.
Qed.

Lemma mem_fold_insert a cs : forall l, mem a (fold_left (fun acc x => insert x acc) cs l) = mem a cs || mem a l.
Proof.
  induction cs as [|c cs IH]; intro l; simpl; auto.
  rewrite IH, mem_insert. destruct (a =? c), (mem a cs), (mem a l); auto.
Qed.

Lemma mem_fold_remove a cs : forall l, mem a (fold_left (fun acc x => remove_addr x acc) cs l) = negb (mem a cs) && mem a l.
Proof.
  induction cs as [|c cs IH]; intro l; simpl; auto.
  rewrite IH, mem_remove. destruct (a =? c), (mem a cs), (mem a l); auto.
Qed.

(** a leaf "grants" [a] when it could make [a] a sudoer *)
Definition grants_to (a : addr) (m : msg) : bool :=
  match m with
  | EditSudoers Add _ cs _ => mem a cs
  | ChangeRoot _ n => a =? n
  | _ => false
  end.

Lemma handle_leaf_keeps_unpermitted s m s' a :
  handle_leaf s m = Some s' -> permitted s a = false -> grants_to a m = false -> permitted s' a = false.
Proof.
  unfold permitted.
  destruct m as [ac sd cs wf | sd n | k sd pv | ge ms | wsd wc wms]; simpl; try discriminate.
  - destruct ac; try discriminate; destruct ((sd =? root s) && wf); try discriminate;
      intro H; inversion H; subst; simpl; intros Hp Hg.
    + rewrite mem_fold_insert, Hg. exact Hp.
    + rewrite mem_fold_remove. apply orb_false_iff in Hp as [Hp1 Hp2]. rewrite Hp1, Hp2, andb_false_r. reflexivity.
  - destruct (sd =? root s); try discriminate. intro H; inversion H; subst; simpl.
    intros Hp Hg. apply orb_false_iff in Hp as [Hp1 _]. rewrite Hp1, Hg. reflexivity.
  - destruct (permitted s sd && pv); try discriminate. intro H; inversion H; subst.
    intros Hp _. destruct k; simpl; exact Hp.
Qed.

Lemma run_leaves_keeps_unpermitted a : forall l s s',
  run_leaves s l = Some s' -> permitted s a = false -> forallb (fun m => negb (grants_to a m)) l = true ->
  permitted s' a = false.
Proof.
  induction l as [|x r IH]; intros s s' H Hp Hg; simpl in *.
  - inversion H; subst; auto.
  - destruct (handle_leaf s x) as [sx|] eqn:Hx; try discriminate.
    apply andb_true_iff in Hg as [Hg1 Hg2]. apply negb_true_iff in Hg1.
    eapply IH; eauto. eapply handle_leaf_keeps_unpermitted; eauto.
Qed.

(** an account without permission cannot get a privileged leaf through, however it is wrapped *)
Lemma unpermitted_first_leaf_rejected cf s tx a m r :
  permitted s a = false -> leaves_tx tx = m :: r -> signer m = a -> deliver cf s tx = (s, false).
Proof.
  intros Hp Hl Hs.
  destruct (deliver cf s tx) as [s' ok] eqn:D. destruct ok.
  - exfalso. destruct (deliver_each_leaf_authorised cf s tx s' D [] m r Hl) as (s1 & H1 & Ha).
    simpl in H1. inversion H1; subst s1.
    pose proof (deliver_ok _ _ _ _ D) as (_ & _ & R). apply run_msgs_flatten in R. rewrite Hl in R. simpl in R.
    destruct (handle_leaf s m) as [sm|] eqn:Hm; try discriminate.
    pose proof (handle_leaf_is_leaf _ _ _ Hm) as Hleaf.
    unfold permitted in Hp. apply orb_false_iff in Hp as [Hp1 Hp2].
    destruct m as [ac sd cs wf | sd n | k sd pv | ge ms | wsd wc wms]; simpl in *; try discriminate; subst.
    + destruct ac; simpl in Ha; try tauto; destruct Ha as [Ha _]; subst; rewrite Nat.eqb_refl in Hp2; discriminate.
    + rewrite Nat.eqb_refl in Hp2; discriminate.
    + destruct Ha as [[Ha|Ha] _].
      * apply mem_In in Ha. congruence.
      * subst. rewrite Nat.eqb_refl in Hp2. discriminate.
  - pose proof (deliver_rejected cf s tx) as Hr. rewrite D in Hr. simpl in Hr. rewrite (Hr eq_refl). reflexivity.
Qed.

(** ChangeRoot demotes the former root (unless it is also a listed contract or names itself) *)
Lemma former_root_unpermitted s old new s' :
  handle_leaf s (ChangeRoot old new) = Some s' -> old <> new -> mem old (contracts s) = false ->
  permitted s' old = false.
Proof.
  simpl. destruct (old =? root s) eqn:E; try discriminate. intro H; inversion H; subst.
  intros Hne Hm. unfold permitted. simpl. rewrite Hm. simpl. apply Nat.eqb_neq. exact Hne.
Qed.

(** a removed contract is no longer permitted (unless it is the root) *)
Lemma removed_contract_unpermitted s sd cs wf c s' :
  handle_leaf s (EditSudoers Remove sd cs wf) = Some s' -> In c cs -> c <> root s ->
  permitted s' c = false.
Proof.
  simpl. destruct ((sd =? root s) && wf); try discriminate. intro H; inversion H; subst.
  intros Hin Hne. unfold permitted. simpl. rewrite mem_fold_remove.
  apply mem_In in Hin. rewrite Hin. simpl. apply Nat.eqb_neq. exact Hne.
Qed.

(** over arbitrary histories: while nobody with authority lets [a] back in, every tx whose first
    privileged leaf is signed by [a] is rejected and [a] stays without permission *)
Fixpoint no_grant_to (a : addr) (h : list (list msg)) : bool :=
  match h with
  | [] => true
  | tx :: r => forallb (fun m => negb (grants_to a m)) (leaves_tx tx) && no_grant_to a r
  end.

Fixpoint first_leaf_by (a : addr) (h : list (list msg)) : list bool :=
  match h with
  | [] => []
  | tx :: r => (match leaves_tx tx with m :: _ => signer m =? a | [] => false end) :: first_leaf_by a r
  end.

Lemma deliver_keeps_unpermitted cf s tx a :
  permitted s a = false -> forallb (fun m => negb (grants_to a m)) (leaves_tx tx) = true ->
  permitted (fst (deliver cf s tx)) a = false.
Proof.
  intros Hp Hg. destruct (deliver cf s tx) as [s' ok] eqn:D. simpl. destruct ok.
  - apply deliver_ok in D as (_ & _ & R). apply run_msgs_flatten in R.
    eapply run_leaves_keeps_unpermitted; eauto.
  - pose proof (deliver_rejected cf s tx) as Hr. rewrite D in Hr. simpl in Hr. rewrite (Hr eq_refl). exact Hp.
Qed.

Lemma stale_over_history cf a : forall h s,
  permitted s a = false -> no_grant_to a h = true ->
  permitted (fst (run_history cf s h)) a = false /\
  Forall2 (fun mine ok => mine = true -> ok = false) (first_leaf_by a h) (snd (run_history cf s h)).
Proof.
  induction h as [|tx r IH]; intros s Hp Hg; simpl in *.
  - split; auto.
  - apply andb_true_iff in Hg as [Hg1 Hg2].
    pose proof (deliver_keeps_unpermitted cf s tx a Hp Hg1) as Hp1.
    destruct (deliver cf s tx) as [s1 ok] eqn:D. simpl in Hp1.
    destruct (IH s1 Hp1 Hg2) as [IH1 IH2].
    destruct (run_history cf s1 r) as [s2 oks] eqn:R. simpl in *.
    split; auto. constructor; auto.
    intro Hm. destruct (leaves_tx tx) as [|m l] eqn:L; try discriminate.
    apply Nat.eqb_eq in Hm.
    rewrite (unpermitted_first_leaf_rejected cf s tx a m l Hp L Hm) in D. inversion D; auto.
Qed.

(* ------------------------------------------------------------------ who really authorised *)

Lemma forallb_Forall {A} (f : A -> bool) l : forallb f l = true <-> Forall (fun x => f x = true) l.
Proof.
  induction l as [|x l IH]; simpl.
  - split; auto.
  - rewrite andb_true_iff, IH. split.
    + intros [H1 H2]. constructor; auto.
    + intro H. inversion H; subst. auto.
Qed.

(** a carrier that ran to completion let in, and ran, every one of its inner messages *)
Lemma dispatch_each (f : st -> msg -> option st) (ok : msg -> bool) : forall l s s',
  dispatch f ok s l = Some s' ->
  Forall (fun m => ok m = true /\ exists s1 s2, f s1 m = Some s2) l.
Proof.
  induction l as [|x r IH]; intros s s' H; simpl in H; constructor.
  - destruct (ok x) eqn:E; try discriminate. split; auto.
    destruct (f s x) as [s1|] eqn:F; try discriminate. eauto.
  - destruct (ok x); try discriminate. destruct (f s x) as [s1|]; try discriminate. eauto.
Qed.

(** with the wrapper guard in place, whatever runs is well-authorised all the way down *)
Lemma exec_wa cf : c_wguard cf = true ->
  forall m s s', exec_msg cf s m = Some s' -> wa_b cf (signer m) m = true.
Proof.
  intro Hg.
  induction m as [a sd cs wf | sd n | k sd pv | ge ms IH | sd c ms IH] using msg_ind'; intros s s' H;
    try (simpl; rewrite Nat.eqb_refl; reflexivity).
  - rewrite exec_Exec in H. destruct ms as [|m0 r]; try discriminate.
    apply dispatch_each in H.
    cbn [wa_b signer]. rewrite Nat.eqb_refl. cbn [andb].
    apply forallb_Forall. rewrite Forall_forall in *. intros x Hx.
    destruct (H x Hx) as [Hok (s1 & s2 & Hex)]. rewrite Hok. cbn [andb]. eapply IH; eauto.
  - rewrite exec_Wasm in H. destruct ms as [|m0 r]; try discriminate.
    destruct (owner_ok cf c sd) eqn:Ho; try discriminate.
    apply dispatch_each in H.
    cbn [wa_b signer]. rewrite Nat.eqb_refl, Ho. cbn [andb].
    apply forallb_Forall. rewrite Forall_forall in *. intros x Hx.
    destruct (H x Hx) as [Hok (s1 & s2 & Hex)].
    unfold wasm_ok in Hok. rewrite Hg in Hok. cbn [negb andb] in Hok. rewrite orb_false_r in Hok.
    apply Nat.eqb_eq in Hok. rewrite <- Hok. eapply IH; eauto.
Qed.

Lemma run_msgs_wa cf : c_wguard cf = true ->
  forall tx s s', run_msgs cf s tx = Some s' -> wa_tx cf tx = true.
Proof.
  intro Hg. induction tx as [|m r IH]; intros s s' H; simpl in *; auto.
  destruct (exec_msg cf s m) as [s1|] eqn:E; try discriminate.
  unfold wa_tx in *. rewrite (exec_wa cf Hg _ _ _ E). simpl. eauto.
Qed.

(** every message of an accepted tx — wrappers included, at any depth, whatever mix of authz and
    contract carriers — is presented by the principal its carrier has authenticated; the top-level
    ones by accounts that can sign *)
Lemma deliver_well_authorised cf s tx s' :
  c_wguard cf = true -> deliver cf s tx = (s', true) -> wa_tx cf tx = true /\ signable cf tx = true.
Proof.
  intros Hg D. apply deliver_ok in D as (_ & Hs & R). split; auto. eapply run_msgs_wa; eauto.
Qed.

(** what well-authorised means for the leaves: the sender of every privileged leaf under a
    message presented by [p] is [p] itself, or an account that has issued an authz grant, or a
    contract the tree executes (called by its owner) *)
Definition is_granter (cf : cfg) (a : addr) : bool := existsb (fun x => g_granter x =? a) (c_grants cf).

Definition backed (cf : cfg) (p : addr) (cs : list addr) (a : addr) : Prop :=
  a = p \/ is_granter cf a = true \/ (In a cs /\ is_contract cf a = true).

Lemma has_grant_granter cf a ge k : has_grant (c_grants cf) a ge k = true -> is_granter cf a = true.
Proof.
  unfold has_grant, is_granter. rewrite !existsb_exists. intros (x & Hin & Hx).
  exists x. split; auto. rewrite !andb_true_iff in Hx. tauto.
Qed.

Lemma owner_ok_contract cf c sd : owner_ok cf c sd = true -> is_contract cf c = true.
Proof.
  unfold owner_ok, is_contract. rewrite !existsb_exists. intros (x & Hin & Hx).
  exists x. split; auto. rewrite andb_true_iff in Hx. tauto.
Qed.

Lemma wa_leaves_backed cf : forall m p, wa_b cf p m = true ->
  forall l, In l (leaves m) -> backed cf p (executed_contracts m) (signer l).
Proof.
  induction m as [a sd cs wf | sd n | k sd pv | ge ms IH | sd c ms IH] using msg_ind'; intros p H l Hl;
    try (simpl in *; apply andb_true_iff in H as [H _]; apply Nat.eqb_eq in H;
         destruct Hl as [Hl|[]]; subst l; left; exact H).
  - cbn [wa_b signer] in H. apply andb_true_iff in H as [Hp H]. apply Nat.eqb_eq in Hp. subst ge.
    simpl in Hl. apply in_flat_map in Hl as (x & Hx & Hlx).
    rewrite forallb_forall in H. specialize (H x Hx). apply andb_true_iff in H as [Hd Hw].
    rewrite Forall_forall in IH. destruct (IH x Hx _ Hw l Hlx) as [E|[E|[E1 E2]]].
    + unfold dispatch_ok in Hd. apply orb_true_iff in Hd as [Hd|Hd].
      * apply Nat.eqb_eq in Hd. left. congruence.
      * right. left. rewrite E. eapply has_grant_granter; eauto.
    + right. left. exact E.
    + right. right. split; auto. simpl. apply in_flat_map. eauto.
  - cbn [wa_b signer] in H. apply andb_true_iff in H as [Hp H]. apply andb_true_iff in H as [Ho H].
    simpl in Hl. apply in_flat_map in Hl as (x & Hx & Hlx).
    rewrite forallb_forall in H. specialize (H x Hx).
    rewrite Forall_forall in IH. destruct (IH x Hx _ H l Hlx) as [E|[E|[E1 E2]]].
    + right. right. subst. split; [simpl; auto|]. eapply owner_ok_contract; eauto.
    + right. left. exact E.
    + right. right. split; auto. simpl. right. apply in_flat_map. eauto.
Qed.

(** nobody's name is used without its signature, its grant, or its own dispatch: the sender of every
    privileged leaf of an accepted tx signed the tx, or has issued an authz grant, or is a contract
    that the tx executes *)
Lemma deliver_leaf_backed cf s tx s' :
  c_wguard cf = true -> deliver cf s tx = (s', true) ->
  forall l, In l (leaves_tx tx) ->
  exists m, In m tx /\ is_contract cf (signer m) = false /\
            backed cf (signer m) (executed_contracts m) (signer l).
Proof.
  intros Hg D l Hl. destruct (deliver_well_authorised cf s tx s' Hg D) as [Hw Hs].
  unfold wa_tx in Hw. unfold signable in Hs. rewrite forallb_forall in Hw, Hs.
  assert (Hx : exists m, In m tx /\ In l (leaves m)).
  { clear - Hl. induction tx as [|m r IH]; simpl in Hl; [contradiction|].
    apply in_app_or in Hl as [Hl|Hl]; [exists m; simpl; auto|].
    destruct (IH Hl) as (m' & H1 & H2). exists m'. simpl; auto. }
  destruct Hx as (m & Hm & Hlm). exists m. split; auto. split.
  - specialize (Hs m Hm). apply negb_true_iff in Hs. exact Hs.
  - eapply wa_leaves_backed; eauto.
Qed.

(** the whole statement for one privileged leaf of an accepted tx: its sender is a CURRENT sudoer
    (in the state the leaf ran in) AND really stands behind it *)
Lemma deliver_leaf_sudoer_and_backed cf s tx s' :
  c_wguard cf = true -> deliver cf s tx = (s', true) ->
  forall l1 l l2, leaves_tx tx = l1 ++ l :: l2 ->
  (exists s1, run_leaves s l1 = Some s1 /\ authorised (root s1) (contracts s1) l) /\
  (exists m, In m tx /\ is_contract cf (signer m) = false /\
             backed cf (signer m) (executed_contracts m) (signer l)).
Proof.
  intros Hg D l1 l l2 E. split.
  - eapply deliver_each_leaf_authorised; eauto.
  - eapply deliver_leaf_backed; eauto. rewrite E. apply in_or_app. right. left. reflexivity.
Qed.

(** the variant in which handleSdkMessage skips the signer guard for MsgExec wrappers does NOT have
    the property: contract 7 (owner 3; neither root nor listed, no grants anywhere) dispatches
    MsgExec{grantee: root}[MsgEditSudoers{sender: root, add 7}] and is listed afterwards *)
Definition unguarded_cfg : cfg := {| c_grants := []; c_owners := [(7, 3)]; c_wguard := false |}.
Definition spoof_tx : list msg := [Wasm 3 7 [Exec 0 [EditSudoers Add 0 [7] true]]].

Lemma unguarded_wrapper_refuted :
  exists cf s tx s',
    c_wguard cf = false /\ c_grants cf = [] /\
    permitted s 7 = false /\ deliver cf s tx = (s', true) /\ permitted s' 7 = true /\
    wa_tx cf tx = false /\
    (exists l, In l (leaves_tx tx) /\
       forall m, In m tx -> ~ backed cf (signer m) (executed_contracts m) (signer l)).
Proof.
  exists unguarded_cfg, (mk_st 0 [1]), spoof_tx. eexists.
  repeat split; try (vm_compute; reflexivity).
  exists (EditSudoers Add 0 [7] true). split; [vm_compute; auto|].
  intros m [Hm|[]]. subst m. unfold backed. vm_compute. intros [H|[H|[_ H]]]; discriminate.
Qed.

(** … while the guarded model rejects that very tx, and still lets a LISTED contract act *)
Example spoof_rejected_when_guarded :
  deliver (mk_cfg [] [(7, 3)]) (mk_st 0 [1]) spoof_tx = (mk_st 0 [1], false) /\
  snd (deliver (mk_cfg [] [(7, 3)]) (mk_st 0 [7]) [Wasm 3 7 [Gated GInflToggle 7 true]]) = true /\
  snd (deliver (mk_cfg [] [(7, 3)]) (mk_st 7 []) [Wasm 3 7 [EditSudoers Add 7 [3] true]]) = true /\
  snd (deliver (mk_cfg [{| g_granter := 0; g_grantee := 7; g_kind := KEdit |}] [(7, 3)]) (mk_st 0 [])
         [Wasm 3 7 [Exec 7 [EditSudoers Add 0 [7] true]]]) = true.
Proof. vm_compute. auto. Qed.

(* ------------------------------------------------------------------ the model satisfies P *)

(** what the model "observes" around one tx *)
Definition model_obs (s s' : st) (ok : bool) : obs :=
  {| o_ok := ok; o_root := root s'; o_contracts := contracts s';
     o_same_sudo := sudoers_eqb s s';
     o_same_oracle := w_oracle s' =? w_oracle s;
     o_same_infl := w_infl s' =? w_infl s;
     o_same_meta := w_meta s' =? w_meta s |}.

Fixpoint model_trace (cf : cfg) (s : st) (h : list (list msg)) : list (list msg * obs) :=
  match h with
  | [] => []
  | tx :: r => let '(s', ok) := deliver cf s tx in (tx, model_obs s s' ok) :: model_trace cf s' r
  end.

Lemma model_step_P cf s tx : c_wguard cf = true ->
  step_P cf (root s) (contracts s) tx (model_obs s (fst (deliver cf s tx)) (snd (deliver cf s tx))).
Proof.
  intro Hg.
  destruct (deliver cf s tx) as [s' ok] eqn:D. simpl.
  unfold step_P, model_obs; simpl.
  split; [|split; [|split; [|split; [|split; [|split; [|split; [|split; [|split]]]]]]]].
  - intro Hk. subst ok. pose proof (deliver_rejected cf s tx) as Hr. rewrite D in Hr. simpl in Hr.
    rewrite (Hr eq_refl). unfold unchanged; simpl. rewrite !Nat.eqb_refl.
    repeat split; auto. apply sudoers_eqb_spec. split; auto.
  - intro Hc.
    assert (Hne : ~ same_sudoers s' s).
    { intros [H1 H2]. destruct Hc as [Hc|[Hc|Hc]]; try congruence.
      assert (sudoers_eqb s s' = true) by (apply sudoers_eqb_spec; split; auto). congruence. }
    pose proof (deliver_sudoers_change cf s tx) as H. rewrite D in H. simpl in H.
    destruct (H Hne) as [_ Hex]. exact Hex.
  - intro Hk. subst ok. apply deliver_ok in D as (_ & _ & R). apply run_msgs_flatten in R.
    apply run_leaves_effect. exact R.
  - intros m l Htx Hl Hok. subst tx ok.
    apply single_leaf_leaves in Hl as [Hl1 Hl2].
    destruct (deliver_each_leaf_authorised cf s [m] s' D [] l []) as (s1 & H1 & Ha).
    { simpl. rewrite app_nil_r. exact Hl1. }
    simpl in H1. inversion H1; subst. exact Ha.
  - intros l Htx Hleaf Hnc Ha. subst tx.
    destruct (authorised_handle s l Hleaf Ha) as [sl Hs].
    unfold deliver, signable in D. cbn [forallb] in D. rewrite Hnc in D. cbn [negb andb] in D.
    cbn [run_msgs] in D. rewrite (exec_leaf cf s l Hleaf), Hs in D. inversion D; auto.
  - intro Hk. subst ok. eapply deliver_well_authorised; eauto.
  - intros sd c l Htx Hown Hsd Hleaf Hsg Ha. subst tx.
    destruct (authorised_handle s l Hleaf Ha) as [sl Hs].
    unfold deliver, signable in D. cbn [forallb signer] in D. rewrite Hsd in D. cbn [negb andb] in D.
    cbn [run_msgs] in D. rewrite exec_Wasm, Hown in D. cbn [dispatch] in D.
    unfold wasm_ok in D. apply Nat.eqb_eq in Hsg. rewrite Hsg in D. cbn [orb] in D.
    rewrite (exec_leaf cf s l Hleaf), Hs in D. inversion D; auto.
  - intro Hk. apply Nat.eqb_neq in Hk.
    destruct ok.
    + apply deliver_ok in D as (_ & _ & R). apply run_msgs_flatten in R.
      eapply (run_leaves_store_change writes_oracle w_oracle); eauto.
      intros s0 m s0' Hh Hw. destruct (handle_leaf_frame _ _ _ Hh) as (_ & H2 & _). auto.
    + pose proof (deliver_rejected cf s tx) as Hr. rewrite D in Hr. simpl in Hr. rewrite (Hr eq_refl) in Hk. congruence.
  - intro Hk. apply Nat.eqb_neq in Hk.
    destruct ok.
    + apply deliver_ok in D as (_ & _ & R). apply run_msgs_flatten in R.
      eapply (run_leaves_store_change writes_infl w_infl); eauto.
      intros s0 m s0' Hh Hw. destruct (handle_leaf_frame _ _ _ Hh) as (_ & _ & H3 & _). auto.
    + pose proof (deliver_rejected cf s tx) as Hr. rewrite D in Hr. simpl in Hr. rewrite (Hr eq_refl) in Hk. congruence.
  - intro Hk. apply Nat.eqb_neq in Hk.
    destruct ok.
    + apply deliver_ok in D as (_ & _ & R). apply run_msgs_flatten in R.
      eapply (run_leaves_store_change writes_meta w_meta); eauto.
      intros s0 m s0' Hh Hw. destruct (handle_leaf_frame _ _ _ Hh) as (_ & _ & _ & H4). auto.
    + pose proof (deliver_rejected cf s tx) as Hr. rewrite D in Hr. simpl in Hr. rewrite (Hr eq_refl) in Hk. congruence.
Qed.

Lemma model_satisfies_P cf : c_wguard cf = true ->
  forall h s, P cf (root s) (contracts s) (model_trace cf s h).
Proof.
  intro Hg. induction h as [|tx r IH]; intro s; simpl; auto.
  pose proof (model_step_P cf s tx Hg) as HS.
  destruct (deliver cf s tx) as [s' ok]. simpl in *. split; auto.
Qed.

(** the trace property is not an artefact of the guard switch: the unguarded variant's own trace of
    the spoof tx is flagged by the checker *)
Example Pb_flags_unguarded_variant :
  Pb (mk_cfg [] [(7, 3)]) 0 [1] (model_trace unguarded_cfg (mk_st 0 [1]) [spoof_tx]) = false.
Proof. vm_compute. reflexivity. Qed.

(* ------------------------------------------------------------------ non-vacuity *)

Definition ex_state : st := mk_st 0 [1; 2; 6].
Definition ex_cfg : cfg :=
  mk_cfg [{| g_granter := 0; g_grantee := 3; g_kind := KGated GOracle |};
          {| g_granter := 6; g_grantee := 5; g_kind := KGated GMeta |}]
         [(6, 3); (7, 3)].
Definition ex_history : list (list msg) :=
  [ [Gated GOracle 1 true];                                  (* listed account: accepted *)
    [EditSudoers Remove 0 [1] true];                         (* root removes it *)
    [Gated GOracle 1 true];                                  (* stale: rejected *)
    [Wasm 3 6 [Gated GInflEdit 6 true]];                     (* listed CONTRACT dispatches: accepted *)
    [Wasm 3 7 [Gated GInflEdit 7 true]];                     (* unlisted contract: rejected *)
    [Wasm 3 7 [Gated GInflEdit 6 true]];                     (* contract 7 in the name of 6: rejected *)
    [Wasm 3 7 [Exec 0 [EditSudoers Add 0 [7] true]]];        (* spoofed grantee: rejected *)
    [Wasm 3 7 [Exec 6 [Gated GMeta 6 true]]];                (* spoofed grantee = listed contract: rejected *)
    [Exec 5 [Gated GMeta 6 true]];                           (* the listed contract lent its authority: accepted *)
    [Wasm 2 6 [Gated GMeta 6 true]];                         (* not the contract's owner: rejected *)
    [Gated GMeta 6 true];                                    (* nobody can sign for a contract: rejected *)
    [ChangeRoot 0 4];                                        (* hand-over *)
    [Gated GMeta 0 true];                                    (* former root: rejected *)
    [Exec 3 [Gated GOracle 0 true]];                         (* grant from a former root is worth nothing *)
    [EditSudoers Add 4 [5] true; Gated GInflToggle 3 true];  (* second message fails: add rolled back *)
    [Gated GInflToggle 5 true];                              (* so 5 is not listed *)
    [Exec 3 [Exec 4 [Gated GInflEdit 4 true]]];              (* nested exec without a grant for MsgExec *)
    [EditSudoers Remove 4 [6] true];
    [Wasm 3 6 [Gated GInflEdit 6 true]] ].                   (* removed contract: rejected *)

Example history_nonvacuous :
  snd (run_history ex_cfg ex_state ex_history) =
    [true; true; false; true; false; false; false; false; true; false; false;
     true; false; false; false; false; false; true; false]
  /\ root (fst (run_history ex_cfg ex_state ex_history)) = 4
  /\ contracts (fst (run_history ex_cfg ex_state ex_history)) = [2].
Proof. vm_compute. auto. Qed.

Example stale_nonvacuous :
  permitted (mk_st 4 [2; 6]) 0 = false /\ no_grant_to 0 (skipn 12 ex_history) = true /\
  first_leaf_by 0 (skipn 12 ex_history) = [true; true; false; false; false; false; false].
Proof. vm_compute. auto. Qed.

Example exec_with_grant_nonvacuous :
  exists s', exec_msg ex_cfg ex_state (Exec 3 [Gated GOracle 0 true]) = Some s' /\ w_oracle s' = 1.
Proof. eexists. vm_compute. split; reflexivity. Qed.

Example wasm_listed_contract_nonvacuous :
  exists s', exec_msg ex_cfg ex_state (Wasm 3 6 [Exec 6 [Gated GOracle 6 true]; Gated GMeta 6 true]) = Some s'
             /\ w_oracle s' = 1 /\ w_meta s' = 1.
Proof. eexists. vm_compute. repeat split; reflexivity. Qed.

Example Pb_accepts_model_trace_nonvacuous :
  Pb ex_cfg (root ex_state) (contracts ex_state) (model_trace ex_cfg ex_state ex_history) = true.
Proof. vm_compute. reflexivity. Qed.

(** the checker is not trivially true: an accepted gated message from a stranger is flagged, so is an
    accepted contract-dispatched exec with a spoofed grantee, so is a refused dispatch by a listed contract *)
Example Pb_rejects_bad_trace :
  Pb ex_cfg 0 [1] [([Gated GOracle 5 true],
             {| o_ok := true; o_root := 0; o_contracts := [1]; o_same_sudo := true;
                o_same_oracle := false; o_same_infl := true; o_same_meta := true |})] = false
  /\ Pb ex_cfg 0 [1] [([Gated GOracle 5 true],
             {| o_ok := false; o_root := 0; o_contracts := [1]; o_same_sudo := true;
                o_same_oracle := false; o_same_infl := true; o_same_meta := true |})] = false
  /\ Pb ex_cfg 0 [1] [([EditSudoers Add 1 [5] true],
             {| o_ok := true; o_root := 0; o_contracts := [1; 5]; o_same_sudo := false;
                o_same_oracle := true; o_same_infl := true; o_same_meta := true |})] = false
  /\ Pb ex_cfg 0 [1] [([Wasm 3 7 [Exec 0 [Gated GOracle 0 true]]],
             {| o_ok := true; o_root := 0; o_contracts := [1]; o_same_sudo := true;
                o_same_oracle := false; o_same_infl := true; o_same_meta := true |})] = false
  /\ Pb ex_cfg 0 [6] [([Wasm 3 6 [Gated GOracle 6 true]],
             {| o_ok := false; o_root := 0; o_contracts := [6]; o_same_sudo := true;
                o_same_oracle := true; o_same_infl := true; o_same_meta := true |})] = false.
Proof. vm_compute. auto. Qed.
