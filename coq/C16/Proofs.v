(** C16 — proofs about the model: authority of every executed leaf, rollback, frames, stale
    permissions, and the link to the trace property [P] that [Pb] evaluates on implementation traces. *)
From Coq Require Import List Bool Arith Lia.
Import ListNotations.
Require Import Nib.C16.Model Nib.C16.Spec.

(* ------------------------------------------------------------------ induction on message trees *)

Section MsgInd.
  Variable Q : msg -> Prop.
  Hypothesis HE : forall a s cs wf, Q (EditSudoers a s cs wf).
  Hypothesis HC : forall s n, Q (ChangeRoot s n).
  Hypothesis HG : forall k s pv, Q (Gated k s pv).
  Hypothesis HX : forall g ms, Forall Q ms -> Q (Exec g ms).

  Fixpoint msg_ind' (m : msg) : Q m :=
    match m with
    | EditSudoers a s cs wf => HE a s cs wf
    | ChangeRoot s n => HC s n
    | Gated k s pv => HG k s pv
    | Exec g ms =>
        HX g ms ((fix go (l : list msg) : Forall Q l :=
                    match l with
                    | [] => Forall_nil Q
                    | x :: r => Forall_cons x (msg_ind' x) (go r)
                    end) ms)
    end.
End MsgInd.

(* ------------------------------------------------------------------ basic facts *)

Lemma exec_leaf g s m : is_leaf m = true -> exec_msg g s m = handle_leaf s m.
Proof. destruct m; simpl; auto; discriminate. Qed.

Lemma exec_Exec g s ge ms :
  exec_msg g s (Exec ge ms) =
  match ms with [] => None | _ => dispatch (fun s' m' => exec_msg g s' m') g ge s ms end.
Proof. destruct ms; reflexivity. Qed.

Lemma leaves_leaf m : is_leaf m = true -> leaves m = [m].
Proof. destruct m; simpl; auto; discriminate. Qed.

Lemma run_leaves_app s l1 l2 :
  run_leaves s (l1 ++ l2) = match run_leaves s l1 with Some s1 => run_leaves s1 l2 | None => None end.
Proof.
  revert s; induction l1 as [|m l1 IH]; intro s; simpl; auto.
  destruct (handle_leaf s m); auto.
Qed.

(** the authz layer only ever removes behaviours: whatever a message tree does, the plain
    sequence of its leaves does too *)
Lemma exec_flatten g : forall m s s', exec_msg g s m = Some s' -> run_leaves s (leaves m) = Some s'.
Proof.
  induction m as [a sd cs wf | sd n | k sd pv | ge ms IH] using msg_ind'; intros s s' H;
    try (simpl in *; rewrite H; reflexivity).
  rewrite exec_Exec in H. simpl leaves.
  assert (Hgo : forall l s s', Forall (fun m => forall s s', exec_msg g s m = Some s' -> run_leaves s (leaves m) = Some s') l ->
                dispatch (fun s' m' => exec_msg g s' m') g ge s l = Some s' ->
                run_leaves s (flat_map leaves l) = Some s').
  { clear. induction l as [|x r IHr]; intros s s' HF H; simpl in *.
    - exact H.
    - inversion HF as [|? ? Hx Hr]; subst.
      destruct (dispatch_ok g ge x); try discriminate.
      destruct (exec_msg g s x) as [s1|] eqn:E; try discriminate.
      rewrite run_leaves_app, (Hx _ _ E). apply IHr; auto. }
  destruct ms as [|m0 r]; try discriminate.
  apply Hgo; auto.
Qed.

Lemma run_msgs_flatten g : forall tx s s', run_msgs g s tx = Some s' -> run_leaves s (leaves_tx tx) = Some s'.
Proof.
  induction tx as [|m r IH]; intros s s' H; simpl in *; auto.
  destruct (exec_msg g s m) as [s1|] eqn:E; try discriminate.
  rewrite run_leaves_app, (exec_flatten g _ _ _ E). auto.
Qed.

Lemma handle_leaf_is_leaf s m s' : handle_leaf s m = Some s' -> is_leaf m = true.
Proof. destruct m; simpl; auto; discriminate. Qed.

(** what a successful handler implies: the sender had the authority the handler asks for *)
Lemma handle_leaf_authorised s m s' :
  handle_leaf s m = Some s' -> authorised (root s) (contracts s) m.
Proof.
  destruct m as [a sd cs wf | sd n | k sd pv | ge ms]; simpl; try discriminate.
  - destruct a; try discriminate;
      destruct ((sd =? root s) && wf) eqn:E; try discriminate; intros _;
      apply andb_true_iff in E as [E1 E2]; apply Nat.eqb_eq in E1; auto.
  - destruct (sd =? root s) eqn:E; try discriminate. intros _. apply Nat.eqb_eq. exact E.
  - destruct (permitted s sd && pv) eqn:E; try discriminate. intros _.
    apply andb_true_iff in E as [E1 E2]. unfold permitted in E1.
    apply orb_true_iff in E1. rewrite mem_In, Nat.eqb_eq in E1. auto.
Qed.

Lemma authorised_handle s m :
  is_leaf m = true -> authorised (root s) (contracts s) m -> exists s', handle_leaf s m = Some s'.
Proof.
  destruct m as [a sd cs wf | sd n | k sd pv | ge ms]; simpl; try discriminate; intros _ H.
  - destruct a; try contradiction; destruct H as [H1 H2]; subst;
      rewrite Nat.eqb_refl; simpl; eexists; reflexivity.
  - subst. rewrite Nat.eqb_refl. eexists; reflexivity.
  - destruct H as [H1 H2]. subst pv.
    assert (Hp : permitted s sd = true).
    { unfold permitted. apply orb_true_iff. rewrite mem_In, Nat.eqb_eq. exact H1. }
    rewrite Hp. simpl. eexists; reflexivity.
Qed.

Definition same_sudoers (s1 s2 : st) : Prop := root s1 = root s2 /\ contracts s1 = contracts s2.

Lemma same_sudoers_dec s1 s2 : {same_sudoers s1 s2} + {~ same_sudoers s1 s2}.
Proof.
  unfold same_sudoers.
  destruct (Nat.eq_dec (root s1) (root s2)); [|right; tauto].
  destruct (list_eq_dec Nat.eq_dec (contracts s1) (contracts s2)); [left|right]; tauto.
Qed.

Lemma sudoers_eqb_spec s1 s2 : sudoers_eqb s1 s2 = true <-> same_sudoers s1 s2.
Proof.
  unfold sudoers_eqb, same_sudoers. rewrite andb_true_iff, Nat.eqb_eq. split.
  - intros [H1 H2]. apply list_eqb_eq in H2. auto.
  - intros [H1 H2]. rewrite H2. split; auto. apply list_eqb_refl.
Qed.

(** only edits touch the sudoers, only the matching gated op touches a store *)
Lemma handle_leaf_frame s m s' :
  handle_leaf s m = Some s' ->
  (is_edit m = false -> same_sudoers s' s) /\
  (writes_oracle m = false -> w_oracle s' = w_oracle s) /\
  (writes_infl m = false -> w_infl s' = w_infl s) /\
  (writes_meta m = false -> w_meta s' = w_meta s).
Proof.
  unfold same_sudoers.
  destruct m as [a sd cs wf | sd n | k sd pv | ge ms]; simpl; try discriminate.
  - destruct a; try discriminate; destruct ((sd =? root s) && wf); try discriminate;
      intro H; inversion H; subst; simpl; repeat split; auto; discriminate.
  - destruct (sd =? root s); try discriminate. intro H; inversion H; subst; simpl.
    repeat split; auto; discriminate.
  - destruct (permitted s sd && pv); try discriminate. intro H; inversion H; subst.
    destruct k; simpl; repeat split; auto; discriminate.
Qed.

(* ------------------------------------------------------------------ leaf sequences *)

(** every leaf of a successful run had, when it ran, the authority its handler asks for *)
Lemma run_leaves_each_authorised : forall l s s',
  run_leaves s l = Some s' ->
  forall l1 m l2, l = l1 ++ m :: l2 ->
  exists s1, run_leaves s l1 = Some s1 /\ authorised (root s1) (contracts s1) m.
Proof.
  induction l as [|x r IH]; intros s s' H l1 m l2 E.
  - destruct l1; discriminate.
  - simpl in H. destruct (handle_leaf s x) as [sx|] eqn:Hx; try discriminate.
    destruct l1 as [|y l1]; simpl in E; inversion E; subst.
    + exists s. split; auto. eapply handle_leaf_authorised; eauto.
    + simpl. rewrite Hx. eapply IH; eauto.
Qed.

Lemma run_leaves_sudoers_change : forall l s s',
  run_leaves s l = Some s' -> ~ same_sudoers s' s ->
  exists m, In m l /\ is_edit m = true /\ signer m = root s.
Proof.
  induction l as [|x r IH]; intros s s' H Hne; simpl in H.
  - inversion H; subst. exfalso. apply Hne. split; auto.
  - destruct (handle_leaf s x) as [sx|] eqn:Hx; try discriminate.
    destruct (is_edit x) eqn:Ee.
    + exists x. split; [left; auto|]. split; auto.
      pose proof (handle_leaf_authorised _ _ _ Hx) as Ha.
      destruct x as [a sd cs wf | sd n | k sd pv | ge ms]; simpl in *; try discriminate.
      * destruct a; simpl in Ha; tauto.
      * exact Ha.
    + destruct (handle_leaf_frame _ _ _ Hx) as [Hs _]. specialize (Hs Ee).
      destruct (IH sx s' H) as (m & Hin & He & Hsg).
      { intro Hc. apply Hne. destruct Hc, Hs. split; congruence. }
      exists m. split; [right; auto|]. split; auto. destruct Hs. congruence.
Qed.

Lemma run_leaves_store_change (wr : msg -> bool) (cnt : st -> nat) :
  (forall s m s', handle_leaf s m = Some s' -> wr m = false -> cnt s' = cnt s) ->
  forall l s s', run_leaves s l = Some s' -> cnt s' <> cnt s ->
  exists m, In m l /\ wr m = true.
Proof.
  intros Hfr. induction l as [|x r IH]; intros s s' H Hne; simpl in H.
  - inversion H; subst. congruence.
  - destruct (handle_leaf s x) as [sx|] eqn:Hx; try discriminate.
    destruct (wr x) eqn:Ew.
    + exists x. split; [left|]; auto.
    + rewrite <- (Hfr _ _ _ Hx Ew) in Hne.
      destruct (IH sx s' H Hne) as (m & Hin & Hm). exists m. split; [right|]; auto.
Qed.

Lemma handle_leaf_effect s m s' :
  handle_leaf s m = Some s' -> (root s', contracts s') = apply_edit (root s, contracts s) m.
Proof.
  destruct m as [a sd cs wf | sd n | k sd pv | ge ms]; simpl; try discriminate.
  - destruct a; try discriminate; destruct ((sd =? root s) && wf); try discriminate;
      intro H; inversion H; subst; reflexivity.
  - destruct (sd =? root s); try discriminate. intro H; inversion H; subst; reflexivity.
  - destruct (permitted s sd && pv); try discriminate. intro H; inversion H; subst. destruct k; reflexivity.
Qed.

Lemma run_leaves_effect : forall l s s',
  run_leaves s l = Some s' -> (root s', contracts s') = apply_edits l (root s, contracts s).
Proof.
  induction l as [|x r IH]; intros s s' H; simpl in H.
  - inversion H; subst. reflexivity.
  - destruct (handle_leaf s x) as [sx|] eqn:Hx; try discriminate.
    unfold apply_edits. simpl. rewrite <- (handle_leaf_effect _ _ _ Hx). apply IH. exact H.
Qed.

(* ------------------------------------------------------------------ single messages *)

Lemma single_leaf_leaves : forall m l, single_leaf m = Some l -> leaves m = [l] /\ is_leaf l = true.
Proof.
  induction m as [a sd cs wf | sd n | k sd pv | ge ms IH] using msg_ind'; intros l H; simpl in H;
    try (inversion H; subst; simpl; auto).
  destruct ms as [|x [|y r]]; try discriminate.
  inversion IH as [|? ? Hx _]; subst. simpl. rewrite app_nil_r. apply Hx. exact H.
Qed.

(** C16_gated_iff_permitted, direct form *)
Lemma gated_iff_permitted g s k a pv :
  (exists s', exec_msg g s (Gated k a pv) = Some s') <-> permitted s a = true /\ pv = true.
Proof.
  simpl. split.
  - intros [s' H]. destruct (permitted s a && pv) eqn:E; try discriminate. apply andb_true_iff in E. exact E.
  - intros [H1 H2]. rewrite H1, H2. eexists; reflexivity.
Qed.

Lemma gated_effect g s k a pv s' : exec_msg g s (Gated k a pv) = Some s' -> s' = bump k s.
Proof. simpl. destruct (permitted s a && pv); intro H; inversion H; auto. Qed.

(** wrapped once in MsgExec: exactly the authz condition on top *)
Lemma gated_exec_iff g s ge k a pv :
  (exists s', exec_msg g s (Exec ge [Gated k a pv]) = Some s') <->
  (a = ge \/ has_grant g a ge (KGated k) = true) /\ permitted s a = true /\ pv = true.
Proof.
  rewrite exec_Exec. simpl. unfold dispatch_ok. simpl. split.
  - intros [s' H].
    destruct ((a =? ge) || has_grant g a ge (KGated k)) eqn:D; try discriminate.
    destruct (permitted s a && pv) eqn:E; try discriminate.
    apply orb_true_iff in D. rewrite Nat.eqb_eq in D. apply andb_true_iff in E. tauto.
  - intros [D [H1 H2]].
    assert (D' : (a =? ge) || has_grant g a ge (KGated k) = true).
    { apply orb_true_iff. rewrite Nat.eqb_eq. exact D. }
    rewrite D', H1, H2. simpl. eexists; reflexivity.
Qed.

(** C16_root_only_edits, handler form *)
Lemma root_only_edits_leaf s m s' :
  is_edit m = true -> handle_leaf s m = Some s' -> signer m = root s.
Proof.
  intros He H. pose proof (handle_leaf_authorised _ _ _ H) as Ha.
  destruct m as [a sd cs wf | sd n | k sd pv | ge ms]; simpl in *; try discriminate.
  - destruct a; simpl in Ha; tauto.
  - exact Ha.
Qed.

(* ------------------------------------------------------------------ deliver *)

Lemma deliver_rejected g s tx : snd (deliver g s tx) = false -> fst (deliver g s tx) = s.
Proof.
  unfold deliver. destruct tx as [|m r]; simpl; auto.
  destruct (match exec_msg g s m with Some s' => run_msgs g s' r | None => None end); simpl; auto.
  discriminate.
Qed.

Lemma deliver_ok g s tx s' :
  deliver g s tx = (s', true) -> tx <> [] /\ run_msgs g s tx = Some s'.
Proof.
  unfold deliver. destruct tx as [|m r]; [intro H; inversion H|].
  destruct (run_msgs g s (m :: r)) as [s1|] eqn:E; intro H; inversion H; subst.
  split; auto. discriminate.
Qed.

(** a tx with a failing message discards what earlier messages of the same tx wrote *)
Lemma deliver_atomic g s pre m post :
  (forall s1, run_msgs g s pre = Some s1 -> exec_msg g s1 m = None) ->
  deliver g s (pre ++ m :: post) = (s, false).
Proof.
  intro H. unfold deliver.
  assert (E : run_msgs g s (pre ++ m :: post) = None).
  { revert s H. induction pre as [|x pre IH]; intros s H; simpl.
    - rewrite (H s eq_refl). reflexivity.
    - destruct (exec_msg g s x) as [sx|] eqn:Ex; auto. apply IH. intros s1 H1. apply H. simpl. rewrite Ex. exact H1. }
  rewrite E. destruct (pre ++ m :: post); reflexivity.
Qed.

(** C16_root_only_edits, tx form: the sudoers differ after a tx only if it carried an edit signed
    by the root in force before the tx *)
Lemma deliver_sudoers_change g s tx :
  ~ same_sudoers (fst (deliver g s tx)) s ->
  snd (deliver g s tx) = true /\
  exists m, In m (leaves_tx tx) /\ is_edit m = true /\ signer m = root s.
Proof.
  intro Hne. destruct (deliver g s tx) as [s' ok] eqn:D. simpl in *.
  destruct ok.
  - split; auto. apply deliver_ok in D as [_ R]. apply run_msgs_flatten in R.
    eapply run_leaves_sudoers_change; eauto.
  - pose proof (deliver_rejected g s tx) as Hr. rewrite D in Hr. simpl in Hr.
    rewrite (Hr eq_refl) in Hne. exfalso. apply Hne. split; auto.
Qed.

(** every leaf of an accepted tx, at any MsgExec depth, was authorised in the state it ran in *)
Lemma deliver_each_leaf_authorised g s tx s' :
  deliver g s tx = (s', true) ->
  forall l1 m l2, leaves_tx tx = l1 ++ m :: l2 ->
  exists s1, run_leaves s l1 = Some s1 /\ authorised (root s1) (contracts s1) m.
Proof.
  intros D. apply deliver_ok in D as [_ R]. apply run_msgs_flatten in R.
  eapply run_leaves_each_authorised; eauto.
Qed.

(* ------------------------------------------------------------------ stale permissions *)

Lemma mem_insert a x l : mem a (insert x l) = (a =? x) || mem a l.
Proof.
  induction l as [|y l IH]; simpl; auto.
  destruct (x <? y) eqn:E1; simpl; auto.
  destruct (x =? y) eqn:E2; simpl.
  - apply Nat.eqb_eq in E2. subst. destruct (a =? y); auto.
  - rewrite IH. destruct (a =? x), (a =? y); auto.
Qed.

Lemma mem_remove a x l : mem a (remove_addr x l) = negb (a =? x) && mem a l.
Proof.
  induction l as [|y l IH]; simpl.
  - rewrite andb_false_r. reflexivity.
  - destruct (x =? y) eqn:E; simpl.
    + rewrite IH. apply Nat.eqb_eq in E. subst. destruct (a =? y); auto.
    + rewrite IH. destruct (a =? x) eqn:E2; simpl; auto.
      apply Nat.eqb_eq in E2. subst. rewrite E. reflexivity.
Qed.

Lemma mem_fold_insert a cs : forall l, mem a (fold_left (fun acc x => insert x acc) cs l) = mem a cs || mem a l.
Proof.
  induction cs as [|c cs IH]; intro l; simpl; auto.
  rewrite IH, mem_insert. destruct (a =? c), (mem a cs), (mem a l); auto.
Qed.

Lemma mem_fold_remove a cs : forall l, mem a (fold_left (fun acc x => remove_addr x acc) cs l) = negb (mem a cs) && mem a l.
Proof.
  induction cs as [|c cs IH]; intro l; simpl; auto.
  rewrite IH, mem_remove. destruct (a =? c), (mem a cs), (mem a l); auto.
Qed.

(** a leaf "grants" [a] when it could make [a] a sudoer *)
Definition grants_to (a : addr) (m : msg) : bool :=
  match m with
  | EditSudoers Add _ cs _ => mem a cs
  | ChangeRoot _ n => a =? n
  | _ => false
  end.

Lemma handle_leaf_keeps_unpermitted s m s' a :
  handle_leaf s m = Some s' -> permitted s a = false -> grants_to a m = false -> permitted s' a = false.
Proof.
  unfold permitted.
  destruct m as [ac sd cs wf | sd n | k sd pv | ge ms]; simpl; try discriminate.
  - destruct ac; try discriminate; destruct ((sd =? root s) && wf); try discriminate;
      intro H; inversion H; subst; simpl; intros Hp Hg.
    + rewrite mem_fold_insert, Hg. exact Hp.
    + rewrite mem_fold_remove. apply orb_false_iff in Hp as [Hp1 Hp2]. rewrite Hp1, Hp2, andb_false_r. reflexivity.
  - destruct (sd =? root s); try discriminate. intro H; inversion H; subst; simpl.
    intros Hp Hg. apply orb_false_iff in Hp as [Hp1 _]. rewrite Hp1, Hg. reflexivity.
  - destruct (permitted s sd && pv); try discriminate. intro H; inversion H; subst.
    intros Hp _. destruct k; simpl; exact Hp.
Qed.

Lemma run_leaves_keeps_unpermitted a : forall l s s',
  run_leaves s l = Some s' -> permitted s a = false -> forallb (fun m => negb (grants_to a m)) l = true ->
  permitted s' a = false.
Proof.
  induction l as [|x r IH]; intros s s' H Hp Hg; simpl in *.
  - inversion H; subst; auto.
  - destruct (handle_leaf s x) as [sx|] eqn:Hx; try discriminate.
    apply andb_true_iff in Hg as [Hg1 Hg2]. apply negb_true_iff in Hg1.
    eapply IH; eauto. eapply handle_leaf_keeps_unpermitted; eauto.
Qed.

(** an account without permission cannot get a privileged leaf through, however it is wrapped *)
Lemma unpermitted_first_leaf_rejected g s tx a m r :
  permitted s a = false -> leaves_tx tx = m :: r -> signer m = a -> deliver g s tx = (s, false).
Proof.
  intros Hp Hl Hs.
  destruct (deliver g s tx) as [s' ok] eqn:D. destruct ok.
  - exfalso. destruct (deliver_each_leaf_authorised g s tx s' D [] m r Hl) as (s1 & H1 & Ha).
    simpl in H1. inversion H1; subst s1.
    pose proof (deliver_ok _ _ _ _ D) as [_ R]. apply run_msgs_flatten in R. rewrite Hl in R. simpl in R.
    destruct (handle_leaf s m) as [sm|] eqn:Hm; try discriminate.
    pose proof (handle_leaf_is_leaf _ _ _ Hm) as Hleaf.
    unfold permitted in Hp. apply orb_false_iff in Hp as [Hp1 Hp2].
    destruct m as [ac sd cs wf | sd n | k sd pv | ge ms]; simpl in *; try discriminate; subst.
    + destruct ac; simpl in Ha; try tauto; destruct Ha as [Ha _]; subst; rewrite Nat.eqb_refl in Hp2; discriminate.
    + rewrite Nat.eqb_refl in Hp2; discriminate.
    + destruct Ha as [[Ha|Ha] _].
      * apply mem_In in Ha. congruence.
      * subst. rewrite Nat.eqb_refl in Hp2. discriminate.
  - pose proof (deliver_rejected g s tx) as Hr. rewrite D in Hr. simpl in Hr. rewrite (Hr eq_refl). reflexivity.
Qed.

(** ChangeRoot demotes the former root (unless it is also a listed contract or names itself) *)
Lemma former_root_unpermitted s old new s' :
  handle_leaf s (ChangeRoot old new) = Some s' -> old <> new -> mem old (contracts s) = false ->
  permitted s' old = false.
Proof.
  simpl. destruct (old =? root s) eqn:E; try discriminate. intro H; inversion H; subst.
  intros Hne Hm. unfold permitted. simpl. rewrite Hm. simpl. apply Nat.eqb_neq. exact Hne.
Qed.

(** a removed contract is no longer permitted (unless it is the root) *)
Lemma removed_contract_unpermitted s sd cs wf c s' :
  handle_leaf s (EditSudoers Remove sd cs wf) = Some s' -> In c cs -> c <> root s ->
  permitted s' c = false.
Proof.
  simpl. destruct ((sd =? root s) && wf); try discriminate. intro H; inversion H; subst.
  intros Hin Hne. unfold permitted. simpl. rewrite mem_fold_remove.
  apply mem_In in Hin. rewrite Hin. simpl. apply Nat.eqb_neq. exact Hne.
Qed.

(** over arbitrary histories: while nobody with authority lets [a] back in, every tx whose first
    privileged leaf is signed by [a] is rejected and [a] stays without permission *)
Fixpoint no_grant_to (a : addr) (h : list (list msg)) : bool :=
  match h with
  | [] => true
  | tx :: r => forallb (fun m => negb (grants_to a m)) (leaves_tx tx) && no_grant_to a r
  end.

Fixpoint first_leaf_by (a : addr) (h : list (list msg)) : list bool :=
  match h with
  | [] => []
  | tx :: r => (match leaves_tx tx with m :: _ => signer m =? a | [] => false end) :: first_leaf_by a r
  end.

Lemma deliver_keeps_unpermitted g s tx a :
  permitted s a = false -> forallb (fun m => negb (grants_to a m)) (leaves_tx tx) = true ->
  permitted (fst (deliver g s tx)) a = false.
Proof.
  intros Hp Hg. destruct (deliver g s tx) as [s' ok] eqn:D. simpl. destruct ok.
  - apply deliver_ok in D as [_ R]. apply run_msgs_flatten in R.
    eapply run_leaves_keeps_unpermitted; eauto.
  - pose proof (deliver_rejected g s tx) as Hr. rewrite D in Hr. simpl in Hr. rewrite (Hr eq_refl). exact Hp.
Qed.

Lemma stale_over_history g a : forall h s,
  permitted s a = false -> no_grant_to a h = true ->
  permitted (fst (run_history g s h)) a = false /\
  Forall2 (fun mine ok => mine = true -> ok = false) (first_leaf_by a h) (snd (run_history g s h)).
Proof.
  induction h as [|tx r IH]; intros s Hp Hg; simpl in *.
  - split; auto.
  - apply andb_true_iff in Hg as [Hg1 Hg2].
    pose proof (deliver_keeps_unpermitted g s tx a Hp Hg1) as Hp1.
    destruct (deliver g s tx) as [s1 ok] eqn:D. simpl in Hp1.
    destruct (IH s1 Hp1 Hg2) as [IH1 IH2].
    destruct (run_history g s1 r) as [s2 oks] eqn:R. simpl in *.
    split; auto. constructor; auto.
    intro Hm. destruct (leaves_tx tx) as [|m l] eqn:L; try discriminate.
    apply Nat.eqb_eq in Hm.
    rewrite (unpermitted_first_leaf_rejected g s tx a m l Hp L Hm) in D. inversion D; auto.
Qed.

(* ------------------------------------------------------------------ the model satisfies P *)

(** what the model "observes" around one tx *)
Definition model_obs (s s' : st) (ok : bool) : obs :=
  {| o_ok := ok; o_root := root s'; o_contracts := contracts s';
     o_same_sudo := sudoers_eqb s s';
     o_same_oracle := w_oracle s' =? w_oracle s;
     o_same_infl := w_infl s' =? w_infl s;
     o_same_meta := w_meta s' =? w_meta s |}.

Fixpoint model_trace (g : list grant) (s : st) (h : list (list msg)) : list (list msg * obs) :=
  match h with
  | [] => []
  | tx :: r => let '(s', ok) := deliver g s tx in (tx, model_obs s s' ok) :: model_trace g s' r
  end.

Lemma model_step_P g s tx :
  step_P (root s) (contracts s) tx (model_obs s (fst (deliver g s tx)) (snd (deliver g s tx))).
Proof.
  destruct (deliver g s tx) as [s' ok] eqn:D. simpl.
  unfold step_P, model_obs; simpl.
  split; [|split; [|split; [|split; [|split; [|split; [|split]]]]]].
  - intro Hk. subst ok. pose proof (deliver_rejected g s tx) as Hr. rewrite D in Hr. simpl in Hr.
    rewrite (Hr eq_refl). unfold unchanged; simpl. rewrite !Nat.eqb_refl.
    repeat split; auto. apply sudoers_eqb_spec. split; auto.
  - intro Hc.
    assert (Hne : ~ same_sudoers s' s).
    { intros [H1 H2]. destruct Hc as [Hc|[Hc|Hc]]; try congruence.
      assert (sudoers_eqb s s' = true) by (apply sudoers_eqb_spec; split; auto). congruence. }
    pose proof (deliver_sudoers_change g s tx) as H. rewrite D in H. simpl in H.
    destruct (H Hne) as [_ Hex]. exact Hex.
  - intro Hk. subst ok. apply deliver_ok in D as [_ R]. apply run_msgs_flatten in R.
    apply run_leaves_effect. exact R.
  - intros m l Htx Hl Hok. subst tx ok.
    apply single_leaf_leaves in Hl as [Hl1 Hl2].
    destruct (deliver_each_leaf_authorised g s [m] s' D [] l []) as (s1 & H1 & Ha).
    { simpl. rewrite app_nil_r. exact Hl1. }
    simpl in H1. inversion H1; subst. exact Ha.
  - intros l Htx Hleaf Ha. subst tx.
    destruct (authorised_handle s l Hleaf Ha) as [sl Hs].
    unfold deliver in D. simpl in D. rewrite (exec_leaf g s l Hleaf), Hs in D. inversion D; auto.
  - intro Hk. apply Nat.eqb_neq in Hk.
    destruct ok.
    + apply deliver_ok in D as [_ R]. apply run_msgs_flatten in R.
      eapply (run_leaves_store_change writes_oracle w_oracle); eauto.
      intros s0 m s0' Hh Hw. destruct (handle_leaf_frame _ _ _ Hh) as (_ & H2 & _). auto.
    + pose proof (deliver_rejected g s tx) as Hr. rewrite D in Hr. simpl in Hr. rewrite (Hr eq_refl) in Hk. congruence.
  - intro Hk. apply Nat.eqb_neq in Hk.
    destruct ok.
    + apply deliver_ok in D as [_ R]. apply run_msgs_flatten in R.
      eapply (run_leaves_store_change writes_infl w_infl); eauto.
      intros s0 m s0' Hh Hw. destruct (handle_leaf_frame _ _ _ Hh) as (_ & _ & H3 & _). auto.
    + pose proof (deliver_rejected g s tx) as Hr. rewrite D in Hr. simpl in Hr. rewrite (Hr eq_refl) in Hk. congruence.
  - intro Hk. apply Nat.eqb_neq in Hk.
    destruct ok.
    + apply deliver_ok in D as [_ R]. apply run_msgs_flatten in R.
      eapply (run_leaves_store_change writes_meta w_meta); eauto.
      intros s0 m s0' Hh Hw. destruct (handle_leaf_frame _ _ _ Hh) as (_ & _ & _ & H4). auto.
    + pose proof (deliver_rejected g s tx) as Hr. rewrite D in Hr. simpl in Hr. rewrite (Hr eq_refl) in Hk. congruence.
Qed.

Lemma model_satisfies_P g : forall h s, P (root s) (contracts s) (model_trace g s h).
Proof.
  induction h as [|tx r IH]; intro s; simpl; auto.
  pose proof (model_step_P g s tx) as HS.
  destruct (deliver g s tx) as [s' ok]. simpl in *. split; auto.
Qed.

(* ------------------------------------------------------------------ non-vacuity *)

Definition ex_state : st := mk_st 0 [1; 2].
Definition ex_grants : list grant := [{| g_granter := 0; g_grantee := 3; g_kind := KGated GOracle |}].
Definition ex_history : list (list msg) :=
  [ [Gated GOracle 1 true];                                  (* listed contract: accepted *)
    [EditSudoers Remove 0 [1] true];                         (* root removes it *)
    [Gated GOracle 1 true];                                  (* stale: rejected *)
    [ChangeRoot 0 4];                                        (* hand-over *)
    [Gated GMeta 0 true];                                    (* former root: rejected *)
    [Exec 3 [Gated GOracle 0 true]];                         (* grant from a former root is worth nothing *)
    [EditSudoers Add 4 [5] true; Gated GInflToggle 3 true];  (* second message fails: add rolled back *)
    [Gated GInflToggle 5 true];                              (* so 5 is not listed *)
    [Exec 3 [Exec 4 [Gated GInflEdit 4 true]]] ].            (* nested exec without a grant for MsgExec *)

Example history_nonvacuous :
  snd (run_history ex_grants ex_state ex_history) = [true; true; false; true; false; false; false; false; false]
  /\ root (fst (run_history ex_grants ex_state ex_history)) = 4
  /\ contracts (fst (run_history ex_grants ex_state ex_history)) = [2].
Proof. vm_compute. auto. Qed.

Example stale_nonvacuous :
  permitted (mk_st 4 [2]) 0 = false /\ no_grant_to 0 (skipn 4 ex_history) = true /\
  first_leaf_by 0 (skipn 4 ex_history) = [true; true; false; false; false].
Proof. vm_compute. auto. Qed.

Example exec_with_grant_nonvacuous :
  exists s', exec_msg ex_grants ex_state (Exec 3 [Gated GOracle 0 true]) = Some s' /\ w_oracle s' = 1.
Proof. eexists. vm_compute. split; reflexivity. Qed.

Example Pb_accepts_model_trace_nonvacuous :
  Pb (root ex_state) (contracts ex_state) (model_trace ex_grants ex_state ex_history) = true.
Proof. vm_compute. reflexivity. Qed.

(** the checker is not trivially true: an accepted gated message from a stranger is flagged *)
Example Pb_rejects_bad_trace :
  Pb 0 [1] [([Gated GOracle 5 true],
             {| o_ok := true; o_root := 0; o_contracts := [1]; o_same_sudo := true;
                o_same_oracle := false; o_same_infl := true; o_same_meta := true |})] = false
  /\ Pb 0 [1] [([Gated GOracle 5 true],
             {| o_ok := false; o_root := 0; o_contracts := [1]; o_same_sudo := true;
                o_same_oracle := false; o_same_infl := true; o_same_meta := true |})] = false
  /\ Pb 0 [1] [([EditSudoers Add 1 [5] true],
             {| o_ok := true; o_root := 0; o_contracts := [1; 5]; o_same_sudo := false;
                o_same_oracle := true; o_same_infl := true; o_same_meta := true |})] = false.
Proof. vm_compute. auto. Qed.
