(** C16 — proofs about the decode layer (Spelled.v): outcomes do not depend on how the addresses of a
    message are spelled; an undecodable address refuses the tx; a sudoers store keyed by the raw strings
    of the messages does NOT have that property, one that canonicalises what it stores and compares
    parsed addresses does (it simulates the identity-keyed model). *)
From Coq Require Import List Bool Arith Lia.
Import ListNotations.
Require Import Nib.C16.Model Nib.C16.Spec Nib.C16.Proofs Nib.C16.Spelled.

(* ------------------------------------------------------------------ decode *)

Lemma decode_tx_ok stx : forallb spelled_ok stx = true -> decode_tx stx = Some (map ids stx).
Proof. unfold decode_tx. intro H. rewrite H. reflexivity. Qed.

Lemma decode_tx_bad stx : forallb spelled_ok stx = false -> decode_tx stx = None.
Proof. unfold decode_tx. intro H. rewrite H. reflexivity. Qed.

(** outcomes are independent of spelling: two txs naming the same identities, each in accepted
    spellings, are delivered alike from every state *)
Lemma spelling_irrelevant cf s a b :
  same_ids a b -> forallb spelled_ok a = true -> forallb spelled_ok b = true ->
  sdeliver cf s a = sdeliver cf s b.
Proof.
  unfold same_ids, sdeliver. intros E Ha Hb.
  rewrite (decode_tx_ok a Ha), (decode_tx_ok b Hb), E. reflexivity.
Qed.

(** … over whole histories: same identities tx by tx => same verdicts and same final state *)
Lemma spelling_irrelevant_history cf : forall h1 h2 s,
  Forall2 (fun a b => same_ids a b /\ forallb spelled_ok a = true /\ forallb spelled_ok b = true) h1 h2 ->
  srun_history cf s h1 = srun_history cf s h2.
Proof.
  induction h1 as [|a r IH]; intros h2 s H; inversion H as [|? b ? r2 (E & Ha & Hb) Hr]; subst; auto.
  simpl. rewrite (spelling_irrelevant cf s a b E Ha Hb).
  destruct (sdeliver cf s b) as [s1 ok]. rewrite (IH r2 s1 Hr). reflexivity.
Qed.

(** a string that does not decode, anywhere in the tree, refuses the tx and changes nothing *)
Lemma bad_spelling_rejected cf s stx : forallb spelled_ok stx = false -> sdeliver cf s stx = (s, false).
Proof. unfold sdeliver. intro H. rewrite (decode_tx_bad stx H). reflexivity. Qed.

(** whatever is accepted was accepted as the identities it names: every theorem about [deliver]
    (Property.v) speaks about the txs as written *)
Lemma sdeliver_accepts_by_identity cf s stx s' :
  sdeliver cf s stx = (s', true) ->
  forallb spelled_ok stx = true /\ deliver cf s (map ids stx) = (s', true).
Proof.
  unfold sdeliver, decode_tx. destruct (forallb spelled_ok stx); intro H; [auto | inversion H].
Qed.

(* ------------------------------------------------------------------ trace property *)

Lemma sstep_Pb_sound cf cr cc stx o : sstep_Pb cf cr cc stx o = true -> sstep_P cf cr cc stx o.
Proof.
  unfold sstep_Pb, sstep_P. destruct (decode_tx stx).
  - apply step_Pb_sound.
  - rewrite andb_true_iff, negb_true_iff. intros [H1 H2]. split; auto. apply unchanged_b_sound. exact H2.
Qed.

Lemma sPb_sound cf t : forall cr cc, sPb cf cr cc t = true -> sP cf cr cc t.
Proof.
  induction t as [|[stx o] r IH]; intros cr cc H; simpl in *; auto.
  apply andb_true_iff in H as [H1 H2]. split; [apply sstep_Pb_sound; exact H1 | apply IH; exact H2].
Qed.

Fixpoint smodel_trace (cf : cfg) (s : st) (h : list (list smsg)) : list (list smsg * obs) :=
  match h with
  | [] => []
  | stx :: r => let '(s', ok) := sdeliver cf s stx in (stx, model_obs s s' ok) :: smodel_trace cf s' r
  end.

Lemma model_satisfies_sP cf : c_wguard cf = true ->
  forall h s, sP cf (root s) (contracts s) (smodel_trace cf s h).
Proof.
  intro Hg. induction h as [|stx r IH]; intro s; simpl; auto.
  assert (HS : sstep_P cf (root s) (contracts s) stx
                 (model_obs s (fst (sdeliver cf s stx)) (snd (sdeliver cf s stx)))).
  { unfold sstep_P, sdeliver. destruct (decode_tx stx) as [tx|].
    - apply model_step_P. exact Hg.
    - simpl. split; auto. unfold unchanged, model_obs; simpl. rewrite !Nat.eqb_refl.
      repeat split; auto. apply sudoers_eqb_spec. split; auto. }
  destruct (sdeliver cf s stx) as [s' ok]. simpl in *. split; auto.
Qed.

(* ------------------------------------------------------------------ a store keyed by raw strings *)

Definition U (a : addr) : astr := mkAStr a SpUpper.
Definition L (a : addr) : astr := mkAStr a SpLower.

(** the three ways the raw-string store (the switches as read off x/sudo/keeper before the
    canonicalising fix) makes the outcome depend on the spelling, root 0, contract 1 listed:
    (a) a removal that names the contract in upper case is accepted and removes nothing: 1 stays permitted;
    (b) a hand-over that names the new root in upper case is accepted, and the new root is then refused
        by every gated operation;
    (c) the root writing its own address in upper case cannot edit the sudoers.
    The same histories in lower case behave as the property demands. *)
Definition raw0 : rst := {| r_root := L 0; r_contracts := [L 1] |}.

Lemma raw_string_store_refuted :
  (* (a) *)
  snd (raw_run tree_rawcfg raw0 [SEdit Remove (L 0) [U 1] true; SGated GOracle (L 1) true]) = [true; true] /\
  snd (raw_run tree_rawcfg raw0 [SEdit Remove (L 0) [L 1] true; SGated GOracle (L 1) true]) = [true; false] /\
  (* (b) *)
  snd (raw_run tree_rawcfg raw0 [SRoot (L 0) (U 2); SGated GOracle (L 2) true; SGated GOracle (U 2) true]) = [true; false; false] /\
  snd (raw_run tree_rawcfg raw0 [SRoot (L 0) (L 2); SGated GOracle (L 2) true; SGated GOracle (U 2) true]) = [true; true; true] /\
  (* (c) *)
  snd (raw_run tree_rawcfg raw0 [SEdit Add (U 0) [L 3] true]) = [false] /\
  snd (raw_run tree_rawcfg raw0 [SEdit Add (L 0) [L 3] true]) = [true].
Proof. vm_compute. repeat split; reflexivity. Qed.

(** each switch matters on its own: with the two others repaired the third witness still stands *)
Lemma raw_string_store_each_switch_needed :
  snd (raw_run {| rw_root := true; rw_remove := false; rw_sender := true |} raw0
         [SEdit Remove (L 0) [U 1] true; SGated GOracle (L 1) true]) = [true; true] /\
  snd (raw_run {| rw_root := false; rw_remove := true; rw_sender := true |} raw0
         [SRoot (L 0) (U 2); SGated GOracle (L 2) true]) = [true; false] /\
  snd (raw_run {| rw_root := true; rw_remove := true; rw_sender := false |} raw0
         [SEdit Add (U 0) [L 3] true]) = [false].
Proof. vm_compute. repeat split; reflexivity. Qed.

(* the canonicalising store simulates the identity-keyed model *)

Lemma sp_eqb_eq a b : sp_eqb a b = true -> a = b.
Proof. destruct a, b; simpl; auto; discriminate. Qed.

Lemma astr_eqb_eq a b : astr_eqb a b = true -> a = b.
Proof.
  destruct a as [i p], b as [j q]. unfold astr_eqb. simpl. rewrite andb_true_iff, Nat.eqb_eq.
  intros [H1 H2]. apply sp_eqb_eq in H2. subst. reflexivity.
Qed.

Lemma astr_eqb_refl a : astr_eqb a a = true.
Proof. destruct a as [i p]. unfold astr_eqb. simpl. rewrite Nat.eqb_refl. destruct p; reflexivity. Qed.

Lemma astr_eqb_sym a b : astr_eqb a b = astr_eqb b a.
Proof.
  destruct a as [i p], b as [j q]. unfold astr_eqb. simpl. rewrite (Nat.eqb_sym i j).
  destruct p, q; reflexivity.
Qed.

Lemma astr_eqb_L a b : astr_eqb (L a) (L b) = (a =? b).
Proof. unfold astr_eqb, L. simpl. apply andb_true_r. Qed.

Lemma raw_mem_add x y l : raw_mem x (raw_add y l) = astr_eqb x y || raw_mem x l.
Proof.
  unfold raw_add. destruct (raw_mem y l) eqn:E.
  - destruct (astr_eqb x y) eqn:F; auto. apply astr_eqb_eq in F. subst. rewrite E. reflexivity.
  - unfold raw_mem. rewrite existsb_app. simpl. rewrite orb_false_r. apply orb_comm.
Qed.

Lemma raw_mem_remove x y l : raw_mem x (raw_remove y l) = negb (astr_eqb x y) && raw_mem x l.
Proof.
  unfold raw_mem, raw_remove. induction l as [|z l IH]; simpl.
  - rewrite andb_false_r. reflexivity.
  - destruct (astr_eqb y z) eqn:E; simpl.
    + rewrite IH. apply astr_eqb_eq in E. subst z. destruct (astr_eqb x y); reflexivity.
    + rewrite IH. destruct (astr_eqb x z) eqn:F; simpl.
      * apply astr_eqb_eq in F. subst z. rewrite (astr_eqb_sym x y), E. reflexivity.
      * reflexivity.
Qed.

(** the simulation relation: stored strings are canonical and name the identity-model's sudoers *)
Definition Rel (s : st) (rs : rst) : Prop :=
  r_root rs = L (root s) /\ forall a, raw_mem (L a) (r_contracts rs) = mem a (contracts s).

Lemma raw_mem_fold_add a cs : forall l,
  raw_mem (L a) (fold_left (fun acc c => raw_add (canon c) acc) cs l) = mem a (map as_id cs) || raw_mem (L a) l.
Proof.
  induction cs as [|c cs IH]; intro l; simpl; auto.
  rewrite IH, raw_mem_add. unfold canon. fold (L (as_id c)). rewrite astr_eqb_L.
  destruct (a =? as_id c), (mem a (map as_id cs)), (raw_mem (L a) l); reflexivity.
Qed.

Lemma raw_mem_fold_remove a cs : forall l,
  raw_mem (L a) (fold_left (fun acc c => raw_remove (canon c) acc) cs l) = negb (mem a (map as_id cs)) && raw_mem (L a) l.
Proof.
  induction cs as [|c cs IH]; intro l; simpl; auto.
  rewrite IH, raw_mem_remove. unfold canon. fold (L (as_id c)). rewrite astr_eqb_L.
  destruct (a =? as_id c), (mem a (map as_id cs)), (raw_mem (L a) l); reflexivity.
Qed.

(** one handler call: the canonicalising string store and the identity-keyed model agree on the
    verdict, whatever the (accepted) spellings in the message, and stay related *)
Lemma canon_store_simulates_leaf s rs m :
  Rel s rs -> spelled_ok m = true ->
  match raw_handle canon_rawcfg rs m, handle_leaf s (ids m) with
  | Some rs', Some s' => Rel s' rs'
  | None, None => True
  | _, _ => False
  end.
Proof.
  intros [Hr Hc] Hok. unfold raw_handle. rewrite Hok. cbn [negb].
  destruct m as [a sd cs wf | sd n | k sd pv | ge ms | wsd wc ms]; cbn [ids handle_leaf]; auto.
  - unfold raw_sender_is_root. cbn [canon_rawcfg rw_sender rw_remove]. rewrite Hr. cbn [as_id L].
    destruct a; auto; destruct ((as_id sd =? root s) && wf); auto; split; cbn [r_root r_contracts root contracts set_sudoers]; auto; intro x.
    + rewrite raw_mem_fold_add, mem_fold_insert, Hc. reflexivity.
    + rewrite raw_mem_fold_remove, mem_fold_remove, Hc. reflexivity.
  - rewrite Hr. cbn [as_id L canon_rawcfg rw_root].
    destruct (as_id sd =? root s); auto. split; cbn [r_root r_contracts root contracts set_sudoers]; auto.
  - unfold raw_permitted, permitted. fold (L (as_id sd)). rewrite Hc, Hr, astr_eqb_L.
    destruct ((mem (as_id sd) (contracts s) || (as_id sd =? root s)) && pv); auto.
    split; [destruct k; exact Hr | destruct k; exact Hc].
Qed.

(** handler-level histories of the identity-keyed model (a refused message changes nothing) *)
Fixpoint id_run (s : st) (l : list msg) : st * list bool :=
  match l with
  | [] => (s, [])
  | m :: r =>
      match handle_leaf s m with
      | Some s' => let '(s2, oks) := id_run s' r in (s2, true :: oks)
      | None => let '(s2, oks) := id_run s r in (s2, false :: oks)
      end
  end.

Lemma canon_store_simulates : forall l s rs,
  Rel s rs -> forallb spelled_ok l = true ->
  snd (raw_run canon_rawcfg rs l) = snd (id_run s (map ids l)) /\
  Rel (fst (id_run s (map ids l))) (fst (raw_run canon_rawcfg rs l)).
Proof.
  induction l as [|m r IH]; intros s rs HR Hok; simpl in *; auto.
  apply andb_true_iff in Hok as [Hm Hr].
  pose proof (canon_store_simulates_leaf s rs m HR Hm) as Hs.
  destruct (raw_handle canon_rawcfg rs m) as [rs'|]; destruct (handle_leaf s (ids m)) as [s'|]; try contradiction.
  - destruct (IH s' rs' Hs Hr) as [E1 E2].
    destruct (raw_run canon_rawcfg rs' r), (id_run s' (map ids r)). simpl in *. split; [f_equal|]; auto.
  - destruct (IH s rs HR Hr) as [E1 E2].
    destruct (raw_run canon_rawcfg rs r), (id_run s (map ids r)). simpl in *. split; [f_equal|]; auto.
Qed.

(** so a string store that canonicalises what it stores and compares parsed addresses gives verdicts
    that do not depend on the spellings *)
Lemma canon_store_spelling_irrelevant s rs l1 l2 :
  Rel s rs -> map ids l1 = map ids l2 -> forallb spelled_ok l1 = true -> forallb spelled_ok l2 = true ->
  snd (raw_run canon_rawcfg rs l1) = snd (raw_run canon_rawcfg rs l2).
Proof.
  intros HR E H1 H2.
  rewrite (proj1 (canon_store_simulates l1 s rs HR H1)), (proj1 (canon_store_simulates l2 s rs HR H2)), E.
  reflexivity.
Qed.

(* ------------------------------------------------------------------ non-vacuity *)

Example spelling_nonvacuous :
  let cf := mk_cfg [] [(7, 3)] in
  let lower := [[SEdit Remove (L 0) [L 1] true]; [SGated GOracle (L 1) true]; [SRoot (L 0) (L 2)]; [SGated GMeta (L 2) true];
                [SWasm 3 7 [SGated GMeta (L 7) true]]; [SEdit Add (L 2) [L 7] true]; [SWasm 3 7 [SGated GMeta (L 7) true]]] in
  let upper := [[SEdit Remove (U 0) [U 1] true]; [SGated GOracle (U 1) true]; [SRoot (U 0) (U 2)]; [SGated GMeta (U 2) true];
                [SWasm 3 7 [SGated GMeta (U 7) true]]; [SEdit Add (U 2) [U 7] true]; [SWasm 3 7 [SGated GMeta (U 7) true]]] in
  srun_history cf (mk_st 0 [1]) lower = srun_history cf (mk_st 0 [1]) upper /\
  snd (srun_history cf (mk_st 0 [1]) upper) = [true; false; true; true; false; true; true] /\
  sdeliver cf (mk_st 0 [1]) [SEdit Remove (L 0) [mkAStr 1 SpBad] true] = (mk_st 0 [1], false) /\
  sdeliver cf (mk_st 0 [1]) [SExec 0 [SRoot (mkAStr 0 SpBad) (L 2)]] = (mk_st 0 [1], false).
Proof. vm_compute. repeat split; reflexivity. Qed.

Example canon_store_nonvacuous :
  Rel (mk_st 0 [1]) raw0 /\
  snd (raw_run canon_rawcfg raw0 [SEdit Remove (L 0) [U 1] true; SGated GOracle (L 1) true;
                                  SRoot (U 0) (U 2); SGated GOracle (L 2) true; SEdit Add (U 2) [U 3] true; SGated GMeta (U 3) true])
  = [true; false; true; true; true; true].
Proof. split; [split; [reflexivity | intro a; destruct a as [|[|a]]; reflexivity] | vm_compute; reflexivity]. Qed.
