(** C16 — executable model of the sudo permission relation and of every message it gates.

    Code modelled (nibiru /repo):
      x/sudo/keeper/keeper.go        senderHasPermission, AddContracts, RemoveContracts, CheckPermissions
      x/sudo/keeper/msg_server.go    EditSudoers (action switch), ChangeRoot, validateRootPermissions
      x/oracle/keeper/msg_server.go  EditOracleParams            (CheckPermissions, then write)
      x/inflation/keeper/sudo.go     EditInflationParams, ToggleInflation  (CheckPermissions, then write)
      x/tokenfactory/keeper/msg_server.go  SudoSetDenomMetadata (CheckPermissions, then write)
      cosmos-sdk x/authz keeper.DispatchActions (MsgExec: grant lookup unless signer = grantee, then the
      inner message's own handler on the same context)
      wasmd MsgExecuteContract on a contract that re-dispatches the messages it is given (reflect.wasm:
      only its owner may call it, at least one message) + app/wasmext/wasm.go handleSdkMessage: every
      message a contract dispatches — leaf OR wrapper (MsgExec, MsgExecuteContract) — must have the
      dispatching contract as its only signer, then it is routed to its own handler
      baseapp.runTx / runMsgs: all messages of a tx run on a branch of the state that is written back only
      when every message succeeded.

    Addresses are small ids; the sudo contracts set is kept as a sorted duplicate-free list (the
    implementation stores sorted bech32 strings — C01 fix — and compares by set membership).
    No proofs in this file. *)
From Coq Require Import List Bool Arith.
Import ListNotations.

Definition addr := nat.

Inductive action := Add | Remove | UnknownAction.

(** the operations gated by CheckPermissions; this enumeration is tied to the generated list of
    call sites by Gen/C16Oblig.v *)
Inductive gkind := GOracle | GInflEdit | GInflToggle | GMeta.

(** message kinds as authz sees them (one type URL per kind; add/remove share MsgEditSudoers) *)
Inductive mkind := KEdit | KChangeRoot | KGated (k : gkind) | KExec | KWasm.

Inductive msg :=
| EditSudoers (a : action) (sender : addr) (cs : list addr) (wf : bool)
    (* wf = every listed contract is a well-formed bech32 address *)
| ChangeRoot (sender new : addr)
| Gated (k : gkind) (sender : addr) (payload_valid : bool)
| Exec (grantee : addr) (inner : list msg)
| Wasm (sender contract : addr) (inner : list msg).
    (* MsgExecuteContract{sender, contract, reflect_msg{inner}}: the contract dispatches [inner] *)

(** state: the permission set, and one write counter per store a gated operation writes
    (the harness observes these stores through sha256 digests of their raw KV content) *)
Record st := { root : addr; contracts : list addr; w_oracle : nat; w_infl : nat; w_meta : nat }.

Definition mk_st (r : addr) (cs : list addr) : st :=
  {| root := r; contracts := cs; w_oracle := 0; w_infl := 0; w_meta := 0 |}.

(** sorted, duplicate-free insertion / deletion *)
Fixpoint insert (a : addr) (l : list addr) : list addr :=
  match l with
  | [] => [a]
  | x :: r => if a <? x then a :: l else if a =? x then l else x :: insert a r
  end.

Fixpoint remove_addr (a : addr) (l : list addr) : list addr :=
  match l with
  | [] => []
  | x :: r => if a =? x then remove_addr a r else x :: remove_addr a r
  end.

Fixpoint mem (a : addr) (l : list addr) : bool :=
  match l with [] => false | x :: r => (a =? x) || mem a r end.

Definition normalize (l : list addr) : list addr := fold_left (fun acc a => insert a acc) l [].

(** Keeper.CheckPermissions: set.New(contracts...).Has(sender) || sender == root *)
Definition permitted (s : st) (a : addr) : bool := mem a (contracts s) || (a =? root s).

Definition set_sudoers (s : st) (r : addr) (cs : list addr) : st :=
  {| root := r; contracts := cs; w_oracle := w_oracle s; w_infl := w_infl s; w_meta := w_meta s |}.

Definition bump (k : gkind) (s : st) : st :=
  match k with
  | GOracle => {| root := root s; contracts := contracts s; w_oracle := S (w_oracle s); w_infl := w_infl s; w_meta := w_meta s |}
  | GInflEdit | GInflToggle =>
      {| root := root s; contracts := contracts s; w_oracle := w_oracle s; w_infl := S (w_infl s); w_meta := w_meta s |}
  | GMeta => {| root := root s; contracts := contracts s; w_oracle := w_oracle s; w_infl := w_infl s; w_meta := S (w_meta s) |}
  end.

(** the message handlers proper (everything except MsgExec) *)
Definition handle_leaf (s : st) (m : msg) : option st :=
  match m with
  | EditSudoers Add sender cs wf =>
      (* AddContracts: senderHasPermission(msg.Sender, root) then parse + add every contract *)
      if (sender =? root s) && wf
      then Some (set_sudoers s (root s) (fold_left (fun acc a => insert a acc) cs (contracts s)))
      else None
  | EditSudoers Remove sender cs wf =>
      (* RemoveContracts; malformed entries are refused by ValidateBasic on the tx path *)
      if (sender =? root s) && wf
      then Some (set_sudoers s (root s) (fold_left (fun acc a => remove_addr a acc) cs (contracts s)))
      else None
  | EditSudoers UnknownAction _ _ _ => None
  | ChangeRoot sender new =>
      (* validateRootPermissions: root.Equals(sender) *)
      if sender =? root s then Some (set_sudoers s new (contracts s)) else None
  | Gated k sender pv =>
      if permitted s sender && pv then Some (bump k s) else None
  | Exec _ _ => None
  | Wasm _ _ _ => None
  end.

Definition signer (m : msg) : addr :=
  match m with
  | EditSudoers _ a _ _ => a
  | ChangeRoot a _ => a
  | Gated _ a _ => a
  | Exec g _ => g
  | Wasm a _ _ => a
  end.

Definition kind_of (m : msg) : mkind :=
  match m with
  | EditSudoers _ _ _ _ => KEdit
  | ChangeRoot _ _ => KChangeRoot
  | Gated k _ _ => KGated k
  | Exec _ _ => KExec
  | Wasm _ _ _ => KWasm
  end.

Definition gkind_eqb (a b : gkind) : bool :=
  match a, b with
  | GOracle, GOracle | GInflEdit, GInflEdit | GInflToggle, GInflToggle | GMeta, GMeta => true
  | _, _ => false
  end.

Definition mkind_eqb (a b : mkind) : bool :=
  match a, b with
  | KEdit, KEdit | KChangeRoot, KChangeRoot | KExec, KExec | KWasm, KWasm => true
  | KGated x, KGated y => gkind_eqb x y
  | _, _ => false
  end.

(** an authz grant: granter lets grantee send messages of one kind in the granter's name *)
Record grant := { g_granter : addr; g_grantee : addr; g_kind : mkind }.

Definition has_grant (g : list grant) (granter grantee : addr) (k : mkind) : bool :=
  existsb (fun x => (g_granter x =? granter) && (g_grantee x =? grantee) && mkind_eqb (g_kind x) k) g.

(** the world a history runs in: the authz grants (fixed per history), the contracts that
    re-dispatch messages with their owners (contract, owner), and the variant switch
    [c_wguard]: handleSdkMessage applies its signer guard to EVERY message a contract dispatches
    (true = what Gen/C16Facts.v reports for the tree: the guard dominates the router call on every
    branch; false = the guard is skipped for MsgExec wrappers) *)
Record cfg := { c_grants : list grant; c_owners : list (addr * addr); c_wguard : bool }.

Definition mk_cfg (g : list grant) (ow : list (addr * addr)) : cfg :=
  {| c_grants := g; c_owners := ow; c_wguard := true |}.

Definition is_contract (cf : cfg) (a : addr) : bool := existsb (fun p => fst p =? a) (c_owners cf).

(** reflect.wasm: "Permission denied: the sender is not the current owner" *)
Definition owner_ok (cf : cfg) (c sender : addr) : bool :=
  existsb (fun p => (fst p =? c) && (snd p =? sender)) (c_owners cf).

Definition is_exec (m : msg) : bool := match m with Exec _ _ => true | _ => false end.

(** authz DispatchActions, per inner message: implicit accept when the message's signer is the
    grantee itself, otherwise a grant (granter = signer) for that message type must exist *)
Definition dispatch_ok (g : list grant) (grantee : addr) (m : msg) : bool :=
  (signer m =? grantee) || has_grant g (signer m) grantee (kind_of m).

(** app/wasmext handleSdkMessage, per message dispatched by contract [c]: every signer of the
    message — of the WRAPPER itself when it is a MsgExec / MsgExecuteContract — is the contract *)
Definition wasm_ok (wguard : bool) (c : addr) (m : msg) : bool :=
  (signer m =? c) || (negb wguard && is_exec m).

(** a carrier running its inner messages in order on the same context: [ok] is the carrier's
    entry test, [f] the message router *)
Definition dispatch (f : st -> msg -> option st) (ok : msg -> bool) : st -> list msg -> option st :=
  fix go (s : st) (l : list msg) {struct l} : option st :=
    match l with
    | [] => Some s
    | m' :: r =>
        if ok m'
        then match f s m' with Some s' => go s' r | None => None end
        else None
    end.

(** one message, possibly a (nested) carrier; None = the handler returned an error *)
Fixpoint exec_msg (cf : cfg) (s : st) (m : msg) {struct m} : option st :=
  match m with
  | Exec grantee ms =>
      match ms with
      | [] => None (* MsgExec.ValidateBasic: messages cannot be empty *)
      | _ => dispatch (fun s' m' => exec_msg cf s' m') (dispatch_ok (c_grants cf) grantee) s ms
      end
  | Wasm sender c ms =>
      match ms with
      | [] => None (* reflect.wasm: "Messages empty. Must reflect at least one message" *)
      | _ =>
          if owner_ok cf c sender
          then dispatch (fun s' m' => exec_msg cf s' m') (wasm_ok (c_wguard cf) c) s ms
          else None (* not a contract, or not called by its owner *)
      end
  | _ => handle_leaf s m
  end.

(** baseapp.runMsgs on the branched state *)
Fixpoint run_msgs (cf : cfg) (s : st) (tx : list msg) : option st :=
  match tx with
  | [] => Some s
  | m :: r => match exec_msg cf s m with Some s' => run_msgs cf s' r | None => None end
  end.

(** a tx is signed by the signer of each of its (top-level) messages; a contract has no key *)
Definition signable (cf : cfg) (tx : list msg) : bool :=
  forallb (fun m => negb (is_contract cf (signer m))) tx.

(** DeliverTx: a tx without messages is refused, so is one that would need the signature of a
    contract; the branch is committed only on success *)
Definition deliver (cf : cfg) (s : st) (tx : list msg) : st * bool :=
  match tx with
  | [] => (s, false)
  | _ =>
      if signable cf tx
      then match run_msgs cf s tx with Some s' => (s', true) | None => (s, false) end
      else (s, false)
  end.

Fixpoint run_history (cf : cfg) (s : st) (h : list (list msg)) : st * list bool :=
  match h with
  | [] => (s, [])
  | tx :: r =>
      let '(s1, ok) := deliver cf s tx in
      let '(s2, oks) := run_history cf s1 r in (s2, ok :: oks)
  end.

(** leaves of a message tree in execution order *)
Fixpoint leaves (m : msg) : list msg :=
  match m with
  | Exec _ ms => flat_map leaves ms
  | Wasm _ _ ms => flat_map leaves ms
  | _ => [m]
  end.

Fixpoint leaves_tx (tx : list msg) : list msg :=
  match tx with [] => [] | m :: r => leaves m ++ leaves_tx r end.

(** sequential execution of leaves with no carrier layer at all *)
Fixpoint run_leaves (s : st) (l : list msg) : option st :=
  match l with
  | [] => Some s
  | m :: r => match handle_leaf s m with Some s' => run_leaves s' r | None => None end
  end.

Fixpoint list_eqb (a b : list addr) : bool :=
  match a, b with
  | [], [] => true
  | x :: a', y :: b' => (x =? y) && list_eqb a' b'
  | _, _ => false
  end.

Definition sudoers_eqb (s1 s2 : st) : bool :=
  (root s1 =? root s2) && list_eqb (contracts s1) (contracts s2).

(** who really authorised what.  [wa_b cf p m]: message [m], presented by the principal [p] that the
    enclosing carrier has authenticated, is well-authorised all the way down:
      - the signer of [m] IS that principal (top level: the tx signature; under MsgExec: see below;
        under a contract execution: the executing contract);
      - under MsgExec{grantee}: every inner message is presented by its own signer, who is the
        grantee itself or has granted that message type to the grantee;
      - under MsgExecuteContract{sender, contract}: the sender owns the contract, and every
        dispatched message is presented by the contract. *)
Fixpoint wa_b (cf : cfg) (p : addr) (m : msg) {struct m} : bool :=
  (signer m =? p) &&
  match m with
  | Exec ge ms =>
      forallb (fun m' => dispatch_ok (c_grants cf) ge m' && wa_b cf (signer m') m') ms
  | Wasm sd c ms => owner_ok cf c sd && forallb (fun m' => wa_b cf c m') ms
  | _ => true
  end.

Definition wa_tx (cf : cfg) (tx : list msg) : bool := forallb (fun m => wa_b cf (signer m) m) tx.

(** the contracts a message tree executes *)
Fixpoint executed_contracts (m : msg) : list addr :=
  match m with
  | Exec _ ms => flat_map executed_contracts ms
  | Wasm _ c ms => c :: flat_map executed_contracts ms
  | _ => []
  end.
