(** C16 — executable model of the sudo permission relation and of every message it gates.

    Code modelled (nibiru /repo):
      x/sudo/keeper/keeper.go        senderHasPermission, AddContracts, RemoveContracts, CheckPermissions
      x/sudo/keeper/msg_server.go    EditSudoers (action switch), ChangeRoot, validateRootPermissions
      x/oracle/keeper/msg_server.go  EditOracleParams            (CheckPermissions, then write)
      x/inflation/keeper/sudo.go     EditInflationParams, ToggleInflation  (CheckPermissions, then write)
      x/tokenfactory/keeper/msg_server.go  SudoSetDenomMetadata (CheckPermissions, then write)
      cosmos-sdk x/authz keeper.DispatchActions (MsgExec: grant lookup unless signer = grantee, then the
      inner message's own handler on the same context)
      baseapp.runTx / runMsgs: all messages of a tx run on a branch of the state that is written back only
      when every message succeeded.

    Addresses are small ids; the sudo contracts set is kept as a sorted duplicate-free list (the
    implementation stores sorted bech32 strings — C01 fix — and compares by set membership).
    No proofs in this file. *)
From Coq Require Import List Bool Arith.
Import ListNotations.

Definition addr := nat.

Inductive action := Add | Remove | UnknownAction.

(** the operations gated by CheckPermissions; this enumeration is tied to the generated list of
    call sites by Gen/C16Oblig.v *)
Inductive gkind := GOracle | GInflEdit | GInflToggle | GMeta.

(** message kinds as authz sees them (one type URL per kind; add/remove share MsgEditSudoers) *)
Inductive mkind := KEdit | KChangeRoot | KGated (k : gkind) | KExec.

Inductive msg :=
| EditSudoers (a : action) (sender : addr) (cs : list addr) (wf : bool)
    (* wf = every listed contract is a well-formed bech32 address *)
| ChangeRoot (sender new : addr)
| Gated (k : gkind) (sender : addr) (payload_valid : bool)
| Exec (grantee : addr) (inner : list msg).

(** state: the permission set, and one write counter per store a gated operation writes
    (the harness observes these stores through sha256 digests of their raw KV content) *)
Record st := { root : addr; contracts : list addr; w_oracle : nat; w_infl : nat; w_meta : nat }.

Definition mk_st (r : addr) (cs : list addr) : st :=
  {| root := r; contracts := cs; w_oracle := 0; w_infl := 0; w_meta := 0 |}.

(** sorted, duplicate-free insertion / deletion *)
Fixpoint insert (a : addr) (l : list addr) : list addr :=
  match l with
  | [] => [a]
  | x :: r => if a <? x then a :: l else if a =? x then l else x :: insert a r
  end.

Fixpoint remove_addr (a : addr) (l : list addr) : list addr :=
  match l with
  | [] => []
  | x :: r => if a =? x then remove_addr a r else x :: remove_addr a r
  end.

Fixpoint mem (a : addr) (l : list addr) : bool :=
  match l with [] => false | x :: r => (a =? x) || mem a r end.

Definition normalize (l : list addr) : list addr := fold_left (fun acc a => insert a acc) l [].

(** Keeper.CheckPermissions: set.New(contracts...).Has(sender) || sender == root *)
Definition permitted (s : st) (a : addr) : bool := mem a (contracts s) || (a =? root s).

Definition set_sudoers (s : st) (r : addr) (cs : list addr) : st :=
  {| root := r; contracts := cs; w_oracle := w_oracle s; w_infl := w_infl s; w_meta := w_meta s |}.

Definition bump (k : gkind) (s : st) : st :=
  match k with
  | GOracle => {| root := root s; contracts := contracts s; w_oracle := S (w_oracle s); w_infl := w_infl s; w_meta := w_meta s |}
  | GInflEdit | GInflToggle =>
      {| root := root s; contracts := contracts s; w_oracle := w_oracle s; w_infl := S (w_infl s); w_meta := w_meta s |}
  | GMeta => {| root := root s; contracts := contracts s; w_oracle := w_oracle s; w_infl := w_infl s; w_meta := S (w_meta s) |}
  end.

(** the message handlers proper (everything except MsgExec) *)
Definition handle_leaf (s : st) (m : msg) : option st :=
  match m with
  | EditSudoers Add sender cs wf =>
      (* AddContracts: senderHasPermission(msg.Sender, root) then parse + add every contract *)
      if (sender =? root s) && wf
      then Some (set_sudoers s (root s) (fold_left (fun acc a => insert a acc) cs (contracts s)))
      else None
  | EditSudoers Remove sender cs wf =>
      (* RemoveContracts; malformed entries are refused by ValidateBasic on the tx path *)
      if (sender =? root s) && wf
      then Some (set_sudoers s (root s) (fold_left (fun acc a => remove_addr a acc) cs (contracts s)))
      else None
  | EditSudoers UnknownAction _ _ _ => None
  | ChangeRoot sender new =>
      (* validateRootPermissions: root.Equals(sender) *)
      if sender =? root s then Some (set_sudoers s new (contracts s)) else None
  | Gated k sender pv =>
      if permitted s sender && pv then Some (bump k s) else None
  | Exec _ _ => None
  end.

Definition signer (m : msg) : addr :=
  match m with
  | EditSudoers _ a _ _ => a
  | ChangeRoot a _ => a
  | Gated _ a _ => a
  | Exec g _ => g
  end.

Definition kind_of (m : msg) : mkind :=
  match m with
  | EditSudoers _ _ _ _ => KEdit
  | ChangeRoot _ _ => KChangeRoot
  | Gated k _ _ => KGated k
  | Exec _ _ => KExec
  end.

Definition gkind_eqb (a b : gkind) : bool :=
  match a, b with
  | GOracle, GOracle | GInflEdit, GInflEdit | GInflToggle, GInflToggle | GMeta, GMeta => true
  | _, _ => false
  end.

Definition mkind_eqb (a b : mkind) : bool :=
  match a, b with
  | KEdit, KEdit | KChangeRoot, KChangeRoot | KExec, KExec => true
  | KGated x, KGated y => gkind_eqb x y
  | _, _ => false
  end.

(** an authz grant: granter lets grantee send messages of one kind in the granter's name *)
Record grant := { g_granter : addr; g_grantee : addr; g_kind : mkind }.

Definition has_grant (g : list grant) (granter grantee : addr) (k : mkind) : bool :=
  existsb (fun x => (g_granter x =? granter) && (g_grantee x =? grantee) && mkind_eqb (g_kind x) k) g.

(** authz DispatchActions, per inner message: implicit accept when the message's signer is the
    grantee itself, otherwise a grant (granter = signer) for that message type must exist *)
Definition dispatch_ok (g : list grant) (grantee : addr) (m : msg) : bool :=
  (signer m =? grantee) || has_grant g (signer m) grantee (kind_of m).

(** authz DispatchActions over the inner messages, [f] being the message router *)
Definition dispatch (f : st -> msg -> option st) (g : list grant) (grantee : addr) : st -> list msg -> option st :=
  fix go (s : st) (l : list msg) {struct l} : option st :=
    match l with
    | [] => Some s
    | m' :: r =>
        if dispatch_ok g grantee m'
        then match f s m' with Some s' => go s' r | None => None end
        else None
    end.

(** one message, possibly a (nested) MsgExec; None = the handler returned an error *)
Fixpoint exec_msg (g : list grant) (s : st) (m : msg) {struct m} : option st :=
  match m with
  | Exec grantee ms =>
      match ms with
      | [] => None (* MsgExec.ValidateBasic: messages cannot be empty *)
      | _ => dispatch (fun s' m' => exec_msg g s' m') g grantee s ms
      end
  | _ => handle_leaf s m
  end.

(** baseapp.runMsgs on the branched state *)
Fixpoint run_msgs (g : list grant) (s : st) (tx : list msg) : option st :=
  match tx with
  | [] => Some s
  | m :: r => match exec_msg g s m with Some s' => run_msgs g s' r | None => None end
  end.

(** DeliverTx: a tx without messages is refused; the branch is committed only on success *)
Definition deliver (g : list grant) (s : st) (tx : list msg) : st * bool :=
  match tx with
  | [] => (s, false)
  | _ => match run_msgs g s tx with Some s' => (s', true) | None => (s, false) end
  end.

Fixpoint run_history (g : list grant) (s : st) (h : list (list msg)) : st * list bool :=
  match h with
  | [] => (s, [])
  | tx :: r =>
      let '(s1, ok) := deliver g s tx in
      let '(s2, oks) := run_history g s1 r in (s2, ok :: oks)
  end.

(** leaves of a message tree in execution order *)
Fixpoint leaves (m : msg) : list msg :=
  match m with
  | Exec _ ms => flat_map leaves ms
  | _ => [m]
  end.

Fixpoint leaves_tx (tx : list msg) : list msg :=
  match tx with [] => [] | m :: r => leaves m ++ leaves_tx r end.

(** sequential execution of leaves with no authz layer at all *)
Fixpoint run_leaves (s : st) (l : list msg) : option st :=
  match l with
  | [] => Some s
  | m :: r => match handle_leaf s m with Some s' => run_leaves s' r | None => None end
  end.

Fixpoint list_eqb (a b : list addr) : bool :=
  match a, b with
  | [], [] => true
  | x :: a', y :: b' => (x =? y) && list_eqb a' b'
  | _, _ => false
  end.

Definition sudoers_eqb (s1 s2 : st) : bool :=
  (root s1 =? root s2) && list_eqb (contracts s1) (contracts s2).
