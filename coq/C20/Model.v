(** C20 — executable model of ExportGenesis / InitGenesis of the seven Nibiru modules
    (x/sudo, x/inflation, x/epochs, x/oracle, x/tokenfactory, x/devgas, x/evm).

    One record per module mirrors the persistent collections its keeper declares (maps as
    key-sorted association lists, [SMapDef]); [export_*] mirrors ExportGenesis, [init_*]
    mirrors InitGenesis at import height [h] and block time [t] (ms).  Keys are ranks (byte
    order of the encoded store key), opaque payloads (params, vote bodies, bytecode, words)
    are ids; functions the Go code applies to payloads (keccak, FunToken id, tf denom
    parsing, default bank metadata, params sanitising) are the fields of [funs].
    No proofs in this file. *)
From Coq Require Import List Bool Arith ZArith.
Import ListNotations.
Require Import Nib.C20.SMapDef.

(** [key]: rank of a store key; [id]: id of an opaque payload — both plain [nat] *)
Notation key := nat (only parsing).
Notation id := nat (only parsing).

(** facts about the genesis code that are re-extracted from /repo on every run (Gen/C20Facts.v) *)
Inductive rid_rule :=
| RidLast        (* RewardsID.Set(ctx, data.Rewards[len-1].Id)       — pinned tree *)
| RidLastPlus1   (* RewardsID.Set(ctx, data.Rewards[len-1].Id + 1) *)
| RidUnknown.
(** what MsgUpdateFeeShare stores as the new withdrawer of a fee share *)
Inductive dg_rule :=
| DgUpdKeep               (* the (re-encoded) new withdrawer, whatever it is — the current tree *)
| DgUpdRemoveIfDeployer   (* "" when the new withdrawer is the deployer ("the withdraw address is removed") *)
| DgUpdUnknown.
(** what EpochInfo.Validate (used by the epochs GenesisState.Validate and by AddEpochInfo) demands of the start height *)
Inductive ep_rule :=
| EpValNonneg                (* CurrentEpochStartHeight >= 0 — the current tree *)
| EpValPositiveWhenStarted   (* … and > 0 once EpochCountingStarted ("the first block has height 1") *)
| EpValUnknown.
(** when Keeper.AddEpochInfo (the import path) REWRITES an epoch's start_time with the block time *)
Inductive st_rule :=
| EpStZeroOnly              (* only a zero start_time (a default definition) — the current tree *)
| EpStZeroOrPastUnstarted   (* … or the epoch has not begun counting and its start_time is before the block time *)
| EpStUnknown.
Record cfg := {
  c_rid : rid_rule;
  c_tf_keeps_bank_md : bool;  (* unsafeGenesisInsertDenom keeps bank metadata that already exists *)
  c_pair_json_id : bool;      (* asset.Pair (Un)MarshalJSON copy the string unchanged *)
  c_dg_upd : dg_rule;         (* the withdrawer strings the x/devgas message handlers can store *)
  c_ep_val : ep_rule;         (* EpochInfo.Validate *)
  c_ep_swallow : bool;        (* x/epochs AppModule.InitGenesis discards the error of InitGenesis (`_ = InitGenesis(…)`) *)
  c_ep_start : st_rule        (* the condition under which AddEpochInfo rewrites StartTime *)
}.

(** pure functions of the Go code over opaque payloads *)
Record funs := {
  f_hash : id -> key;                (* crypto.Keccak256Hash(code) *)
  f_code_empty : id -> bool;         (* len(account.Code) == 0 *)
  f_ftid : key -> key -> key;        (* evm.NewFunTokenID(erc20, bankDenom) *)
  f_tfparse : key -> key * id;       (* DenomStr.MustToStruct: denom -> (creator, subdenom) *)
  f_tfdefmd : key -> id;             (* TFDenom.DefaultBankMetadata *)
  f_dgsan : id -> id;                (* devgas ModuleParams.Sanitize *)
  f_pairjson : key -> key;           (* asset.Pair.UnmarshalJSON (MarshalJSON p): what a pair string becomes when the
                                        genesis JSON is decoded — the only custom JSON codec among the string keys *)
  f_addr_ok : key -> bool;           (* sdk.AccAddressFromBech32(s) succeeds (it does not for "") *)
  f_canon : key -> key;              (* AccAddressFromBech32(s).String(): the canonical (lower-case) encoding *)
  f_dgp_ok : id -> bool;             (* devgas ModuleParams.Validate() == nil *)
  f_dgp_enabled : id -> bool;        (* devgas ModuleParams.EnableFeeShare *)
  f_gov : key;                       (* the gov module account (string key) *)
  f_empty : key                      (* the empty string *)
}.

(* ------------------------------------------------------------------ sudo *)
Record sudoers := { su_root : id; su_contracts : list id }.
Definition sudo_st := option sudoers.          (* Item[Sudoers], namespace 1 *)
Definition sudo_gen := sudoers.
Definition export_sudo (s : sudo_st) : option sudo_gen := s.      (* panics when unset *)
Definition init_sudo (g : sudo_gen) : sudo_st := Some g.

(* ------------------------------------------------------------------ inflation *)
Record infl_st := { in_params : id; in_period : option Z; in_skipped : option Z }.
Record infl_gen := { ig_params : id; ig_period : Z; ig_skipped : Z }.
(** collections.Sequence.Peek: DefaultSequenceStart = 1 when unset *)
Definition peek (o : option Z) : Z := match o with Some v => v | None => 1%Z end.
Definition export_infl (s : infl_st) : infl_gen :=
  {| ig_params := in_params s; ig_period := peek (in_period s); ig_skipped := peek (in_skipped s) |}.
Definition init_infl (g : infl_gen) : infl_st :=
  {| in_params := ig_params g; in_period := Some (ig_period g); in_skipped := Some (ig_skipped g) |}.

(* ------------------------------------------------------------------ epochs *)
Record epoch := {
  ep_id : key; ep_start : Z; ep_dur : Z; ep_cur : Z; ep_cstart : Z; ep_started : bool; ep_height : Z }.
Definition epochs_st := smap epoch.            (* Map[string, EpochInfo], namespace 1 *)
Definition epochs_gen := list epoch.
Definition zero_time : Z := (-62135596800000)%Z.   (* time.Time{} in Unix ms *)
Definition export_epochs (s : epochs_st) : epochs_gen := map snd s.
(** AddEpochInfo: rejects a known identifier, fills the start time by rule [sr] (at block time [t]), RE-BASES the start height *)
Definition start_rewritten (sr : st_rule) (t : Z) (e : epoch) : bool :=
  match sr with
  | EpStZeroOrPastUnstarted => Z.eqb (ep_start e) zero_time || (negb (ep_started e) && Z.ltb (ep_start e) t)
  | _ => Z.eqb (ep_start e) zero_time
  end.
Definition add_epoch_r (sr : st_rule) (h t : Z) (acc : option epochs_st) (e : epoch) : option epochs_st :=
  match acc with
  | None => None
  | Some m =>
      if mem (ep_id e) m then None
      else Some (ins (ep_id e)
                   {| ep_id := ep_id e; ep_start := if start_rewritten sr t e then t else ep_start e;
                      ep_dur := ep_dur e; ep_cur := ep_cur e; ep_cstart := ep_cstart e;
                      ep_started := ep_started e; ep_height := h |} m)
  end.
Definition add_epoch := add_epoch_r EpStZeroOnly.
(** EpochInfo.Validate: identifier not empty, duration not 0, start height not negative (+ the rule's extra demand) *)
Definition epoch_valid (r : ep_rule) (empty : key) (e : epoch) : bool :=
  negb (ep_id e =? empty) && negb (Z.eqb (ep_dur e) 0) && Z.leb 0 (ep_height e) &&
  match r with
  | EpValNonneg => true
  | EpValPositiveWhenStarted => negb (ep_started e && Z.eqb (ep_height e) 0)
  | EpValUnknown => false
  end.
Fixpoint nodupb (l : list nat) : bool :=
  match l with [] => true | x :: r => negb (existsb (Nat.eqb x) r) && nodupb r end.
(** GenesisState.Validate: unique identifiers, every epoch valid *)
Definition epochs_gen_valid (r : ep_rule) (empty : key) (g : epochs_gen) : bool :=
  nodupb (map ep_id g) && forallb (epoch_valid r empty) g.
(** epochs.InitGenesis at the InitChain context (height [h] = the genesis' initial height, 0 when it has none or 1;
    time [t]): Validate, then AddEpochInfo per epoch (its own Validate is the same check).  [None] = it returns an error
    (then nothing was inserted: Validate runs first and AddEpochInfo cannot fail after it). *)
Definition init_epochs_r (sr : st_rule) (r : ep_rule) (empty : key) (h t : Z) (g : epochs_gen) : option epochs_st :=
  if epochs_gen_valid r empty g then fold_left (add_epoch_r sr h t) g (Some []) else None.
Definition init_epochs := init_epochs_r EpStZeroOnly.
(** … as the MODULE runs it: an error is discarded when [swallow] — the chain starts with NO epochs — else it aborts *)
Definition init_epochs_mod_r (sr : st_rule) (r : ep_rule) (swallow : bool) (empty : key) (h t : Z) (g : epochs_gen) : option epochs_st :=
  match init_epochs_r sr r empty h t g with
  | Some m => Some m
  | None => if swallow then Some [] else None
  end.
Definition init_epochs_mod := init_epochs_mod_r EpStZeroOnly.

(* ------------------------------------------------------------------ oracle *)
Record rate := { r_rate : id; r_created : Z; r_ts : Z }.       (* ExchangeRateAtBlock *)
Record voteb := { v_voter : key; v_body : id }.               (* prevote / vote: Voter + the rest *)
Record reward := { rw_id : Z; rw_body : id }.
Record snap := { sn_pair : key; sn_ts_key : Z; sn_pair_f : key; sn_price : id; sn_ts : Z }.
Record oracle_st := {
  o_params : id; o_whitelist : list key;       (* Item[Params] ns 11; Params.Whitelist *)
  o_rates : smap rate;                         (* ns 1 *)
  o_feeders : smap key;                        (* ns 2 *)
  o_miss : smap Z;                             (* ns 3 *)
  o_prevotes : smap voteb;                     (* ns 4 *)
  o_votes : smap voteb;                        (* ns 5 *)
  o_pairs : list key;                          (* KeySet ns 6 *)
  o_rewards : list (Z * reward);               (* Map[uint64, Rewards] ns 7, ascending ids *)
  o_rewards_id : option Z;                     (* Sequence ns 9 *)
  o_snaps : list snap                          (* ns 10, key (pair, time) *)
}.
Record oracle_gen := {
  og_params : id; og_whitelist : list key;
  og_rates : list (key * id); og_feeders : list (key * key); og_miss : list (key * Z);
  og_prevotes : list voteb; og_votes : list voteb; og_pairs : list key; og_rewards : list reward }.

Definition export_oracle (s : oracle_st) : oracle_gen :=
  {| og_params := o_params s; og_whitelist := o_whitelist s;
     og_rates := map (fun kv => (fst kv, r_rate (snd kv))) (o_rates s);
     og_feeders := o_feeders s; og_miss := o_miss s;
     og_prevotes := map snd (o_prevotes s); og_votes := map snd (o_votes s);
     og_pairs := o_pairs s; og_rewards := map snd (o_rewards s) |}.

Fixpoint zins {V : Type} (k : Z) (v : V) (m : list (Z * V)) : list (Z * V) :=
  match m with
  | [] => [(k, v)]
  | (k', v') :: r =>
      if Z.ltb k k' then (k, v) :: m else if Z.eqb k k' then (k, v) :: r else (k', v') :: zins k v r
  end.

Definition rewards_id_after (c : cfg) (rs : list reward) : option Z :=
  match rs with
  | [] => None
  | r :: rest =>
      let lastid := rw_id (last rest r) in
      match c_rid c with
      | RidLast => Some lastid
      | RidLastPlus1 => Some (lastid + 1)%Z
      | RidUnknown => None
      end
  end.

(** the genesis section as InitGenesis receives it: decoded from the exported JSON *)
Definition json_oracle_gen (F : funs) (g : oracle_gen) : oracle_gen :=
  {| og_params := og_params g; og_whitelist := map (f_pairjson F) (og_whitelist g);
     og_rates := map (fun kv => (f_pairjson F (fst kv), snd kv)) (og_rates g);
     og_feeders := og_feeders g; og_miss := og_miss g; og_prevotes := og_prevotes g; og_votes := og_votes g;
     og_pairs := map (f_pairjson F) (og_pairs g); og_rewards := og_rewards g |}.

Definition init_oracle (c : cfg) (h t : Z) (g : oracle_gen) : oracle_st :=
  (* SetPrice: ExchangeRates[pair] := (rate, height, time); PriceSnapshots[(pair, time)] := … *)
  let rates := of_list (map (fun kv => (fst kv, {| r_rate := snd kv; r_created := h; r_ts := t |})) (og_rates g)) in
  {| o_params := og_params g; o_whitelist := og_whitelist g;
     o_rates := rates;
     o_feeders := of_list (og_feeders g);
     o_miss := of_list (og_miss g);
     o_prevotes := of_list (map (fun v => (v_voter v, v)) (og_prevotes g));
     o_votes := of_list (map (fun v => (v_voter v, v)) (og_votes g));
     o_pairs := kset_of (match og_pairs g with [] => og_whitelist g | ps => ps end);
     o_rewards := fold_left (fun acc r => zins (rw_id r) r acc) (og_rewards g) [];
     o_rewards_id := rewards_id_after c (og_rewards g);
     o_snaps := map (fun kv => {| sn_pair := fst kv; sn_ts_key := t; sn_pair_f := fst kv;
                                  sn_price := r_rate (snd kv); sn_ts := t |}) rates |}.

(* ------------------------------------------------------------------ tokenfactory *)
Record tf_st := {
  tf_params : id;                    (* Item ns 3 *)
  tf_denoms : smap (key * id);       (* IndexedMap ns 1: denom -> TFDenom{creator, subdenom} *)
  tf_creators : list key;            (* KeySet ns 2 *)
  tf_admins : smap id;               (* Map ns 4: denom -> admin *)
  tf_idx : list (key * key);         (* MultiIndex ns 5: (creator, denom) *)
  tf_bankmd : smap id                (* x/bank metadata of the tf denoms (written by InitGenesis) *)
}.
Record tf_gen := { tg_params : id; tg_denoms : list (key * id) }.   (* (denom, admin) *)

Fixpoint tf_export_denoms (admins : smap id) (ds : smap (key * id)) : option (list (key * id)) :=
  match ds with
  | [] => Some []
  | (d, _) :: r =>
      match get d admins, tf_export_denoms admins r with
      | Some a, Some l => Some ((d, a) :: l)
      | _, _ => None               (* GetDenomAuthorityMetadata error -> panic *)
      end
  end.
Definition export_tf (s : tf_st) : option tf_gen :=
  match tf_export_denoms (tf_admins s) (tf_denoms s) with
  | Some l => Some {| tg_params := tf_params s; tg_denoms := l |}
  | None => None
  end.

(** [md0]: bank metadata as restored by x/bank's InitGenesis, which runs earlier *)
Definition init_tf (c : cfg) (F : funs) (md0 : smap id) (g : tf_gen) : option tf_st :=
  if negb (nodupb (map fst (tg_denoms g))) then None      (* GenesisState.Validate: duplicate denom *)
  else
    let denoms := of_list (map (fun da => (fst da, f_tfparse F (fst da))) (tg_denoms g)) in
    Some {| tf_params := tg_params g;
            tf_denoms := denoms;
            tf_creators := kset_of (map (fun da => fst (f_tfparse F (fst da))) (tg_denoms g));
            tf_admins := of_list (tg_denoms g);
            tf_idx := idx_of (fun _ v => fst v) denoms;
            tf_bankmd := fold_left (fun acc da =>
                            let d := fst da in
                            if c_tf_keeps_bank_md c && mem d acc then acc else ins d (f_tfdefmd F d) acc)
                          (tg_denoms g) md0 |}.

(* ------------------------------------------------------------------ devgas *)
Record feeshare := { fs_contract : key; fs_deployer : key; fs_withdrawer : key }.
Record devgas_st := {
  dg_params : id;                      (* Item ns 4 *)
  dg_shares : smap feeshare;           (* IndexedMap ns 1 *)
  dg_idx_dep : list (key * key);       (* MultiIndex ns 2 *)
  dg_idx_wd : list (key * key)         (* MultiIndex ns 3 *)
}.
Record devgas_gen := { dgg_params : id; dgg_shares : list feeshare }.
Definition export_devgas (s : devgas_st) : devgas_gen :=
  {| dgg_params := dg_params s; dgg_shares := map snd (dg_shares s) |}.
(** FeeShare.Validate: the three addresses parse; an empty withdrawer is rejected ("withdrawer address cannot be
    empty") — covered by [f_addr_ok] being false on the empty string *)
Definition fs_valid (F : funs) (f : feeshare) : bool :=
  f_addr_ok F (fs_contract f) && f_addr_ok F (fs_deployer f) && f_addr_ok F (fs_withdrawer f).
(** InitGenesis: GenesisState.Validate (duplicate contract, every FeeShare.Validate, Params.Validate) — any failure
    panics, i.e. the chain cannot start from this genesis —, then Params.Sanitize and SetFeeShare per entry *)
Definition init_devgas (F : funs) (g : devgas_gen) : option devgas_st :=
  if negb (nodupb (map fs_contract (dgg_shares g))) then None     (* Validate: contract duplicated *)
  else if negb (forallb (fs_valid F) (dgg_shares g)) then None    (* Validate: FeeShare.Validate *)
  else if negb (f_dgp_ok F (dgg_params g)) then None              (* Validate: Params.Validate *)
  else
    let shares := of_list (map (fun f => (fs_contract f, f)) (dgg_shares g)) in
    Some {| dg_params := f_dgsan F (dgg_params g); dg_shares := shares;
            dg_idx_dep := idx_of (fun _ v => fs_deployer v) shares;
            dg_idx_wd := idx_of (fun _ v => fs_withdrawer v) shares |}.

(** ---- the x/devgas message handlers (x/devgas/v1/keeper/msg_server.go): the only writers of the registry besides
    InitGenesis.  A history is a list of [dg_op]; the environment part of the world is the table of wasm contracts
    (ContractInfo: admin, creator).  A handler returns [None] when it rejects (or panics: nil ContractInfo): the
    message fails and the state is unchanged.  Strings in messages are arbitrary (keys of raw strings); what is
    STORED is the re-encoding [f_canon] of the parsed address. *)
Record winfo := { wi_admin : option key; wi_creator : key }.
Inductive dg_op :=
| DWasm (c : key) (i : winfo)            (* contract [c] instantiated / its admin changed (environment) *)
| DRegister (c d w : key)                (* MsgRegisterFeeShare{ContractAddress, DeployerAddress, WithdrawerAddress} *)
| DUpdate (c d w : key)                  (* MsgUpdateFeeShare *)
| DCancel (c d : key)                    (* MsgCancelFeeShare *)
| DParams (auth : bool) (p : id).        (* MsgUpdateParams; [auth]: sent by the module authority *)

Definition dg_with_shares (s : devgas_st) (shares : smap feeshare) : devgas_st :=
  {| dg_params := dg_params s; dg_shares := shares;
     dg_idx_dep := idx_of (fun _ v => fs_deployer v) shares;
     dg_idx_wd := idx_of (fun _ v => fs_withdrawer v) shares |}.
(** SetFeeShare = IndexedMap.Insert (re-indexes), DevGasStore.Delete *)
Definition dg_put (f : feeshare) (s : devgas_st) : devgas_st := dg_with_shares s (ins (fs_contract f) f (dg_shares s)).
Definition dg_delete (c : key) (s : devgas_st) : devgas_st := dg_with_shares s (del c (dg_shares s)).

(** isContractCreatedFromFactory(info, msgSender) *)
Definition from_factory (F : funs) (W : smap winfo) (i : winfo) (sender : key) : bool :=
  match wi_admin i with
  | Some a => if a =? f_gov F then true else if a =? sender then false else mem a W
  | None => mem (wi_creator i) W
  end.
(** GetContractAdminOrCreatorAddress(contract, deployer) succeeds: string comparison with ContractInfo *)
Definition admin_or_creator (F : funs) (W : smap winfo) (c d : key) : bool :=
  f_addr_ok F d &&
  match get c W with
  | None => false
  | Some i => match wi_admin i with None => wi_creator i =? d | Some a => a =? d end
  end.

Definition dg_register (F : funs) (W : smap winfo) (s : devgas_st) (c d w : key) : option devgas_st :=
  if negb (f_dgp_enabled F (dg_params s)) then None
  else if negb (f_addr_ok F c) then None
  else
    let c' := f_canon F c in
    if mem c' (dg_shares s) then None                       (* already registered *)
    else if negb (f_addr_ok F w) then None
    else if negb (f_addr_ok F d) then None
    else
      match get c' W with
      | None => None                                        (* nil ContractInfo: the handler panics *)
      | Some i =>
          if from_factory F W i (f_canon F d) then
            if w =? c then Some (dg_put {| fs_contract := c'; fs_deployer := c'; fs_withdrawer := f_canon F w |} s)
            else None
          else if admin_or_creator F W c' d then
            Some (dg_put {| fs_contract := c'; fs_deployer := f_canon F d; fs_withdrawer := f_canon F w |} s)
          else None
      end.

Definition dg_update (r : dg_rule) (F : funs) (W : smap winfo) (s : devgas_st) (c d w : key) : option devgas_st :=
  if negb (f_dgp_enabled F (dg_params s)) then None
  else if negb (f_addr_ok F c) then None
  else
    let c' := f_canon F c in
    match get c' (dg_shares s) with
    | None => None                                          (* not registered *)
    | Some fs =>
        if w =? fs_withdrawer fs then None                  (* "already registered" with this withdrawer *)
        else if negb (admin_or_creator F W c' d) then None
        else if negb (f_addr_ok F w) then None
        else
          let nw := f_canon F w in
          match r with
          | DgUpdKeep =>
              Some (dg_put {| fs_contract := fs_contract fs; fs_deployer := fs_deployer fs; fs_withdrawer := nw |} s)
          | DgUpdRemoveIfDeployer =>
              Some (dg_put {| fs_contract := fs_contract fs; fs_deployer := fs_deployer fs;
                              fs_withdrawer := if nw =? fs_deployer fs then f_empty F else nw |} s)
          | DgUpdUnknown => None
          end
    end.

Definition dg_cancel (F : funs) (W : smap winfo) (s : devgas_st) (c d : key) : option devgas_st :=
  if negb (f_dgp_enabled F (dg_params s)) then None
  else if negb (f_addr_ok F c) then None
  else
    let c' := f_canon F c in
    match get c' (dg_shares s) with
    | None => None
    | Some fs => if admin_or_creator F W c' d then Some (dg_delete (fs_contract fs) s) else None
    end.

Definition dg_set_params (F : funs) (s : devgas_st) (auth : bool) (p : id) : option devgas_st :=
  if auth && f_dgp_ok F p then
    Some {| dg_params := p; dg_shares := dg_shares s; dg_idx_dep := dg_idx_dep s; dg_idx_wd := dg_idx_wd s |}
  else None.

Definition dg_world := (smap winfo * devgas_st)%type.
Definition dg_handle (r : dg_rule) (F : funs) (ws : dg_world) (op : dg_op) : option devgas_st :=
  match op with
  | DWasm _ _ => Some (snd ws)
  | DRegister c d w => dg_register F (fst ws) (snd ws) c d w
  | DUpdate c d w => dg_update r F (fst ws) (snd ws) c d w
  | DCancel c d => dg_cancel F (fst ws) (snd ws) c d
  | DParams a p => dg_set_params F (snd ws) a p
  end.
(** one step: the new world and whether the message succeeded *)
Definition dg_step (r : dg_rule) (F : funs) (ws : dg_world) (op : dg_op) : dg_world * bool :=
  let W' := match op with DWasm c i => ins c i (fst ws) | _ => fst ws end in
  match dg_handle r F ws op with
  | Some s' => ((W', s'), true)
  | None => ((W', snd ws), false)
  end.
Definition dg_run (r : dg_rule) (F : funs) (ops : list dg_op) (ws : dg_world) : dg_world :=
  fold_left (fun acc op => fst (dg_step r F acc op)) ops ws.
(** replay of an observed log: every success / failure must be predicted *)
Fixpoint dg_replay (r : dg_rule) (F : funs) (hist : list (dg_op * bool)) (ws : dg_world) : option dg_world :=
  match hist with
  | [] => Some ws
  | (op, ok) :: rest =>
      let res := dg_step r F ws op in
      if Bool.eqb ok (snd res) then dg_replay r F rest (fst res) else None
  end.
(** the registry of a chain started from a default-like genesis: params [p], no fee share *)
Definition dg_genesis (p : id) : devgas_st := {| dg_params := p; dg_shares := []; dg_idx_dep := []; dg_idx_wd := [] |}.

(* ------------------------------------------------------------------ evm *)
Record funtoken := { ft_erc20 : key; ft_denom : key; ft_body : id }.
Record evm_st := {
  ev_params : id;                          (* Item ns 3 *)
  ev_code : smap id;                       (* ContractBytecode ns 1: code hash -> code *)
  ev_storage : smap (smap id);             (* AccState ns 2: (address, slot) -> word, grouped by address *)
  ev_ft : smap funtoken;                   (* FunTokens IndexedMap ns 5 *)
  ev_idx_erc20 : list (key * key);         (* ns 6 *)
  ev_idx_denom : list (key * key)          (* ns 7 *)
}.
Record gacc := { ga_addr : key; ga_code : id; ga_storage : list (key * id) }.
Record evm_gen := { eg_params : id; eg_accounts : list gacc; eg_ft : list funtoken }.
(** x/auth accounts as the evm genesis code sees them (GetAllAccounts order = address order) *)
Record authacc := { aa_addr : key; aa_eth : bool; aa_hash : key }.

Definition storage_of (a : key) (st : smap (smap id)) : list (key * id) :=
  match get a st with Some m => m | None => [] end.

Definition export_evm (env : list authacc) (s : evm_st) : evm_gen :=
  {| eg_params := ev_params s;
     eg_accounts := flat_map (fun a =>
         if aa_eth a then
           match get (aa_hash a) (ev_code s) with
           | Some c => [{| ga_addr := aa_addr a; ga_code := c; ga_storage := storage_of (aa_addr a) (ev_storage s) |}]
           | None => []                       (* "Not a contract" *)
           end
         else []) env;
     eg_ft := map snd (ev_ft s) |}.

Definition find_acc (a : key) (env : list authacc) : option authacc :=
  find (fun x => aa_addr x =? a) env.

Definition set_slot (a : key) (st : smap (smap id)) (kv : key * id) : smap (smap id) :=
  ins a (ins (fst kv) (snd kv) (storage_of a st)) st.

Definition init_evm_acc (F : funs) (env : list authacc) (acc : option (smap id * smap (smap id))) (g : gacc)
  : option (smap id * smap (smap id)) :=
  match acc with
  | None => None
  | Some (code, st) =>
      match find_acc (ga_addr g) env with
      | None => None                                        (* account not found: panic *)
      | Some a =>
          if negb (aa_eth a) then None                      (* must be an EthAccount: panic *)
          else
            let h := f_hash F (ga_code g) in
            if negb (f_code_empty F (ga_code g)) && negb (aa_hash a =? h) then None   (* code hash mismatch *)
            else
              let code' := if f_code_empty F (ga_code g) then del h code else ins h (ga_code g) code in
              Some (code', fold_left (set_slot (ga_addr g)) (ga_storage g) st)
      end
  end.

Definition init_evm (F : funs) (env : list authacc) (g : evm_gen) : option evm_st :=
  match fold_left (init_evm_acc F env) (eg_accounts g) (Some ([], [])) with
  | None => None
  | Some (code, st) =>
      let ft := of_list (map (fun f => (f_ftid F (ft_erc20 f) (ft_denom f), f)) (eg_ft g)) in
      Some {| ev_params := eg_params g; ev_code := code; ev_storage := st; ev_ft := ft;
              ev_idx_erc20 := idx_of (fun _ v => ft_erc20 v) ft;
              ev_idx_denom := idx_of (fun _ v => ft_denom v) ft |}
  end.

(* ------------------------------------------------------------------ the application *)
Record app_st := {
  a_sudo : sudo_st; a_infl : infl_st; a_epochs : epochs_st; a_oracle : oracle_st;
  a_tf : tf_st; a_devgas : devgas_st; a_evm : evm_st }.
Record app_gen := {
  g_sudo : sudo_gen; g_infl : infl_gen; g_epochs : epochs_gen; g_oracle : oracle_gen;
  g_tf : tf_gen; g_devgas : devgas_gen; g_evm : evm_gen }.

Definition export_app (env : list authacc) (s : app_st) : option app_gen :=
  match export_sudo (a_sudo s), export_tf (a_tf s) with
  | Some gs, Some gt =>
      Some {| g_sudo := gs; g_infl := export_infl (a_infl s); g_epochs := export_epochs (a_epochs s);
              g_oracle := export_oracle (a_oracle s); g_tf := gt; g_devgas := export_devgas (a_devgas s);
              g_evm := export_evm env (a_evm s) |}
  | _, _ => None
  end.

(** InitChain of a fresh app at height [h], time [t]; [env], [md0] = what x/auth and x/bank
    (initialised earlier in the module order) hold. *)
Definition init_app (c : cfg) (F : funs) (env : list authacc) (md0 : smap id) (h t : Z) (g : app_gen)
  : option app_st :=
  match init_epochs_mod_r (c_ep_start c) (c_ep_val c) (c_ep_swallow c) (f_empty F) h t (g_epochs g), init_tf c F md0 (g_tf g), init_devgas F (g_devgas g), init_evm F env (g_evm g) with
  | Some e, Some tf, Some dg, Some ev =>
      Some {| a_sudo := init_sudo (g_sudo g); a_infl := init_infl (g_infl g); a_epochs := e;
              a_oracle := init_oracle c h t (json_oracle_gen F (g_oracle g)); a_tf := tf; a_devgas := dg; a_evm := ev |}
  | _, _, _, _ => None
  end.

(** ITERATED round trips: a chain started from an export is itself exported and imported, generation after generation,
    each at its own InitChain height (0 for a genesis without initial height) and time.  (Blocks run between two
    generations lead to another reachable state; the theorems quantify over all well-formed ones.) *)
Fixpoint regen (c : cfg) (F : funs) (env : list authacc) (gens : list (Z * Z)) (s : app_st) : option app_st :=
  match gens with
  | [] => Some s
  | (h, t) :: rest =>
      match export_app env s with
      | None => None
      | Some g =>
          match init_app c F env (tf_bankmd (a_tf s)) h t g with
          | None => None
          | Some s' => regen c F env rest s'
          end
      end
  end.
