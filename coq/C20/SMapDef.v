(** C20 — collections as key-sorted association lists (definitions only, no proofs).
    A [collections.Map] / [KeySet] / multi-index of the Go code iterates in key-byte order; the
    harness ranks keys in that order, so a collection is a list strictly sorted by [nat] keys. *)
From Coq Require Import List Bool Arith.
Import ListNotations.

Section Map.
  Context {V : Type}.

  Fixpoint ins (k : nat) (v : V) (m : list (nat * V)) : list (nat * V) :=
    match m with
    | [] => [(k, v)]
    | (k', v') :: r =>
        if k <? k' then (k, v) :: m
        else if k =? k' then (k, v) :: r
        else (k', v') :: ins k v r
    end.

  Fixpoint get (k : nat) (m : list (nat * V)) : option V :=
    match m with
    | [] => None
    | (k', v') :: r => if k =? k' then Some v' else get k r
    end.

  Fixpoint del (k : nat) (m : list (nat * V)) : list (nat * V) :=
    match m with
    | [] => []
    | (k', v') :: r => if k =? k' then r else (k', v') :: del k r
    end.

  Definition mem (k : nat) (m : list (nat * V)) : bool :=
    match get k m with Some _ => true | None => false end.

  (** inserting a list of pairs one by one (what every InitGenesis loop does) *)
  Definition ins_all (l : list (nat * V)) (m : list (nat * V)) : list (nat * V) :=
    fold_left (fun acc kv => ins (fst kv) (snd kv) acc) l m.

  Definition of_list (l : list (nat * V)) : list (nat * V) := ins_all l [].

  Fixpoint sortedb (m : list (nat * V)) : bool :=
    match m with
    | [] => true
    | (k, _) :: r =>
        match r with
        | [] => true
        | (k', _) :: _ => (k <? k') && sortedb r
        end
    end.
End Map.

Definition smap (V : Type) := list (nat * V).

(** key sets *)
Definition kins (k : nat) (s : list nat) : list nat := map fst (ins k tt (map (fun x => (x, tt)) s)).
Definition kset_of (l : list nat) : list nat := fold_left (fun acc k => kins k acc) l [].
Definition ksortedb (s : list nat) : bool := sortedb (map (fun x => (x, tt)) s).

(** multi-index key spaces: sets of (index key, primary key), lexicographic order *)
Definition lt2 (a b : nat * nat) : bool :=
  (fst a <? fst b) || ((fst a =? fst b) && (snd a <? snd b)).
Definition eq2 (a b : nat * nat) : bool := (fst a =? fst b) && (snd a =? snd b).

Fixpoint ins2 (x : nat * nat) (s : list (nat * nat)) : list (nat * nat) :=
  match s with
  | [] => [x]
  | y :: r => if lt2 x y then x :: s else if eq2 x y then s else y :: ins2 x r
  end.

Definition idx_of {V : Type} (ik : nat -> V -> nat) (m : list (nat * V)) : list (nat * nat) :=
  fold_left (fun acc kv => ins2 (ik (fst kv) (snd kv), fst kv) acc) m [].
