(** C20 — facts about key-sorted association lists ([SMapDef]). *)
From Coq Require Import List Bool Arith Lia.
Import ListNotations.
Require Import Nib.C20.SMapDef.

Section Facts.
  Context {V : Type}.
  Implicit Types m l : list (nat * V).

  (** all keys below a bound *)
  Definition below (b : nat) m : Prop := forall k v, In (k, v) m -> k < b.

  Lemma sortedb_cons : forall k v m, sortedb ((k, v) :: m) = true <-> (sortedb m = true /\ forall k' v', In (k', v') m -> k < k').
  Proof.
    intros k v m. revert k v. induction m as [|[k1 v1] r IH]; intros k v.
    - cbn. split; [intros _; split; [reflexivity | intros ? ? []] | reflexivity].
    - change (sortedb ((k, v) :: (k1, v1) :: r)) with ((k <? k1) && sortedb ((k1, v1) :: r)).
      rewrite andb_true_iff, Nat.ltb_lt. split.
      + intros [Hlt Hs]. split; [exact Hs|]. intros k' v' [E | Hin].
        * inversion E; subst. exact Hlt.
        * apply IH in Hs. destruct Hs as [_ Hs]. specialize (Hs _ _ Hin). lia.
      + intros [Hs Hall]. split; [apply (Hall k1 v1); left; reflexivity | exact Hs].
  Qed.

  Lemma sortedb_tail : forall x m, sortedb (x :: m) = true -> sortedb m = true.
  Proof. intros [k v] m H. apply sortedb_cons in H. tauto. Qed.

  Lemma sortedb_app_l : forall m1 m2, sortedb (m1 ++ m2) = true -> sortedb m1 = true.
  Proof.
    induction m1 as [|[k v] r IH]; intros m2 H; [reflexivity|].
    cbn [app] in H. apply sortedb_cons in H. destruct H as [Hs Hall].
    apply sortedb_cons. split; [eapply IH; exact Hs|].
    intros k' v' Hin. apply (Hall k' v'). apply in_or_app. left. exact Hin.
  Qed.

  Lemma sortedb_app_r : forall m1 m2, sortedb (m1 ++ m2) = true -> sortedb m2 = true.
  Proof.
    induction m1 as [|x r IH]; intros m2 H; [exact H|].
    cbn [app] in H. apply sortedb_tail in H. exact (IH _ H).
  Qed.

  Lemma sortedb_app_below : forall m1 k v m2, sortedb (m1 ++ (k, v) :: m2) = true -> below k m1.
  Proof.
    induction m1 as [|[k1 v1] r IH]; intros k v m2 H k' v' Hin; [destruct Hin|].
    cbn [app] in H. apply sortedb_cons in H. destruct H as [Hs Hall].
    destruct Hin as [E | Hin].
    - inversion E; subst. apply (Hall k v). apply in_or_app. right. left. reflexivity.
    - exact (IH _ _ _ Hs _ _ Hin).
  Qed.

  Lemma sortedb_snoc : forall m k v, sortedb m = true -> below k m -> sortedb (m ++ [(k, v)]) = true.
  Proof.
    induction m as [|[k1 v1] r IH]; intros k v Hs Hb; [reflexivity|].
    cbn [app]. apply sortedb_cons in Hs. destruct Hs as [Hs Hall]. apply sortedb_cons. split.
    - apply IH; [exact Hs|]. intros k' v' Hin. apply (Hb k' v'). right. exact Hin.
    - intros k' v' Hin. apply in_app_or in Hin. destruct Hin as [Hin | [E | []]].
      + exact (Hall _ _ Hin).
      + inversion E; subst. apply (Hb k1 v1). left. reflexivity.
  Qed.

  Lemma ins_below : forall m k v, below k m -> ins k v m = m ++ [(k, v)].
  Proof.
    induction m as [|[k1 v1] r IH]; intros k v Hb; [reflexivity|].
    cbn [ins app]. assert (k1 < k) by (apply (Hb k1 v1); left; reflexivity).
    destruct (k <? k1) eqn:E1; [apply Nat.ltb_lt in E1; lia|].
    destruct (k =? k1) eqn:E2; [apply Nat.eqb_eq in E2; lia|].
    f_equal. apply IH. intros k' v' Hin. apply (Hb k' v'). right. exact Hin.
  Qed.

  (** inserting a sorted run after a sorted prefix rebuilds the concatenation *)
  Lemma ins_all_sorted : forall l pre, sortedb (pre ++ l) = true -> ins_all l pre = pre ++ l.
  Proof.
    induction l as [|[k v] r IH]; intros pre H.
    - cbn. rewrite app_nil_r. reflexivity.
    - unfold ins_all. cbn [fold_left fst snd].
      rewrite (ins_below pre k v (sortedb_app_below _ _ _ _ H)).
      change (ins_all r (pre ++ [(k, v)]) = pre ++ (k, v) :: r).
      rewrite IH; rewrite <- app_assoc; cbn [app]; [reflexivity | exact H].
  Qed.

  Lemma of_list_sorted : forall m, sortedb m = true -> of_list m = m.
  Proof. intros m H. unfold of_list. exact (ins_all_sorted m [] H). Qed.

  (* ---- get *)
  Lemma get_below : forall m k, below k m -> get k m = None.
  Proof.
    induction m as [|[k1 v1] r IH]; intros k Hb; [reflexivity|].
    cbn [get]. assert (k1 < k) by (apply (Hb k1 v1); left; reflexivity).
    destruct (k =? k1) eqn:E; [apply Nat.eqb_eq in E; lia|].
    apply IH. intros k' v' Hin. apply (Hb k' v'). right. exact Hin.
  Qed.

  Lemma get_above : forall m k, (forall k' v', In (k', v') m -> k < k') -> get k m = None.
  Proof.
    induction m as [|[k1 v1] r IH]; intros k Hb; [reflexivity|].
    cbn [get]. assert (k < k1) by (apply (Hb k1 v1); left; reflexivity).
    destruct (k =? k1) eqn:E; [apply Nat.eqb_eq in E; lia|].
    apply IH. intros k' v' Hin. apply (Hb k' v'). right. exact Hin.
  Qed.

  Lemma get_in : forall m k v, sortedb m = true -> In (k, v) m -> get k m = Some v.
  Proof.
    induction m as [|[k1 v1] r IH]; intros k v Hs Hin; [destruct Hin|].
    apply sortedb_cons in Hs. destruct Hs as [Hs Hall]. cbn [get]. destruct Hin as [E | Hin].
    - inversion E; subst. rewrite Nat.eqb_refl. reflexivity.
    - specialize (Hall _ _ Hin). destruct (k =? k1) eqn:E; [apply Nat.eqb_eq in E; lia|]. exact (IH _ _ Hs Hin).
  Qed.

  Lemma get_some_in : forall m k v, get k m = Some v -> In (k, v) m.
  Proof.
    induction m as [|[k1 v1] r IH]; intros k v H; [discriminate|].
    cbn [get] in H. destruct (k =? k1) eqn:E.
    - apply Nat.eqb_eq in E. inversion H; subst. left. reflexivity.
    - right. exact (IH _ _ H).
  Qed.

  Lemma get_ins : forall m k v k', get k' (ins k v m) = if k' =? k then Some v else get k' m.
  Proof.
    induction m as [|[k1 v1] r IH]; intros k v k'.
    - cbn. reflexivity.
    - cbn [ins]. destruct (k <? k1) eqn:E1.
      + cbn [get]. reflexivity.
      + destruct (k =? k1) eqn:E2.
        * apply Nat.eqb_eq in E2. subst k1. cbn [get]. destruct (k' =? k); reflexivity.
        * cbn [get]. rewrite IH. destruct (k' =? k1) eqn:E3; [|reflexivity].
          destruct (k' =? k) eqn:E4; [|reflexivity].
          apply Nat.eqb_eq in E3. apply Nat.eqb_eq in E4. subst. rewrite Nat.eqb_refl in E2. discriminate.
  Qed.

  Lemma in_ins : forall m k v k' v', In (k', v') (ins k v m) -> (k' = k /\ v' = v) \/ In (k', v') m.
  Proof.
    induction m as [|[k1 v1] r IH]; intros k v k' v' H.
    - destruct H as [E | []]. inversion E. left. auto.
    - cbn [ins] in H. destruct (k <? k1).
      + destruct H as [E | H]; [inversion E; left; auto | right; exact H].
      + destruct (k =? k1).
        * destruct H as [E | H]; [inversion E; left; auto | right; right; exact H].
        * destruct H as [E | H]; [right; left; exact E|].
          apply IH in H. destruct H; [left; assumption | right; right; assumption].
  Qed.

  Lemma sortedb_ins : forall m k v, sortedb m = true -> sortedb (ins k v m) = true.
  Proof.
    induction m as [|[k1 v1] r IH]; intros k v Hs; [reflexivity|].
    cbn [ins]. destruct (k <? k1) eqn:E1.
    - apply Nat.ltb_lt in E1. apply sortedb_cons. split; [exact Hs|].
      intros k' v' [E | Hin]; [inversion E; subst; exact E1|].
      apply sortedb_cons in Hs. destruct Hs as [_ Hall]. specialize (Hall _ _ Hin). lia.
    - destruct (k =? k1) eqn:E2.
      + apply Nat.eqb_eq in E2. subst k1. apply sortedb_cons in Hs. apply sortedb_cons. exact Hs.
      + apply sortedb_cons in Hs. destruct Hs as [Hs Hall]. apply sortedb_cons. split; [exact (IH _ _ Hs)|].
        intros k' v' Hin. apply in_ins in Hin. destruct Hin as [[-> _] | Hin].
        * apply Nat.ltb_ge in E1. apply Nat.eqb_neq in E2. lia.
        * exact (Hall _ _ Hin).
  Qed.

  Lemma sortedb_ins_all : forall l m, sortedb m = true -> sortedb (ins_all l m) = true.
  Proof.
    induction l as [|[k v] r IH]; intros m Hs; [exact Hs|].
    unfold ins_all. cbn [fold_left]. apply IH. apply sortedb_ins. exact Hs.
  Qed.

  (** two sorted maps with the same lookups are equal *)
  Lemma sorted_ext : forall m1 m2, sortedb m1 = true -> sortedb m2 = true ->
    (forall k, get k m1 = get k m2) -> m1 = m2.
  Proof.
    induction m1 as [|[k1 v1] r1 IH]; intros m2 H1 H2 Hext.
    - destruct m2 as [|[k2 v2] r2]; [reflexivity|].
      specialize (Hext k2). cbn in Hext. rewrite Nat.eqb_refl in Hext. discriminate.
    - destruct m2 as [|[k2 v2] r2].
      + specialize (Hext k1). cbn in Hext. rewrite Nat.eqb_refl in Hext. discriminate.
      + apply sortedb_cons in H1. destruct H1 as [Hs1 Ha1].
        apply sortedb_cons in H2. destruct H2 as [Hs2 Ha2].
        assert (k1 = k2).
        { destruct (Nat.lt_trichotomy k1 k2) as [L | [E | L]]; [|exact E|].
          - specialize (Hext k1). cbn [get] in Hext. rewrite Nat.eqb_refl in Hext.
            destruct (k1 =? k2) eqn:E; [apply Nat.eqb_eq in E; lia|].
            rewrite get_above in Hext; [discriminate|]. intros k' v' Hin. specialize (Ha2 _ _ Hin). lia.
          - specialize (Hext k2). cbn [get] in Hext. rewrite Nat.eqb_refl in Hext.
            destruct (k2 =? k1) eqn:E; [apply Nat.eqb_eq in E; lia|].
            rewrite get_above in Hext; [discriminate|]. intros k' v' Hin. specialize (Ha1 _ _ Hin). lia. }
        subst k2.
        assert (v1 = v2).
        { specialize (Hext k1). cbn [get] in Hext. rewrite Nat.eqb_refl in Hext. inversion Hext. reflexivity. }
        subst v2. f_equal. apply IH; [exact Hs1 | exact Hs2|].
        intros k. specialize (Hext k). cbn [get] in Hext. destruct (k =? k1) eqn:E; [|exact Hext].
        apply Nat.eqb_eq in E. subst k. rewrite (get_above r1), (get_above r2); [reflexivity | exact Ha2 | exact Ha1].
  Qed.

  (* ---- filter *)
  Lemma sortedb_filter : forall (p : nat * V -> bool) m, sortedb m = true -> sortedb (filter p m) = true.
  Proof.
    intros p. induction m as [|[k v] r IH]; intros Hs; [reflexivity|].
    apply sortedb_cons in Hs. destruct Hs as [Hs Hall]. cbn [filter]. destruct (p (k, v)); [|exact (IH Hs)].
    apply sortedb_cons. split; [exact (IH Hs)|]. intros k' v' Hin. apply filter_In in Hin. destruct Hin as [Hin _]. exact (Hall _ _ Hin).
  Qed.

  Lemma get_filter_key : forall (p : nat -> bool) m k, sortedb m = true ->
    get k (filter (fun kv => p (fst kv)) m) = if p k then get k m else None.
  Proof.
    intros p. induction m as [|[k1 v1] r IH]; intros k Hs.
    - cbn. destruct (p k); reflexivity.
    - apply sortedb_cons in Hs. destruct Hs as [Hs Hall]. cbn [filter fst]. destruct (p k1) eqn:P1.
      + cbn [get]. destruct (k =? k1) eqn:E.
        * apply Nat.eqb_eq in E. subst. rewrite P1. reflexivity.
        * exact (IH _ Hs).
      + rewrite (IH _ Hs). cbn [get]. destruct (k =? k1) eqn:E; [|reflexivity].
        apply Nat.eqb_eq in E. subst. rewrite P1. reflexivity.
  Qed.

  (* ---- keys *)
  Lemma sortedb_nodup_keys : forall m, sortedb m = true -> NoDup (map fst m).
  Proof.
    induction m as [|[k v] r IH]; intros Hs; [constructor|].
    apply sortedb_cons in Hs. destruct Hs as [Hs Hall]. cbn. constructor; [|exact (IH Hs)].
    intro Hin. apply in_map_iff in Hin. destruct Hin as [[k' v'] [E Hin]]. cbn in E. subst k'. specialize (Hall _ _ Hin). lia.
  Qed.

  Lemma mem_get : forall k m, mem k m = match get k m with Some _ => true | None => false end.
  Proof. reflexivity. Qed.
End Facts.

(** sortedness only depends on the keys *)
Lemma sortedb_map_keys : forall (A B : Type) (m : list (nat * A)) (m' : list (nat * B)),
  map fst m = map fst m' -> sortedb m = sortedb m'.
Proof.
  intros A B. induction m as [|[k v] r IH]; intros [|[k' v'] r'] H; try discriminate; [reflexivity|].
  cbn in H. inversion H; subst. specialize (IH _ H2).
  destruct r as [|[k1 v1] r1]; destruct r' as [|[k1' v1'] r1']; try discriminate; [reflexivity|].
  cbn in H2. inversion H2; subst.
  change (((k' <? k1') && sortedb ((k1', v1) :: r1)) = ((k' <? k1') && sortedb ((k1', v1') :: r1'))).
  rewrite IH. reflexivity.
Qed.

Lemma sortedb_map_vals : forall (A B : Type) (f : nat * A -> B) (m : list (nat * A)),
  sortedb (map (fun kv => (fst kv, f kv)) m) = sortedb m.
Proof.
  intros. apply sortedb_map_keys. rewrite map_map. cbn. reflexivity.
Qed.

Lemma of_list_map_vals : forall (A B : Type) (f : nat * A -> B) (m : list (nat * A)),
  sortedb m = true -> of_list (map (fun kv => (fst kv, f kv)) m) = map (fun kv => (fst kv, f kv)) m.
Proof. intros. apply of_list_sorted. rewrite sortedb_map_vals. assumption. Qed.

(** key sets *)
Lemma kset_of_sorted : forall s, ksortedb s = true -> kset_of s = s.
Proof.
  intros s H. unfold kset_of.
  assert (G : forall l pre, ksortedb (pre ++ l) = true -> fold_left (fun acc k => kins k acc) l pre = pre ++ l).
  { induction l as [|k r IH]; intros pre Hs.
    - cbn. rewrite app_nil_r. reflexivity.
    - cbn [fold_left]. unfold kins at 2.
      unfold ksortedb in Hs. rewrite map_app in Hs. cbn [map] in Hs.
      rewrite (ins_below (map (fun x => (x, tt)) pre) k tt (sortedb_app_below _ _ _ _ Hs)).
      rewrite map_app, map_map. cbn [map fst]. rewrite map_id.
      rewrite IH; rewrite <- app_assoc; cbn [app]; [reflexivity|].
      unfold ksortedb. rewrite map_app. cbn [map]. exact Hs. }
  exact (G s [] H).
Qed.
