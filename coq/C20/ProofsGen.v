(** C20 — ITERATED round trips (export -> import -> export -> import …) and the epochs validator.

    A chain started from an export is itself a chain whose state may be exported "at any height".  The import
    re-bases every epoch's start height to the InitChain height, which is 0 for a genesis without initial height;
    so states with started epochs at height 0 are reachable, and genesis validation must accept them. *)
From Coq Require Import List Bool Arith ZArith Lia.
Import ListNotations.
Require Import Nib.C20.SMapDef Nib.C20.SMapFacts Nib.C20.Model Nib.C20.Eqdec Nib.C20.Spec Nib.C20.Shape Nib.C20.WfB Nib.C20.Check Nib.C20.Proofs.

Lemma rebase_gen_idem : forall h h2 g, rebase_gen h2 (rebase_gen h g) = rebase_gen h2 g.
Proof. intros h h2 g. unfold rebase_gen. cbn. f_equal. rewrite map_map. reflexivity. Qed.

(* ---- epochs *)
Lemma epochs_import_wf : forall empty h s, (0 <= h)%Z -> wf_epochs empty s -> wf_epochs empty (map (rb h) s).
Proof.
  intros empty h s Hh [Hs Hk Hst Hv]. constructor.
  - unfold rb. rewrite (sortedb_map_vals _ _ (fun kv => rebase_epoch h (snd kv))). exact Hs.
  - apply (keys_match_map_vals _ ep_id (fun kv => rebase_epoch h (snd kv))); [reflexivity | exact Hk].
  - intros k e Hin. apply in_map_iff in Hin. destruct Hin as [[k0 e0] [E Hin]]. unfold rb in E. cbn in E. inversion E; subst. cbn. exact (Hst _ _ Hin).
  - intros k e Hin. apply in_map_iff in Hin. destruct Hin as [[k0 e0] [E Hin]]. unfold rb in E. cbn in E. inversion E; subst.
    pose proof (Hv _ _ Hin) as V. unfold epoch_valid in *. cbn [rebase_epoch ep_id ep_dur ep_height ep_started] in *.
    apply andb_true_iff in V. destruct V as [V _]. apply andb_true_iff in V. destruct V as [V _].
    rewrite V. apply Z.leb_le in Hh. rewrite Hh. reflexivity.
Qed.

(** export ∘ init is idempotent on every epochs state reachable by iterating it: the state imported at ANY height
    [h] >= 0 (0 included) is well-formed again, so its export is accepted at the next import, which yields the same
    epochs re-based to the new height. *)
Lemma epochs_export_init_idempotent : forall empty h t h2 t2 s, (0 <= h)%Z -> wf_epochs empty s ->
  exists s', init_epochs EpValNonneg empty h t (export_epochs s) = Some s' /\ wf_epochs empty s' /\
             init_epochs EpValNonneg empty h2 t2 (export_epochs s') = Some (map (rb h2) s) /\
             export_epochs (map (rb h2) s) = map (rebase_epoch h2) (export_epochs s).
Proof.
  intros empty h t h2 t2 s Hh W. exists (map (rb h) s).
  split; [exact (epochs_init_export empty h t s W)|].
  pose proof (epochs_import_wf empty h s Hh W) as W'. split; [exact W'|]. split.
  - rewrite (epochs_init_export empty h2 t2 _ W'). f_equal. rewrite map_map. apply map_ext. intros [k e]. reflexivity.
  - unfold export_epochs. rewrite !map_map. reflexivity.
Qed.

(** the validator "a counting epoch must have a positive start height": a chain imported at height 0 holds exactly
    such epochs; ITS export fails validation — the module discards the error and the next chain has no epochs *)
Definition ep_witness : epochs_st :=
  [(1, {| ep_id := 1; ep_start := 1000%Z; ep_dur := 60%Z; ep_cur := 7%Z; ep_cstart := 1420%Z; ep_started := true; ep_height := 5%Z |})].

Lemma epochs_height_zero_invalid_refuted :
  let r := EpValPositiveWhenStarted in
  let w' := map (rb 0%Z) ep_witness in
  wf_epochs 0 ep_witness /\
  init_epochs r 0 0%Z 2000%Z (export_epochs ep_witness) = Some w' /\          (* first generation: fine *)
  export_epochs w' = map (rebase_epoch 0%Z) (export_epochs ep_witness) /\
  init_epochs r 0 0%Z 3000%Z (export_epochs w') = None /\                      (* second generation: rejected *)
  init_epochs_mod r true 0 0%Z 3000%Z (export_epochs w') = Some [] /\          (* … silently: no epochs at all *)
  init_epochs EpValNonneg 0 0%Z 3000%Z (export_epochs w') = Some w'.           (* the current validator accepts it *)
Proof.
  cbn zeta. split.
  - constructor; try reflexivity.
    + intros k e [E | []]. inversion E. reflexivity.
    + intros k e [E | []]. inversion E; subst. cbn. discriminate.
    + intros k e [E | []]. inversion E; subst. reflexivity.
  - vm_compute. repeat split; reflexivity.
Qed.

(** START TIMES.  Whatever the import time [t] is — before, at or after an epoch's scheduled start — and whether or not the
    epoch has begun counting, export ∘ init keeps the start_time (and every other field but the start height) of every
    stored definition: only a ZERO start_time would be filled in, and a stored epoch never has one. *)
Lemma epochs_init_keeps_start_time : forall empty h t s, wf_epochs empty s ->
  exists s', init_epochs EpValNonneg empty h t (export_epochs s) = Some s' /\
    forall k e, In (k, e) s ->
      exists e', In (k, e') s' /\ ep_start e' = ep_start e /\ ep_started e' = ep_started e /\ ep_cur e' = ep_cur e /\
                 ep_cstart e' = ep_cstart e /\ ep_dur e' = ep_dur e.
Proof.
  intros empty h t s W. exists (map (rb h) s). split; [exact (epochs_init_export empty h t s W)|].
  intros k e Hin. exists (rebase_epoch h e). split; [|cbn; auto].
  apply in_map_iff. exists (k, e). split; [reflexivity | exact Hin].
Qed.

(** the widened rule "… or not yet counting and scheduled before the import block time": a future-dated definition
    (start 5000, not started) exported before its date comes back unchanged when the import time is before (1000) or at
    (5000) its start, but with start_time := import time when the import happens after it (9000) *)
Definition ep_sched_witness : epochs_st :=
  [(1, {| ep_id := 1; ep_start := 5000%Z; ep_dur := 60%Z; ep_cur := 0%Z; ep_cstart := zero_time; ep_started := false; ep_height := 0%Z |})].

Lemma epochs_start_time_rewrite_refuted :
  let sr := EpStZeroOrPastUnstarted in
  wf_epochs 0 ep_sched_witness /\
  init_epochs_r sr EpValNonneg 0 7%Z 1000%Z (export_epochs ep_sched_witness) = Some (map (rb 7%Z) ep_sched_witness) /\
  init_epochs_r sr EpValNonneg 0 7%Z 5000%Z (export_epochs ep_sched_witness) = Some (map (rb 7%Z) ep_sched_witness) /\
  (exists s', init_epochs_r sr EpValNonneg 0 7%Z 9000%Z (export_epochs ep_sched_witness) = Some s' /\
              map (fun kv => ep_start (snd kv)) s' = [9000%Z] /\
              export_epochs s' <> map (rebase_epoch 7%Z) (export_epochs ep_sched_witness)) /\
  init_epochs EpValNonneg 0 7%Z 9000%Z (export_epochs ep_sched_witness) = Some (map (rb 7%Z) ep_sched_witness).
Proof.
  cbn zeta. split.
  - constructor; try reflexivity.
    + intros k e [E | []]. inversion E. reflexivity.
    + intros k e [E | []]. inversion E; subst. cbn. discriminate.
    + intros k e [E | []]. inversion E; subst. reflexivity.
  - split; [vm_compute; reflexivity|]. split; [vm_compute; reflexivity|]. split; [|vm_compute; reflexivity].
    eexists. split; [vm_compute; reflexivity|]. split; [reflexivity|]. vm_compute. discriminate.
Qed.

(* ---- the application, any number of generations *)
Lemma regen_roundtrip : forall c F env gens s, cfg_ok c = true -> wf_app F env s ->
  Forall (fun ht => (0 <= fst ht)%Z) gens ->
  exists g s', export_app env s = Some g /\ regen c F env gens s = Some s' /\ wf_app F env s' /\
               export_app env s' = Some (fold_left (fun acc ht => rebase_gen (fst ht) acc) gens g).
Proof.
  intros c F env gens. induction gens as [|[h t] rest IH]; intros s Hc W Hall.
  - destruct (state_equiv_strict c F env 0%Z 0%Z s Hc W) as (g & _ & Hg & _).
    exists g, s. cbn. split; [exact Hg|]. split; [reflexivity|]. split; [exact W | exact Hg].
  - inversion Hall as [|x l Hh Hrest]; subst. cbn [fst] in Hh.
    pose proof (proj2 (proj2 (cfg_ok_parts c Hc))) as Hep.
    destruct (app_roundtrip c F env h t s Hep (cfg_ok_start c Hc) W) as (g & s1 & H1 & H2 & H3 & _).
    destruct (state_equiv_strict c F env h t s Hc W) as (g' & s1' & H1' & H2' & H4).
    rewrite H1 in H1'. inversion H1'; subst g'. rewrite H2 in H2'. inversion H2'; subst s1'.
    pose proof (wf_after_import F env h t s s1 Hh W H4) as W1.
    destruct (IH s1 Hc W1 Hrest) as (g1 & sn & K1 & K2 & K3 & K4).
    rewrite H3 in K1. inversion K1; subst g1.
    exists g, sn. split; [exact H1|]. split; [cbn [regen]; rewrite H1, H2; exact K2|]. split; [exact K3|].
    cbn [fold_left fst]. exact K4.
Qed.

(** … so after any non-empty sequence of generations the export is the FIRST export with the epoch start heights
    re-based to the last import height, nothing else changed *)
Lemma last_cons_default : forall A (l : list A) (x d d' : A), last (x :: l) d = last (x :: l) d'.
Proof.
  intros A. induction l as [|y r IH]; intros x d d'; [reflexivity|].
  change (last (x :: y :: r) d) with (last (y :: r) d). change (last (x :: y :: r) d') with (last (y :: r) d'). apply IH.
Qed.

Lemma fold_rebase_last : forall (gens : list (Z * Z)) (h t : Z) g,
  fold_left (fun acc (ht : Z * Z) => rebase_gen (fst ht) acc) gens (rebase_gen h g) =
  rebase_gen (fst (last gens (h, t))) g.
Proof.
  induction gens as [|[h1 t1] r IH]; intros h t g; [reflexivity|].
  cbn [fold_left fst]. rewrite rebase_gen_idem. rewrite (IH h1 t1 g). destruct r as [|x r']; [reflexivity|].
  change (last ((h1, t1) :: x :: r') (h, t)) with (last (x :: r') (h, t)).
  rewrite (last_cons_default _ r' x (h1, t1) (h, t)). reflexivity.
Qed.

Lemma regen_export : forall c F env h t gens s, cfg_ok c = true -> wf_app F env s ->
  Forall (fun ht => (0 <= fst ht)%Z) ((h, t) :: gens) ->
  exists g s', export_app env s = Some g /\ regen c F env ((h, t) :: gens) s = Some s' /\ wf_app F env s' /\
               export_app env s' = Some (rebase_gen (fst (last gens (h, t))) g).
Proof.
  intros c F env h t gens s Hc W Hall.
  destruct (regen_roundtrip c F env ((h, t) :: gens) s Hc W Hall) as (g & s' & H1 & H2 & H3 & H4).
  exists g, s'. repeat (split; [assumption|]). rewrite H4. cbn [fold_left fst]. rewrite (fold_rebase_last gens h t g). reflexivity.
Qed.
