(** C20 — the x/devgas registry reached by HISTORIES of the message handlers.

    [wf_devgas] (sorted registry, keys = contract, both indexes derived, sanitised params, every stored fee share and
    the params accepted by genesis validation) is an INVARIANT of MsgRegisterFeeShare / MsgUpdateFeeShare /
    MsgCancelFeeShare / MsgUpdateParams for the current tree's rule [DgUpdKeep]; hence every registry reachable from a
    default-like genesis by any history of these messages (any strings, any senders, any wasm contract table)
    exports a section that InitGenesis accepts and restores exactly.  For the rule [DgUpdRemoveIfDeployer]
    ("a withdrawer equal to the deployer is removed") the statement is refuted by a three-step history. *)
From Coq Require Import List Bool Arith ZArith Lia.
Import ListNotations.
Require Import Nib.C20.SMapDef Nib.C20.SMapFacts Nib.C20.Model Nib.C20.Eqdec Nib.C20.Spec Nib.C20.Shape Nib.C20.WfB Nib.C20.Check Nib.C20.Proofs.

(** what the Go functions behind the tables guarantee: re-encoding a parsed address gives a string that parses;
    Sanitize is the identity on params that Validate accepts (it only replaces an empty denom list by the empty default) *)
Record funs_dg_ok (F : funs) : Prop := {
  fo_canon : forall k, f_addr_ok F k = true -> f_addr_ok F (f_canon F k) = true;
  fo_san : forall p, f_dgp_ok F p = true -> f_dgsan F p = p
}.

(* ---- sorted maps: deletion *)
Lemma in_del : forall V (m : smap V) c k v, In (k, v) (del c m) -> In (k, v) m.
Proof.
  intros V. induction m as [|[k' v'] r IH]; intros c k v Hin; [destruct Hin|].
  cbn [del] in Hin. destruct (c =? k'); [right; exact Hin|].
  destruct Hin as [E | Hin]; [left; exact E | right; exact (IH _ _ _ Hin)].
Qed.

Lemma sortedb_del : forall V (m : smap V) c, sortedb m = true -> sortedb (del c m) = true.
Proof.
  intros V. induction m as [|[k' v'] r IH]; intros c Hs; [reflexivity|].
  cbn [del]. destruct (c =? k'); [exact (sortedb_tail _ _ Hs)|].
  apply sortedb_cons in Hs. destruct Hs as [Hs Hall]. apply sortedb_cons. split; [exact (IH c Hs)|].
  intros k v Hin. exact (Hall k v (in_del _ _ _ _ _ Hin)).
Qed.

(* ---- the invariant is kept by writing a valid share / deleting one / replacing the params *)
Lemma dg_with_shares_wf : forall F s shares,
  wf_devgas F s -> sortedb shares = true -> keys_match fs_contract shares ->
  (forall k f, In (k, f) shares -> fs_valid F f = true) ->
  wf_devgas F (dg_with_shares s shares).
Proof.
  intros F s shares [_ _ _ _ Hsan _ Hp] Hs Hk Hv. constructor; cbn [dg_with_shares dg_shares dg_idx_dep dg_idx_wd dg_params]; auto.
Qed.

Lemma dg_put_wf : forall F f s, wf_devgas F s -> fs_valid F f = true -> wf_devgas F (dg_put f s).
Proof.
  intros F f s W Hf. unfold dg_put. apply dg_with_shares_wf; [exact W | | |].
  - apply sortedb_ins. exact (wd_sorted _ _ W).
  - intros k v Hin. apply in_ins in Hin. destruct Hin as [[E1 E2] | Hin]; [subst; reflexivity | exact (wd_keys _ _ W k v Hin)].
  - intros k v Hin. apply in_ins in Hin. destruct Hin as [[E1 E2] | Hin]; [subst; exact Hf | exact (wd_valid _ _ W k v Hin)].
Qed.

Lemma dg_delete_wf : forall F c s, wf_devgas F s -> wf_devgas F (dg_delete c s).
Proof.
  intros F c s W. unfold dg_delete. apply dg_with_shares_wf; [exact W | | |].
  - apply sortedb_del. exact (wd_sorted _ _ W).
  - intros k v Hin. exact (wd_keys _ _ W k v (in_del _ _ _ _ _ Hin)).
  - intros k v Hin. exact (wd_valid _ _ W k v (in_del _ _ _ _ _ Hin)).
Qed.

Ltac dg_case H :=
  match type of H with
  | (if negb ?b then _ else _) = _ => let E := fresh "E" in destruct b eqn:E; cbn [negb] in H; [|discriminate H]
  | (if ?b then _ else _) = _ => let E := fresh "E" in destruct b eqn:E
  | match ?x with Some _ => _ | None => _ end = _ => let E := fresh "E" in destruct x eqn:E; [|discriminate H]
  end.

Lemma dg_register_wf : forall F W s c d w s', funs_dg_ok F -> wf_devgas F s ->
  dg_register F W s c d w = Some s' -> wf_devgas F s'.
Proof.
  intros F W s c d w s' [Hc _] Wf H. unfold dg_register in H.
  dg_case H. dg_case H. dg_case H; [discriminate H|]. dg_case H. dg_case H. dg_case H.
  dg_case H.
  - dg_case H; [|discriminate H]. inversion H; subst s'. apply dg_put_wf; [exact Wf|].
    unfold fs_valid. cbn [fs_contract fs_deployer fs_withdrawer]. rewrite !Hc by assumption. reflexivity.
  - dg_case H; [|discriminate H]. inversion H; subst s'. apply dg_put_wf; [exact Wf|].
    unfold fs_valid. cbn [fs_contract fs_deployer fs_withdrawer]. rewrite !Hc by assumption. reflexivity.
Qed.

Lemma dg_update_keep_wf : forall F W s c d w s', funs_dg_ok F -> wf_devgas F s ->
  dg_update DgUpdKeep F W s c d w = Some s' -> wf_devgas F s'.
Proof.
  intros F W s c d w s' [Hc _] Wf H. unfold dg_update in H.
  dg_case H. dg_case H. dg_case H. dg_case H; [discriminate H|]. dg_case H. dg_case H.
  inversion H; subst s'. apply dg_put_wf; [exact Wf|].
  match goal with E : get _ (dg_shares s) = Some ?fs |- _ =>
    pose proof (wd_valid _ _ Wf _ _ (get_some_in _ _ _ E)) as Hv end.
  unfold fs_valid in *. cbn [fs_contract fs_deployer fs_withdrawer].
  apply andb_true_iff in Hv. destruct Hv as [Hv _]. rewrite Hv. rewrite Hc by assumption. reflexivity.
Qed.

Lemma dg_cancel_wf : forall F W s c d s', wf_devgas F s -> dg_cancel F W s c d = Some s' -> wf_devgas F s'.
Proof.
  intros F W s c d s' Wf H. unfold dg_cancel in H.
  dg_case H. dg_case H. dg_case H. dg_case H; [|discriminate H]. inversion H; subst s'. apply dg_delete_wf. exact Wf.
Qed.

Lemma dg_set_params_wf : forall F s a p s', funs_dg_ok F -> wf_devgas F s -> dg_set_params F s a p = Some s' -> wf_devgas F s'.
Proof.
  intros F s a p s' [_ Hsan] [Hs Hk Hd Hw _ Hv _] H. unfold dg_set_params in H.
  destruct (a && f_dgp_ok F p) eqn:E; [|discriminate H]. apply andb_true_iff in E. destruct E as [_ E].
  inversion H; subst s'. constructor; cbn [dg_shares dg_idx_dep dg_idx_wd dg_params]; auto.
Qed.

(** every message handler keeps the invariant, whatever it is sent and whoever sends it *)
Lemma dg_step_wf : forall F ws op, funs_dg_ok F -> wf_devgas F (snd ws) ->
  wf_devgas F (snd (fst (dg_step DgUpdKeep F ws op))).
Proof.
  intros F ws op Hf Wf. unfold dg_step. destruct (dg_handle DgUpdKeep F ws op) as [s'|] eqn:E; cbn [fst snd]; [|exact Wf].
  destruct op; cbn [dg_handle] in E.
  - inversion E; subst s'. exact Wf.
  - exact (dg_register_wf _ _ _ _ _ _ _ Hf Wf E).
  - exact (dg_update_keep_wf _ _ _ _ _ _ _ Hf Wf E).
  - exact (dg_cancel_wf _ _ _ _ _ _ Wf E).
  - exact (dg_set_params_wf _ _ _ _ _ Hf Wf E).
Qed.

Lemma dg_run_wf : forall F ops ws, funs_dg_ok F -> wf_devgas F (snd ws) ->
  wf_devgas F (snd (dg_run DgUpdKeep F ops ws)).
Proof.
  intros F. induction ops as [|op r IH]; intros ws Hf Wf; [exact Wf|].
  unfold dg_run. cbn [fold_left]. apply IH; [exact Hf|]. exact (dg_step_wf F ws op Hf Wf).
Qed.

Lemma dg_genesis_wf : forall F p, funs_dg_ok F -> f_dgp_ok F p = true -> wf_devgas F (dg_genesis p).
Proof.
  intros F p [_ Hsan] Hp. constructor; cbn; auto. intros k f [].
Qed.

(** THE REACHABLE-STATE STATEMENT for x/devgas: after ANY history of wasm instantiations / admin changes and
    registry messages, starting from a well-formed registry (in particular a default-like genesis), the exported
    section passes genesis validation and InitGenesis restores the registry exactly (shares, both indexes, params). *)
Lemma devgas_history_roundtrip : forall F ops W0 s0, funs_dg_ok F -> wf_devgas F s0 ->
  let s := snd (dg_run DgUpdKeep F ops (W0, s0)) in
  wf_devgas F s /\ init_devgas F (export_devgas s) = Some s.
Proof.
  intros F ops W0 s0 Hf Wf s.
  assert (Ws : wf_devgas F s) by (exact (dg_run_wf F ops (W0, s0) Hf Wf)).
  split; [exact Ws | exact (devgas_roundtrip F s Ws)].
Qed.

Lemma devgas_history_from_genesis : forall F ops p, funs_dg_ok F -> f_dgp_ok F p = true ->
  let s := snd (dg_run DgUpdKeep F ops ([], dg_genesis p)) in
  init_devgas F (export_devgas s) = Some s.
Proof.
  intros F ops p Hf Hp s. exact (proj2 (devgas_history_roundtrip F ops [] (dg_genesis p) Hf (dg_genesis_wf F p Hf Hp))).
Qed.

(** … composed with the other six modules: running any registry history on a well-formed application state gives a
    well-formed application state, to which the composed round-trip theorem applies. *)
Definition with_devgas (s : app_st) (d : devgas_st) : app_st :=
  {| a_sudo := a_sudo s; a_infl := a_infl s; a_epochs := a_epochs s; a_oracle := a_oracle s; a_tf := a_tf s;
     a_devgas := d; a_evm := a_evm s |}.

Lemma app_wf_after_devgas_history : forall F env s ops W0, funs_dg_ok F -> wf_app F env s ->
  wf_app F env (with_devgas s (snd (dg_run DgUpdKeep F ops (W0, a_devgas s)))).
Proof.
  intros F env s ops W0 Hf W.
  pose proof (dg_run_wf F ops (W0, a_devgas s) Hf (wa_devgas _ _ _ W)) as Wd.
  destruct W. constructor; cbn [with_devgas a_sudo a_infl a_epochs a_oracle a_tf a_devgas a_evm]; assumption.
Qed.

Lemma app_roundtrip_after_devgas_history : forall c F env h t s ops W0, cfg_ok c = true -> funs_dg_ok F -> wf_app F env s ->
  let s1 := with_devgas s (snd (dg_run (c_dg_upd c) F ops (W0, a_devgas s))) in
  exists g s', export_app env s1 = Some g /\ init_app c F env (tf_bankmd (a_tf s1)) h t g = Some s' /\
               state_equiv false false env h t s1 s'.
Proof.
  intros c F env h t s ops W0 Hc Hf W s1.
  assert (Hr : c_dg_upd c = DgUpdKeep).
  { exact (proj1 (proj2 (cfg_ok_parts c Hc))). }
  subst s1. rewrite Hr.
  exact (state_equiv_strict c F env h t _ Hc (app_wf_after_devgas_history F env s ops W0 Hf W)).
Qed.

(* ---- refutation for the variant rule *)
Definition dg_funs : funs :=
  {| f_hash := fun _ => 0; f_code_empty := fun _ => false; f_ftid := fun _ _ => 0;
     f_tfparse := fun _ => (0, 0); f_tfdefmd := fun _ => 0; f_dgsan := fun p => p; f_pairjson := fun p => p;
     f_addr_ok := fun k => negb (k =? 0); f_canon := fun k => k; f_dgp_ok := fun _ => true; f_dgp_enabled := fun _ => true;
     f_gov := 1; f_empty := 0 |}.

Lemma dg_funs_ok : funs_dg_ok dg_funs.
Proof. constructor; cbn; auto. Qed.

(** contract 5 instantiated by 6 without admin; 6 registers it with the separate withdrawer 7; later 6 points the
    withdrawer back to itself *)
Definition dg_back_to_deployer : list dg_op :=
  [DWasm 5 {| wi_admin := None; wi_creator := 6 |}; DRegister 5 6 7; DUpdate 5 6 6].

Lemma dg_back_to_deployer_kept :
  let s := snd (dg_run DgUpdKeep dg_funs dg_back_to_deployer ([], dg_genesis 9)) in
  dg_shares s = [(5, {| fs_contract := 5; fs_deployer := 6; fs_withdrawer := 6 |})] /\
  init_devgas dg_funs (export_devgas s) = Some s.
Proof. vm_compute. split; reflexivity. Qed.

(** if MsgUpdateFeeShare "removes" a withdrawer that equals the deployer (stores the empty string), the same history
    — every message of which succeeds — reaches a registry whose export is REJECTED by genesis validation: a fresh
    chain cannot start from it. *)
Lemma dg_update_removes_withdrawer_refuted :
  let r := DgUpdRemoveIfDeployer in
  let ws := dg_run r dg_funs dg_back_to_deployer ([], dg_genesis 9) in
  dg_replay r dg_funs (map (fun op => (op, true)) dg_back_to_deployer) ([], dg_genesis 9) = Some ws /\
  dg_shares (snd ws) = [(5, {| fs_contract := 5; fs_deployer := 6; fs_withdrawer := f_empty dg_funs |})] /\
  init_devgas dg_funs (export_devgas (snd ws)) = None /\
  wf_devgasb dg_funs (snd ws) = false.
Proof. vm_compute. repeat split; reflexivity. Qed.

Lemma dg_history_nonvacuous :
  funs_dg_ok dg_funs /\ f_dgp_ok dg_funs 9 = true /\
  dg_shares (snd (dg_run DgUpdKeep dg_funs
     [DWasm 5 {| wi_admin := None; wi_creator := 6 |}; DWasm 8 {| wi_admin := Some 1; wi_creator := 6 |};
      DRegister 5 6 7; DRegister 8 7 8; DUpdate 5 6 6; DCancel 5 6; DRegister 5 6 0; DRegister 5 6 6; DParams true 4]
     ([], dg_genesis 9)))
  = [(5, {| fs_contract := 5; fs_deployer := 6; fs_withdrawer := 6 |}); (8, {| fs_contract := 8; fs_deployer := 8; fs_withdrawer := 8 |})].
Proof. split; [exact dg_funs_ok|]. split; vm_compute; reflexivity. Qed.

(** boolean form of [funs_dg_ok] on the finite tables of a case *)
Lemma funs_dg_okb_sound : forall F ks ps, funs_dg_okb F ks ps = true ->
  (forall k, In k ks -> f_addr_ok F k = true -> f_addr_ok F (f_canon F k) = true) /\
  (forall p, In p ps -> f_dgp_ok F p = true -> f_dgsan F p = p).
Proof.
  intros F ks ps H. unfold funs_dg_okb in H. apply andb_true_iff in H. destruct H as [H1 H2].
  rewrite forallb_forall in H1, H2. split.
  - intros k Hin Hk. specialize (H1 k Hin). cbn beta in H1. rewrite Hk in H1. exact H1.
  - intros p Hin Hp. specialize (H2 p Hin). cbn beta in H2. rewrite Hp in H2. apply Nat.eqb_eq. exact H2.
Qed.
