(** C20 — what the generated facts (Gen/C20Facts.v) are stated in terms of, and the hand-written
    classification of every persistent collection of the seven custom keepers: each one is either
    carried by a GenesisState field, derived from collections that are, or on the explicit
    exception list of [Spec.exc]. *)
From Coq Require Import List Bool Arith String.
Import ListNotations.
Require Import Nib.C20.Model Nib.C20.Spec.
Open Scope string_scope.

(** a [collections.New…] call found in a keeper: module, constructor, namespace number, transient?,
    informational: Go name it is bound to and the namespace expression *)
Record coll := { cl_module : string; cl_ctor : string; cl_ns : nat; cl_transient : bool; cl_name : string; cl_nsexpr : string }.

Record modfacts := {
  mf_module : string;
  mf_genesis_fields : list string;     (* fields of the GenesisState proto struct (.pb.go) *)
  mf_init_reads : list string;         (* GenesisState fields InitGenesis reads *)
  mf_export_writes : list string;      (* GenesisState fields ExportGenesis fills *)
  (* collections (by the Go field name the generated [coll] carries) that InitGenesis stores into /
     ExportGenesis loads from, directly or through module functions it calls *)
  mf_init_stores : list string;
  mf_export_loads : list string
}.

Inductive cls :=
| Carried (field : string)                    (* exported into / imported from this GenesisState field *)
| CarriedExcept (field : string) (e : exc)    (* same, except for the named exception *)
| DerivedFrom (ns : nat)                      (* index key space of the collection with that namespace *)
| Rederived (e : exc)                         (* not exported; rebuilt by InitGenesis as the exception says *)
| Replaced (e : exc).                         (* not exported; replaced by InitGenesis as the exception says *)

(** module, namespace, constructor, classification *)
Definition classification : list (string * nat * string * cls) := [
  ("evm", 1, "NewMap", CarriedExcept "Accounts" ExOrphanCode);          (* ContractBytecode *)
  ("evm", 2, "NewMap", CarriedExcept "Accounts" ExCodelessStorage);     (* AccState *)
  ("evm", 3, "NewItem", Carried "Params");
  ("evm", 5, "NewIndexedMap", Carried "FuntokenMappings");
  ("evm", 6, "NewMultiIndex", DerivedFrom 5);
  ("evm", 7, "NewMultiIndex", DerivedFrom 5);
  ("oracle", 11, "NewItem", Carried "Params");
  ("oracle", 1, "NewMap", CarriedExcept "ExchangeRates" ExRateStamp);
  ("oracle", 10, "NewMap", Replaced ExSnapshots);
  ("oracle", 2, "NewMap", Carried "FeederDelegations");
  ("oracle", 3, "NewMap", Carried "MissCounters");
  ("oracle", 4, "NewMap", Carried "AggregateExchangeRatePrevotes");
  ("oracle", 5, "NewMap", Carried "AggregateExchangeRateVotes");
  ("oracle", 6, "NewKeySet", Carried "Pairs");
  ("oracle", 7, "NewMap", Carried "Rewards");
  ("oracle", 9, "NewSequence", Rederived ExRewardsIdRederived);
  ("inflation", 0, "NewSequence", CarriedExcept "Period" ExSequenceDefault);
  ("inflation", 1, "NewSequence", CarriedExcept "SkippedEpochs" ExSequenceDefault);
  ("inflation", 2, "NewItem", Carried "Params");
  ("epochs", 1, "NewMap", CarriedExcept "Epochs" ExEpochStartHeight);
  ("sudo", 1, "NewItem", Carried "Sudoers");
  ("tokenfactory", 1, "NewIndexedMap", Carried "FactoryDenoms");
  ("tokenfactory", 5, "NewMultiIndex", DerivedFrom 1);
  ("tokenfactory", 3, "NewItem", Carried "Params");
  ("tokenfactory", 2, "NewKeySet", DerivedFrom 1);
  ("tokenfactory", 4, "NewMap", Carried "FactoryDenoms");
  ("devgas", 1, "NewIndexedMap", Carried "FeeShare");
  ("devgas", 2, "NewMultiIndex", DerivedFrom 1);
  ("devgas", 3, "NewMultiIndex", DerivedFrom 1);
  ("devgas", 4, "NewItem", Carried "Params")
].

Definition cls_field (c : cls) : option string :=
  match c with Carried f | CarriedExcept f _ => Some f | _ => None end.

Definition classified (c : coll) : bool :=
  existsb (fun e => match e with (m, ns, ctor, _) =>
     String.eqb m (cl_module c) && Nat.eqb ns (cl_ns c) && String.eqb ctor (cl_ctor c) end) classification.

Definition find_mod (m : string) (fs : list modfacts) : option modfacts :=
  find (fun x => String.eqb (mf_module x) m) fs.
Definition in_s (s : string) (l : list string) : bool := existsb (String.eqb s) l.

(** 1. every persistent collection a keeper declares is classified (a NEW one is not) *)
Definition all_collections_classified (cs : list coll) : bool :=
  forallb (fun c => cl_transient c || classified c) cs.
(** 2. every classified collection still exists, with the same constructor and namespace *)
Definition classification_current (cs : list coll) : bool :=
  forallb (fun e => match e with (m, ns, ctor, _) =>
     existsb (fun c => String.eqb m (cl_module c) && Nat.eqb ns (cl_ns c) && String.eqb ctor (cl_ctor c) && negb (cl_transient c)) cs end)
    classification.
(** 3. the genesis field a collection is carried by exists, is filled by ExportGenesis and read by InitGenesis *)
Definition carriers_wired (fs : list modfacts) : bool :=
  forallb (fun e => match e with (m, _, _, c) =>
     match cls_field c with
     | None => true
     | Some f => match find_mod m fs with
                 | Some x => in_s f (mf_genesis_fields x) && in_s f (mf_init_reads x) && in_s f (mf_export_writes x)
                 | None => false
                 end
     end end) classification.
(** 4. every GenesisState field is written by export, read by init, and carries some collection *)
Definition fields_all_used (fs : list modfacts) : bool :=
  forallb (fun x =>
    forallb (fun f => in_s f (mf_init_reads x) && in_s f (mf_export_writes x) &&
       existsb (fun e => match e with (m, _, _, c) =>
          String.eqb m (mf_module x) && match cls_field c with Some g => String.eqb g f | None => false end end) classification)
      (mf_genesis_fields x)) fs.
(** 5. the collection itself: a carried collection is loaded by ExportGenesis and stored by InitGenesis;
    a re-derived / replaced one (and a derived key set) is stored by InitGenesis.  Collections are
    matched by (module, namespace); the Go names come from the generated facts, so a rename is harmless. *)
Definition coll_name (cs : list coll) (m : string) (ns : nat) : option string :=
  match find (fun c => String.eqb m (cl_module c) && Nat.eqb ns (cl_ns c) && negb (cl_transient c)) cs with
  | Some c => Some (cl_name c) | None => None end.
Definition collections_wired (cs : list coll) (fs : list modfacts) : bool :=
  forallb (fun e => match e with (m, ns, ctor, c) =>
     match coll_name cs m ns, find_mod m fs with
     | Some n, Some x =>
         match c with
         | Carried _ | CarriedExcept _ _ => in_s n (mf_init_stores x) && in_s n (mf_export_loads x)
         | Rederived _ | Replaced _ => in_s n (mf_init_stores x)
         | DerivedFrom _ => String.eqb ctor "NewMultiIndex" || in_s n (mf_init_stores x)
         end
     | _, _ => false
     end end) classification.

Definition modules_complete (fs : list modfacts) : bool :=
  forallb (fun m => match find_mod m fs with Some _ => true | None => false end)
    ["evm"; "oracle"; "inflation"; "epochs"; "sudo"; "tokenfactory"; "devgas"].

Definition shape_ok (cs : list coll) (fs : list modfacts) : bool :=
  all_collections_classified cs && classification_current cs && carriers_wired fs && fields_all_used fs &&
  collections_wired cs fs && modules_complete fs.

(** raw-KV view: store order used by the harness, and the namespaces whose raw bytes may differ
    across the round trip (exactly the collections classified with an exception) *)
Definition store_names : list string := ["evm"; "oracle"; "inflation"; "epochs"; "sudo"; "tokenfactory"; "devgas"].
Definition store_index (m : string) : nat :=
  (fix go (l : list string) (i : nat) := match l with [] => i | x :: r => if String.eqb x m then i else go r (S i) end) store_names 0.
Definition known_ns : list (nat * nat) := map (fun e => match e with (m, ns, _, _) => (store_index m, ns) end) classification.
Definition may_differ_ns : list (nat * nat) :=
  flat_map (fun e => match e with
     | (m, ns, _, CarriedExcept _ ExSequenceDefault) => []     (* same bytes unless the sequence was unset *)
     | (m, ns, _, CarriedExcept _ _) | (m, ns, _, Rederived _) | (m, ns, _, Replaced _) => [(store_index m, ns)]
     | _ => [] end) classification.
