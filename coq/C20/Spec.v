(** C20 — the property: what "re-imports to the same state" means, module by module.

    [gen_equiv h g g']   : a second export [g'] is identical to the first [g], except that every
                           epoch's start height is the import height [h].
    [state_equiv …]      : the imported state agrees with the original on every persistent
                           collection, except for the EXPLICIT list [tolerated] (each clause
                           below names the exception it implements).
    Boolean versions ([gen_equivb], [state_equivb]) are what is evaluated on implementation
    traces; [*_sound] lemmas tie them to the Props. *)
From Coq Require Import List Bool Arith ZArith Lia.
Import ListNotations.
Require Import Nib.C20.SMapDef Nib.C20.Model Nib.C20.Eqdec.

(** The explicit exception list (persistent data that the round trip does NOT reproduce). *)
Inductive exc :=
| ExEpochStartHeight      (* epochs: CurrentEpochStartHeight := import height (allowed by the property text) *)
| ExRateStamp             (* oracle ExchangeRates: CreatedBlock / BlockTimestampMs := import height / time *)
| ExSnapshots             (* oracle PriceSnapshots: replaced by one snapshot per exchange rate, at import time *)
| ExRewardsIdRederived    (* oracle RewardsID: not exported, re-derived from the last pending reward (must stay fresh) *)
| ExOrphanCode            (* evm ContractBytecode entries no EthAccount refers to (self-destructed contracts) are dropped *)
| ExCodelessStorage       (* evm AccState of accounts without bytecode (constructor returned empty code) is dropped *)
| ExSequenceDefault       (* inflation counters: an unset Sequence comes back set to its default 1 *)
| ExRewardsIdStale        (* DEFECT: RewardsID = id of the last pending reward (re-used by the next allocation) *)
| ExTfBankMetadataReset.  (* DEFECT: bank metadata of token-factory denoms reset to the default *)

Definition tolerated : list exc :=
  [ExEpochStartHeight; ExRateStamp; ExSnapshots; ExRewardsIdRederived; ExOrphanCode; ExCodelessStorage; ExSequenceDefault].

(** the exceptions the genesis code of a tree with facts [c] actually makes *)
Definition exceptions (c : cfg) : list exc :=
  tolerated
  ++ (match c_rid c with RidLastPlus1 => [] | _ => [ExRewardsIdStale] end)
  ++ (if c_tf_keeps_bank_md c then [] else [ExTfBankMetadataReset]).

Definition cfg_ok (c : cfg) : bool :=
  match c_rid c with RidLastPlus1 => c_tf_keeps_bank_md c && c_pair_json_id c | _ => false end &&
  match c_dg_upd c with DgUpdKeep => true | _ => false end &&
  match c_ep_val c with EpValNonneg => true | _ => false end &&
  match c_ep_start c with EpStZeroOnly => true | _ => false end.

(* ------------------------------------------------------------------ exports *)
Definition rebase_epoch (h : Z) (e : epoch) : epoch :=
  {| ep_id := ep_id e; ep_start := ep_start e; ep_dur := ep_dur e; ep_cur := ep_cur e;
     ep_cstart := ep_cstart e; ep_started := ep_started e; ep_height := h |}.

Definition rebase_gen (h : Z) (g : app_gen) : app_gen :=
  {| g_sudo := g_sudo g; g_infl := g_infl g; g_epochs := map (rebase_epoch h) (g_epochs g);
     g_oracle := g_oracle g; g_tf := g_tf g; g_devgas := g_devgas g; g_evm := g_evm g |}.

Definition gen_equiv (h : Z) (g g' : app_gen) : Prop := g' = rebase_gen h g.
Definition gen_equivb (h : Z) (g g' : app_gen) : bool := eqb_of app_gen_dec g' (rebase_gen h g).
Lemma gen_equivb_sound : forall h g g', gen_equivb h g g' = true -> gen_equiv h g g'.
Proof. intros h g g' H. exact (eqb_of_true _ _ _ _ H). Qed.

(* ------------------------------------------------------------------ states *)
Definition infl_equiv (s s' : infl_st) : Prop :=
  in_params s' = in_params s /\ peek (in_period s') = peek (in_period s) /\ peek (in_skipped s') = peek (in_skipped s).

Definition epochs_equiv (h : Z) (s s' : epochs_st) : Prop :=
  s' = map (fun kv => (fst kv, rebase_epoch h (snd kv))) s.

Definition restamp (h t : Z) (kv : key * rate) : key * rate :=
  (fst kv, {| r_rate := r_rate (snd kv); r_created := h; r_ts := t |}).
Definition snaps_of (t : Z) (rates : smap rate) : list snap :=
  map (fun kv => {| sn_pair := fst kv; sn_ts_key := t; sn_pair_f := fst kv; sn_price := r_rate (snd kv); sn_ts := t |}) rates.

(** every pending reward id is below the next id the sequence hands out *)
Definition rewards_fresh (s : oracle_st) : Prop :=
  forall k r, In (k, r) (o_rewards s) -> (k < peek (o_rewards_id s))%Z.
Definition rewards_freshb (s : oracle_st) : bool :=
  forallb (fun kr => Z.ltb (fst kr) (peek (o_rewards_id s))) (o_rewards s).

Definition oracle_equiv (stale_ok : bool) (h t : Z) (s s' : oracle_st) : Prop :=
  o_params s' = o_params s /\ o_whitelist s' = o_whitelist s /\ o_feeders s' = o_feeders s /\
  o_miss s' = o_miss s /\ o_prevotes s' = o_prevotes s /\ o_votes s' = o_votes s /\
  o_pairs s' = o_pairs s /\ o_rewards s' = o_rewards s /\
  o_rates s' = map (restamp h t) (o_rates s) /\            (* ExRateStamp *)
  o_snaps s' = snaps_of t (o_rates s') /\                  (* ExSnapshots *)
  (stale_ok = false -> rewards_fresh s -> rewards_fresh s').   (* ExRewardsIdRederived vs ExRewardsIdStale *)

Definition tf_equiv (reset_ok : bool) (s s' : tf_st) : Prop :=
  tf_params s' = tf_params s /\ tf_denoms s' = tf_denoms s /\ tf_creators s' = tf_creators s /\
  tf_admins s' = tf_admins s /\ tf_idx s' = tf_idx s /\
  (reset_ok = false -> tf_bankmd s' = tf_bankmd s).        (* ExTfBankMetadataReset *)

(** the contract accounts ExportGenesis emits: EthAccounts whose code hash has bytecode *)
Definition exported_acc (env : list authacc) (s : evm_st) (a : key) : bool :=
  existsb (fun x => (aa_addr x =? a) && aa_eth x && mem (aa_hash x) (ev_code s)) env.
Definition exported_hash (env : list authacc) (s : evm_st) (h : key) : bool :=
  existsb (fun x => (aa_hash x =? h) && aa_eth x) env.

Definition evm_equiv (env : list authacc) (s s' : evm_st) : Prop :=
  ev_params s' = ev_params s /\ ev_ft s' = ev_ft s /\
  ev_idx_erc20 s' = ev_idx_erc20 s /\ ev_idx_denom s' = ev_idx_denom s /\
  ev_code s' = filter (fun kv => exported_hash env s (fst kv)) (ev_code s) /\          (* ExOrphanCode *)
  ev_storage s' = filter (fun kv => exported_acc env s (fst kv)) (ev_storage s).       (* ExCodelessStorage *)

Definition state_equiv (stale_ok reset_ok : bool) (env : list authacc) (h t : Z) (s s' : app_st) : Prop :=
  a_sudo s' = a_sudo s /\ infl_equiv (a_infl s) (a_infl s') /\ epochs_equiv h (a_epochs s) (a_epochs s') /\
  oracle_equiv stale_ok h t (a_oracle s) (a_oracle s') /\ tf_equiv reset_ok (a_tf s) (a_tf s') /\
  a_devgas s' = a_devgas s /\ evm_equiv env (a_evm s) (a_evm s').

(* ---- boolean checker *)
Definition nat_eqb_l := eqb_of nat_list_dec.
Definition implb' (a b : bool) : bool := if a then b else true.

Definition infl_equivb (s s' : infl_st) : bool :=
  (in_params s' =? in_params s) && Z.eqb (peek (in_period s')) (peek (in_period s)) &&
  Z.eqb (peek (in_skipped s')) (peek (in_skipped s)).
Definition epochs_equivb (h : Z) (s s' : epochs_st) : bool :=
  eqb_of epochs_st_dec s' (map (fun kv => (fst kv, rebase_epoch h (snd kv))) s).
Definition oracle_equivb (stale_ok : bool) (h t : Z) (s s' : oracle_st) : bool :=
  (o_params s' =? o_params s) && nat_eqb_l (o_whitelist s') (o_whitelist s) &&
  eqb_of lnn_dec (o_feeders s') (o_feeders s) && eqb_of lnZ_dec (o_miss s') (o_miss s) &&
  eqb_of (list_eq_dec kvote_dec) (o_prevotes s') (o_prevotes s) && eqb_of (list_eq_dec kvote_dec) (o_votes s') (o_votes s) &&
  nat_eqb_l (o_pairs s') (o_pairs s) && eqb_of (list_eq_dec zreward_dec) (o_rewards s') (o_rewards s) &&
  eqb_of (list_eq_dec krate_dec) (o_rates s') (map (restamp h t) (o_rates s)) &&
  eqb_of (list_eq_dec snap_dec) (o_snaps s') (snaps_of t (o_rates s')) &&
  (stale_ok || implb' (rewards_freshb s) (rewards_freshb s')).
Definition tf_equivb (reset_ok : bool) (s s' : tf_st) : bool :=
  (tf_params s' =? tf_params s) && eqb_of (list_eq_dec kdenom_dec) (tf_denoms s') (tf_denoms s) &&
  nat_eqb_l (tf_creators s') (tf_creators s) && eqb_of lnn_dec (tf_admins s') (tf_admins s) &&
  eqb_of lnn_dec (tf_idx s') (tf_idx s) && (reset_ok || eqb_of lnn_dec (tf_bankmd s') (tf_bankmd s)).
Definition evm_equivb (env : list authacc) (s s' : evm_st) : bool :=
  (ev_params s' =? ev_params s) && eqb_of (list_eq_dec kfuntoken_dec) (ev_ft s') (ev_ft s) &&
  eqb_of lnn_dec (ev_idx_erc20 s') (ev_idx_erc20 s) && eqb_of lnn_dec (ev_idx_denom s') (ev_idx_denom s) &&
  eqb_of lnn_dec (ev_code s') (filter (fun kv => exported_hash env s (fst kv)) (ev_code s)) &&
  eqb_of storage_dec (ev_storage s') (filter (fun kv => exported_acc env s (fst kv)) (ev_storage s)).
Definition state_equivb (stale_ok reset_ok : bool) (env : list authacc) (h t : Z) (s s' : app_st) : bool :=
  eqb_of sudo_st_dec (a_sudo s') (a_sudo s) && infl_equivb (a_infl s) (a_infl s') &&
  epochs_equivb h (a_epochs s) (a_epochs s') && oracle_equivb stale_ok h t (a_oracle s) (a_oracle s') &&
  tf_equivb reset_ok (a_tf s) (a_tf s') && eqb_of devgas_st_dec (a_devgas s') (a_devgas s) &&
  evm_equivb env (a_evm s) (a_evm s').

Lemma rewards_freshb_iff : forall s, rewards_freshb s = true <-> rewards_fresh s.
Proof.
  intro s. unfold rewards_freshb, rewards_fresh. rewrite forallb_forall. split.
  - intros H k r Hin. specialize (H (k, r) Hin). cbn in H. apply Z.ltb_lt in H. exact H.
  - intros H [k r] Hin. cbn. apply Z.ltb_lt. exact (H k r Hin).
Qed.

Ltac split_andb :=
  repeat match goal with
         | H : _ && _ = true |- _ => apply andb_true_iff in H; destruct H
         end.
Ltac eqb_to_eq :=
  repeat match goal with
         | H : eqb_of _ _ _ = true |- _ => apply eqb_of_true in H
         | H : nat_eqb_l _ _ = true |- _ => apply eqb_of_true in H
         | H : (_ =? _) = true |- _ => apply Nat.eqb_eq in H
         | H : Z.eqb _ _ = true |- _ => apply Z.eqb_eq in H
         end.

Lemma infl_equivb_sound : forall s s', infl_equivb s s' = true -> infl_equiv s s'.
Proof. intros s s' H. unfold infl_equivb in H. split_andb. eqb_to_eq. unfold infl_equiv. auto. Qed.

Lemma oracle_equivb_sound : forall so h t s s', oracle_equivb so h t s s' = true -> oracle_equiv so h t s s'.
Proof.
  intros so h t s s' H. unfold oracle_equivb in H. split_andb. eqb_to_eq.
  unfold oracle_equiv. do 10 (split; [assumption|]).
  intros Hso Hf. subst so.
  match goal with H : false || _ = true |- _ => cbn in H; unfold implb' in H end.
  apply rewards_freshb_iff in Hf.
  match goal with H : (if rewards_freshb _ then _ else _) = true |- _ => rewrite Hf in H; apply rewards_freshb_iff in H; exact H end.
Qed.

Lemma tf_equivb_sound : forall ro s s', tf_equivb ro s s' = true -> tf_equiv ro s s'.
Proof.
  intros ro s s' H. unfold tf_equivb in H. split_andb. eqb_to_eq.
  unfold tf_equiv. do 5 (split; [assumption|]).
  intros Hro. subst ro.
  match goal with H : false || _ = true |- _ => cbn in H; apply eqb_of_true in H; exact H end.
Qed.

Lemma evm_equivb_sound : forall env s s', evm_equivb env s s' = true -> evm_equiv env s s'.
Proof.
  intros env s s' H. unfold evm_equivb in H. split_andb. eqb_to_eq.
  unfold evm_equiv. do 5 (split; [assumption|]). assumption.
Qed.

Lemma state_equivb_sound : forall so ro env h t s s',
  state_equivb so ro env h t s s' = true -> state_equiv so ro env h t s s'.
Proof.
  intros so ro env h t s s' H. unfold state_equivb in H. split_andb.
  unfold state_equiv.
  split; [eapply eqb_of_true; eassumption|].
  split; [apply infl_equivb_sound; assumption|].
  split; [unfold epochs_equivb in *; eapply eqb_of_true; eassumption|].
  split; [apply oracle_equivb_sound; assumption|].
  split; [apply tf_equivb_sound; assumption|].
  split; [eapply eqb_of_true; eassumption|].
  apply evm_equivb_sound; assumption.
Qed.

(* ------------------------------------------------------------------ well-formed states *)
Definition keys_match {V} (f : V -> key) (m : smap V) : Prop := forall k v, In (k, v) m -> f v = k.
