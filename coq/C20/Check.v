(** C20 — evaluation of implementation traces.
    [mismatch c k] : the model (with the regenerated genesis facts [c]) does not reproduce what the
                     implementation did: export of the dumped state ≠ observed export, or InitGenesis of
                     the observed export ≠ dumped imported state, or a raw namespace the model does not know,
                     or the dumped state is not well-formed (the hypothesis of the theorems).
    [violates k]   : the property predicate is false on the OBSERVED round trip. *)
From Coq Require Import List Bool Arith ZArith.
Import ListNotations.
Require Import Nib.C20.SMapDef Nib.C20.Model Nib.C20.Eqdec Nib.C20.Spec Nib.C20.Shape Nib.C20.WfB.

Record case := {
  k_import_ok : bool;            (* InitChain of the fresh app did not panic *)
  k_h : Z; k_t : Z;              (* import height / block time (ms) *)
  k_F : funs;                    (* oracle values: hashes, ids, parsed denoms, default metadata as computed by Go *)
  k_env1 : list authacc; k_env2 : list authacc;       (* x/auth accounts before / after *)
  k_s1 : app_st; k_e1 : app_gen; k_s2 : app_st; k_e2 : app_gen;
  k_jeq : list bool;             (* canonical JSON of export1 = export2, per module: sudo inflation epochs oracle tokenfactory devgas evm *)
  k_kv1 : list (nat * nat * nat * nat); k_kv2 : list (nat * nat * nat * nat);   (* store, namespace, #pairs, digest id *)
  k_q1 : list nat; k_q2 : list nat;                   (* sampled queries (balances, sequences, eth_call, code, storage) *)
  k_probe : list (Z * nat) * list (Z * nat);          (* imported chain: pending rewards before / after one more allocation *)
  k_dg0 : devgas_st;                                  (* x/devgas registry the log starts from: the chain's own genesis ([dg_genesis p]) for the
                                                         first generation; for a chain started from an export, its registry (no message is sent there) *)
  k_dg_hist : list (dg_op * bool)                     (* log of wasm instantiations / x/devgas handler calls with their success *)
}.

Definition opt_eqb {A} (dec : forall a b : A, {a = b} + {a <> b}) (a b : option A) : bool := eqb_of (opt_dec dec) a b.

Definition ns_known (e : nat * nat * nat * nat) : bool :=
  match e with (st, ns, _, _) => existsb (fun x => (fst x =? st) && (snd x =? ns)) known_ns end.

(** the handler model replays the logged x/devgas history: every success / failure predicted, and the registry it
    ends with is the dumped one *)
Definition dg_hist_ok (c : cfg) (k : case) : bool :=
  (* the tables of this case meet the hypothesis [funs_dg_ok] of the history theorems on every key / params id used *)
  funs_dg_okb (k_F k)
    (flat_map (fun e => dg_op_keys (fst e)) (k_dg_hist k))
    (dg_params (k_dg0 k) :: dg_params (a_devgas (k_s1 k)) :: flat_map (fun e => dg_op_params (fst e)) (k_dg_hist k)) &&
  match dg_replay (c_dg_upd c) (k_F k) (k_dg_hist k) ([], k_dg0 k) with
  | Some ws => eqb_of devgas_st_dec (snd ws) (a_devgas (k_s1 k))
  | None => false
  end.

Definition mismatch (c : cfg) (k : case) : bool :=
  negb (wf_appb (k_F k) (k_env1 k) (k_s1 k)) ||       (* a reachable state outside the theorems' hypotheses *)
  negb (dg_hist_ok c k) ||
  negb (opt_eqb app_gen_dec (export_app (k_env1 k) (k_s1 k)) (Some (k_e1 k))) ||
  (if k_import_ok k then
     negb (opt_eqb app_st_dec
             (init_app c (k_F k) (k_env2 k) (tf_bankmd (a_tf (k_s1 k))) (k_h k) (k_t k) (k_e1 k)) (Some (k_s2 k))) ||
     negb (opt_eqb app_gen_dec (export_app (k_env2 k) (k_s2 k)) (Some (k_e2 k)))
   else
     match init_app c (k_F k) (k_env1 k) (tf_bankmd (a_tf (k_s1 k))) (k_h k) (k_t k) (k_e1 k) with
     | Some _ => true | None => false end) ||
  negb (forallb ns_known (k_kv1 k) && forallb ns_known (k_kv2 k)).

(** raw view: every (store, namespace) outside [may_differ_ns] holds the same bytes before and after *)
Definition kv_lookup (st ns : nat) (l : list (nat * nat * nat * nat)) : option (nat * nat) :=
  match find (fun e => match e with (a, b, _, _) => (a =? st) && (b =? ns) end) l with
  | Some (_, _, n, d) => Some (n, d) | None => None end.
Definition kv_same (l1 l2 : list (nat * nat * nat * nat)) (e : nat * nat * nat * nat) : bool :=
  match e with (st, ns, _, _) =>
    existsb (fun x => (fst x =? st) && (snd x =? ns)) may_differ_ns ||
    eqb_of (opt_dec pair_nn_dec) (kv_lookup st ns l1) (kv_lookup st ns l2) end.
Definition kv_ok (l1 l2 : list (nat * nat * nat * nat)) : bool :=
  forallb (kv_same l1 l2) l1 && forallb (kv_same l1 l2) l2.

(** exports identical as JSON for every module but epochs (index 2) *)
Fixpoint jeq_ok (i : nat) (l : list bool) : bool :=
  match l with [] => true | b :: r => (b || (i =? 2)) && jeq_ok (S i) r end.

Definition probe_ok (p : list (Z * nat) * list (Z * nat)) : bool :=
  forallb (fun x => existsb (fun y => eqb_of pair_nZ_dec (snd x, fst x) (snd y, fst y)) (snd p)) (fst p).

(** the property predicate on the observed round trip (strict: no defect exception is tolerated) *)
Definition Pb (k : case) : bool :=
  k_import_ok k &&
  jeq_ok 0 (k_jeq k) &&
  gen_equivb (k_h k) (k_e1 k) (k_e2 k) &&
  state_equivb false false (k_env1 k) (k_h k) (k_t k) (k_s1 k) (k_s2 k) &&
  kv_ok (k_kv1 k) (k_kv2 k) &&
  eqb_of nat_list_dec (k_q1 k) (k_q2 k) &&
  eqb_of (list_eq_dec authacc_dec) (k_env1 k) (k_env2 k) &&
  probe_ok (k_probe k).

Definition violates (k : case) : bool := negb (Pb k).

Lemma Pb_sound : forall k, Pb k = true ->
  gen_equiv (k_h k) (k_e1 k) (k_e2 k) /\
  state_equiv false false (k_env1 k) (k_h k) (k_t k) (k_s1 k) (k_s2 k) /\
  k_q1 k = k_q2 k /\ k_env1 k = k_env2 k.
Proof.
  intros k H. unfold Pb in H.
  repeat match goal with H : _ && _ = true |- _ => apply andb_true_iff in H; destruct H end.
  split; [apply gen_equivb_sound; assumption|].
  split; [apply state_equivb_sound; assumption|].
  split; eapply eqb_of_true; eassumption.
Qed.

(** table lookups used to build [k_F] from the harness tables *)
Definition tbl1 (l : list (nat * nat)) (d : nat) (x : nat) : nat :=
  match find (fun e => fst e =? x) l with Some e => snd e | None => d end.
Definition tbl2 (l : list (nat * nat * nat)) (d : nat) (x y : nat) : nat :=
  match find (fun e => (fst (fst e) =? x) && (snd (fst e) =? y)) l with Some e => snd e | None => d end.
Definition tblid (l : list (nat * nat)) (x : nat) : nat :=
  match find (fun e => fst e =? x) l with Some e => snd e | None => x end.
Definition tblp (l : list (nat * (nat * nat))) (x : nat) : nat * nat :=
  match find (fun e => fst e =? x) l with Some e => snd e | None => (0, 0) end.
