(** C20 — boolean form of the well-formedness hypotheses of the theorems (definitions only).
    Evaluated on every state dumped from the implementation: a reachable state that is not
    well-formed would put the theorems' hypotheses in question and is reported as a mismatch. *)
From Coq Require Import List Bool Arith ZArith.
Import ListNotations.
Require Import Nib.C20.SMapDef Nib.C20.Model Nib.C20.Eqdec.

Definition keys_matchb {V} (f : V -> nat) (m : smap V) : bool := forallb (fun kv => f (snd kv) =? fst kv) m.

Definition wf_epochsb (empty : key) (s : epochs_st) : bool :=
  sortedb s && keys_matchb ep_id s && forallb (fun kv => negb (Z.eqb (ep_start (snd kv)) zero_time)) s &&
  forallb (fun kv => epoch_valid EpValNonneg empty (snd kv)) s.     (* EpochInfo.Validate accepts every stored epoch *)

Fixpoint zsortedb {V} (m : list (Z * V)) : bool :=
  match m with
  | [] => true
  | (k, _) :: r => forallb (fun kv => Z.ltb k (fst kv)) r && zsortedb r
  end.

Definition wf_oracleb (s : oracle_st) : bool :=
  sortedb (o_rates s) && sortedb (o_feeders s) && sortedb (o_miss s) && sortedb (o_prevotes s) &&
  sortedb (o_votes s) && ksortedb (o_pairs s) && keys_matchb v_voter (o_prevotes s) && keys_matchb v_voter (o_votes s) &&
  zsortedb (o_rewards s) && forallb (fun kr => Z.eqb (rw_id (snd kr)) (fst kr)) (o_rewards s) &&
  (match o_pairs s with [] => match o_whitelist s with [] => true | _ => false end | _ => true end).

Definition wf_tfb (F : funs) (s : tf_st) : bool :=
  sortedb (tf_denoms s) && eqb_of nat_list_dec (map fst (tf_admins s)) (map fst (tf_denoms s)) &&
  forallb (fun dv => eqb_of pair_nn_dec (f_tfparse F (fst dv)) (snd dv)) (tf_denoms s) &&
  eqb_of nat_list_dec (tf_creators s) (kset_of (map (fun dv => fst (snd dv)) (tf_denoms s))) &&
  eqb_of lnn_dec (tf_idx s) (idx_of (fun _ v => fst v) (tf_denoms s)) &&
  forallb (fun dv => mem (fst dv) (tf_bankmd s)) (tf_denoms s).

Definition wf_devgasb (F : funs) (s : devgas_st) : bool :=
  sortedb (dg_shares s) && keys_matchb fs_contract (dg_shares s) &&
  eqb_of lnn_dec (dg_idx_dep s) (idx_of (fun _ v => fs_deployer v) (dg_shares s)) &&
  eqb_of lnn_dec (dg_idx_wd s) (idx_of (fun _ v => fs_withdrawer v) (dg_shares s)) &&
  (f_dgsan F (dg_params s) =? dg_params s) &&
  forallb (fun kv => fs_valid F (snd kv)) (dg_shares s) &&     (* genesis validation accepts every stored fee share *)
  f_dgp_ok F (dg_params s).                                    (* … and the stored params *)

(** what the Go functions behind the address / params tables guarantee, on finite lists of keys and params ids:
    re-encoding a parsed address parses; Sanitize is the identity on params that Validate accepts *)
Definition funs_dg_okb (F : funs) (ks : list key) (ps : list id) : bool :=
  forallb (fun k => if f_addr_ok F k then f_addr_ok F (f_canon F k) else true) ks &&
  forallb (fun p => if f_dgp_ok F p then f_dgsan F p =? p else true) ps.
Definition dg_op_keys (op : dg_op) : list key :=
  match op with
  | DWasm c i => c :: wi_creator i :: match wi_admin i with Some a => [a] | None => [] end
  | DRegister c d w | DUpdate c d w => [c; d; w]
  | DCancel c d => [c; d]
  | DParams _ _ => []
  end.
Definition dg_op_params (op : dg_op) : list id := match op with DParams _ p => [p] | _ => [] end.

Definition wf_evmb (F : funs) (s : evm_st) : bool :=
  sortedb (ev_code s) && forallb (fun hc => (f_hash F (snd hc) =? fst hc) && negb (f_code_empty F (snd hc))) (ev_code s) &&
  sortedb (ev_storage s) && forallb (fun am => sortedb (snd am) && match snd am with [] => false | _ => true end) (ev_storage s) &&
  sortedb (ev_ft s) && keys_matchb (fun f => f_ftid F (ft_erc20 f) (ft_denom f)) (ev_ft s) &&
  eqb_of lnn_dec (ev_idx_erc20 s) (idx_of (fun _ v => ft_erc20 v) (ev_ft s)) &&
  eqb_of lnn_dec (ev_idx_denom s) (idx_of (fun _ v => ft_denom v) (ev_ft s)).

Definition env_sortedb (env : list authacc) : bool := sortedb (map (fun a => (aa_addr a, a)) env).

(** every stored oracle pair survives the JSON codec unchanged *)
Definition oracle_pair_keys (s : oracle_st) : list key := o_whitelist s ++ map fst (o_rates s) ++ o_pairs s.
Definition pairs_json_fixedb (F : funs) (s : oracle_st) : bool :=
  forallb (fun p => f_pairjson F p =? p) (oracle_pair_keys s).

Definition wf_appb (F : funs) (env : list authacc) (s : app_st) : bool :=
  (match a_sudo s with Some _ => true | None => false end) &&
  wf_epochsb (f_empty F) (a_epochs s) && wf_oracleb (a_oracle s) && wf_tfb F (a_tf s) && wf_devgasb F (a_devgas s) &&
  wf_evmb F (a_evm s) && env_sortedb env && pairs_json_fixedb F (a_oracle s).
