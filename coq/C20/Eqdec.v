(** C20 — decidable equality of the model's records (transparent, so [vm_compute] evaluates it). *)
From Coq Require Import List Bool Arith ZArith.
Import ListNotations.
Require Import Nib.C20.SMapDef Nib.C20.Model.

Ltac dec_eq := repeat (decide equality; auto using Nat.eq_dec, Z.eq_dec, Bool.bool_dec, list_eq_dec).

Definition nat_list_dec : forall a b : list nat, {a = b} + {a <> b} := list_eq_dec Nat.eq_dec.
Definition opt_Z_dec : forall a b : option Z, {a = b} + {a <> b}.
Proof. decide equality. apply Z.eq_dec. Defined.
Definition pair_nn_dec : forall a b : nat * nat, {a = b} + {a <> b}.
Proof. decide equality; apply Nat.eq_dec. Defined.
Definition pair_nZ_dec : forall a b : nat * Z, {a = b} + {a <> b}.
Proof. decide equality; [apply Z.eq_dec | apply Nat.eq_dec]. Defined.
Definition lnn_dec : forall a b : list (nat * nat), {a = b} + {a <> b} := list_eq_dec pair_nn_dec.
Definition lnZ_dec : forall a b : list (nat * Z), {a = b} + {a <> b} := list_eq_dec pair_nZ_dec.

Definition sudoers_dec : forall a b : sudoers, {a = b} + {a <> b}.
Proof. decide equality; [apply nat_list_dec | apply Nat.eq_dec]. Defined.
Definition sudo_st_dec : forall a b : sudo_st, {a = b} + {a <> b}.
Proof. decide equality. apply sudoers_dec. Defined.
Definition infl_st_dec : forall a b : infl_st, {a = b} + {a <> b}.
Proof. decide equality; try apply opt_Z_dec; apply Nat.eq_dec. Defined.
Definition infl_gen_dec : forall a b : infl_gen, {a = b} + {a <> b}.
Proof. decide equality; try apply Z.eq_dec; apply Nat.eq_dec. Defined.
Definition epoch_dec : forall a b : epoch, {a = b} + {a <> b}.
Proof. decide equality; try apply Z.eq_dec; try apply Nat.eq_dec; apply Bool.bool_dec. Defined.
Definition epochs_gen_dec : forall a b : epochs_gen, {a = b} + {a <> b} := list_eq_dec epoch_dec.
Definition kepoch_dec : forall a b : nat * epoch, {a = b} + {a <> b}.
Proof. decide equality; [apply epoch_dec | apply Nat.eq_dec]. Defined.
Definition epochs_st_dec : forall a b : epochs_st, {a = b} + {a <> b} := list_eq_dec kepoch_dec.

Definition rate_dec : forall a b : rate, {a = b} + {a <> b}.
Proof. decide equality; try apply Z.eq_dec; apply Nat.eq_dec. Defined.
Definition voteb_dec : forall a b : voteb, {a = b} + {a <> b}.
Proof. decide equality; apply Nat.eq_dec. Defined.
Definition reward_dec : forall a b : reward, {a = b} + {a <> b}.
Proof. decide equality; [apply Nat.eq_dec | apply Z.eq_dec]. Defined.
Definition snap_dec : forall a b : snap, {a = b} + {a <> b}.
Proof. decide equality; try apply Z.eq_dec; apply Nat.eq_dec. Defined.
Definition krate_dec : forall a b : nat * rate, {a = b} + {a <> b}.
Proof. decide equality; [apply rate_dec | apply Nat.eq_dec]. Defined.
Definition kvote_dec : forall a b : nat * voteb, {a = b} + {a <> b}.
Proof. decide equality; [apply voteb_dec | apply Nat.eq_dec]. Defined.
Definition zreward_dec : forall a b : Z * reward, {a = b} + {a <> b}.
Proof. decide equality; [apply reward_dec | apply Z.eq_dec]. Defined.
Definition oracle_st_dec : forall a b : oracle_st, {a = b} + {a <> b}.
Proof.
  decide equality; try apply opt_Z_dec; try apply nat_list_dec; try apply Nat.eq_dec;
    try apply lnn_dec; try apply lnZ_dec;
    first [apply (list_eq_dec snap_dec) | apply (list_eq_dec zreward_dec) | apply (list_eq_dec kvote_dec) | apply (list_eq_dec krate_dec)].
Defined.
Definition oracle_gen_dec : forall a b : oracle_gen, {a = b} + {a <> b}.
Proof.
  decide equality; try apply nat_list_dec; try apply Nat.eq_dec; try apply lnn_dec; try apply lnZ_dec;
    first [apply (list_eq_dec reward_dec) | apply (list_eq_dec voteb_dec)].
Defined.

Definition kdenom_dec : forall a b : nat * (nat * nat), {a = b} + {a <> b}.
Proof. decide equality; [apply pair_nn_dec | apply Nat.eq_dec]. Defined.
Definition tf_st_dec : forall a b : tf_st, {a = b} + {a <> b}.
Proof. decide equality; try apply lnn_dec; try apply nat_list_dec; try apply Nat.eq_dec; apply (list_eq_dec kdenom_dec). Defined.
Definition tf_gen_dec : forall a b : tf_gen, {a = b} + {a <> b}.
Proof. decide equality; try apply lnn_dec; apply Nat.eq_dec. Defined.

Definition feeshare_dec : forall a b : feeshare, {a = b} + {a <> b}.
Proof. decide equality; apply Nat.eq_dec. Defined.
Definition kfeeshare_dec : forall a b : nat * feeshare, {a = b} + {a <> b}.
Proof. decide equality; [apply feeshare_dec | apply Nat.eq_dec]. Defined.
Definition devgas_st_dec : forall a b : devgas_st, {a = b} + {a <> b}.
Proof. decide equality; try apply lnn_dec; try apply Nat.eq_dec; apply (list_eq_dec kfeeshare_dec). Defined.
Definition devgas_gen_dec : forall a b : devgas_gen, {a = b} + {a <> b}.
Proof. decide equality; try apply Nat.eq_dec; apply (list_eq_dec feeshare_dec). Defined.

Definition funtoken_dec : forall a b : funtoken, {a = b} + {a <> b}.
Proof. decide equality; apply Nat.eq_dec. Defined.
Definition kfuntoken_dec : forall a b : nat * funtoken, {a = b} + {a <> b}.
Proof. decide equality; [apply funtoken_dec | apply Nat.eq_dec]. Defined.
Definition kslots_dec : forall a b : nat * list (nat * nat), {a = b} + {a <> b}.
Proof. decide equality; [apply lnn_dec | apply Nat.eq_dec]. Defined.
Definition storage_dec : forall a b : smap (smap id), {a = b} + {a <> b} := list_eq_dec kslots_dec.
Definition evm_st_dec : forall a b : evm_st, {a = b} + {a <> b}.
Proof. decide equality; try apply lnn_dec; try apply Nat.eq_dec; first [apply (list_eq_dec kfuntoken_dec) | apply storage_dec]. Defined.
Definition gacc_dec : forall a b : gacc, {a = b} + {a <> b}.
Proof. decide equality; try apply lnn_dec; apply Nat.eq_dec. Defined.
Definition evm_gen_dec : forall a b : evm_gen, {a = b} + {a <> b}.
Proof. decide equality; try apply Nat.eq_dec; first [apply (list_eq_dec funtoken_dec) | apply (list_eq_dec gacc_dec)]. Defined.
Definition authacc_dec : forall a b : authacc, {a = b} + {a <> b}.
Proof. decide equality; try apply Nat.eq_dec; apply Bool.bool_dec. Defined.

Definition app_st_dec : forall a b : app_st, {a = b} + {a <> b}.
Proof.
  decide equality; [apply evm_st_dec | apply devgas_st_dec | apply tf_st_dec | apply oracle_st_dec
                   | apply epochs_st_dec | apply infl_st_dec | apply sudo_st_dec].
Defined.
Definition app_gen_dec : forall a b : app_gen, {a = b} + {a <> b}.
Proof.
  decide equality; [apply evm_gen_dec | apply devgas_gen_dec | apply tf_gen_dec | apply oracle_gen_dec
                   | apply epochs_gen_dec | apply infl_gen_dec | apply sudoers_dec].
Defined.

Definition eqb_of {A} (dec : forall a b : A, {a = b} + {a <> b}) (a b : A) : bool :=
  if dec a b then true else false.
Lemma eqb_of_true : forall A (dec : forall a b : A, {a = b} + {a <> b}) a b, eqb_of dec a b = true -> a = b.
Proof. intros A dec a b. unfold eqb_of. destruct (dec a b); [auto | discriminate]. Qed.
Lemma eqb_of_refl : forall A (dec : forall a b : A, {a = b} + {a <> b}) a, eqb_of dec a a = true.
Proof. intros A dec a. unfold eqb_of. destruct (dec a a); [auto | congruence]. Qed.
Definition opt_dec {A} (dec : forall a b : A, {a = b} + {a <> b}) : forall a b : option A, {a = b} + {a <> b}.
Proof. decide equality. Defined.
