(** C20 — exported statements. *)
From Coq Require Import List Bool Arith ZArith.
Import ListNotations.
Require Import Nib.C20.SMapDef Nib.C20.Model Nib.C20.Eqdec Nib.C20.Spec Nib.C20.Shape Nib.C20.Check Nib.C20.Proofs.

Theorem C20_checker_sound : forall k, Pb k = true ->
  gen_equiv (k_h k) (k_e1 k) (k_e2 k) /\
  state_equiv false false (k_env1 k) (k_h k) (k_t k) (k_s1 k) (k_s2 k) /\
  k_q1 k = k_q2 k /\ k_env1 k = k_env2 k.
Proof. exact Pb_sound. Qed.
Print Assumptions C20_checker_sound.
