(** C20 — exported state re-imports to the same state for every Nibiru module.
    This file holds only the exported statements (each closed by [exact]). *)
From Coq Require Import List Bool Arith ZArith.
Import ListNotations.
Require Import Nib.C20.SMapDef Nib.C20.Model Nib.C20.Eqdec Nib.C20.Spec Nib.C20.Shape Nib.C20.WfB Nib.C20.Check Nib.C20.Proofs Nib.C20.ProofsDg Nib.C20.ProofsGen.

(** COMPOSED THEOREM over the product of the seven modules, for ANY tree facts [c], any height/time:
    a well-formed application state exports; the export initialises a fresh chain; the second export is
    the first with every epoch's start height re-based to the import height [h] (and nothing else
    changed); and the imported state equals the original on every persistent collection except the
    explicit list of [Spec.exc] — the two booleans say whether the defect exceptions
    [ExRewardsIdStale] / [ExTfBankMetadataReset] are needed for this [c]. *)
Theorem C20_app_roundtrip : forall c F env h t s, c_ep_val c = EpValNonneg -> c_ep_start c = EpStZeroOnly -> wf_app F env s ->
  exists g s',
    export_app env s = Some g /\
    init_app c F env (tf_bankmd (a_tf s)) h t g = Some s' /\
    export_app env s' = Some (rebase_gen h g) /\
    state_equiv (negb (match c_rid c with RidLastPlus1 => true | _ => false end)) (negb (c_tf_keeps_bank_md c)) env h t s s'.
Proof. exact app_roundtrip. Qed.
Print Assumptions C20_app_roundtrip.

(** export (init (export s)) = export s, for every module but epochs, where it holds modulo the
    start height (what InitGenesis/AddEpochInfo does: CurrentEpochStartHeight := h; the start TIME is
    kept because a stored epoch never has the zero time). *)
Theorem C20_export_roundtrip : forall c F env h t s, c_ep_val c = EpValNonneg -> c_ep_start c = EpStZeroOnly -> wf_app F env s ->
  exists g s' g', export_app env s = Some g /\ init_app c F env (tf_bankmd (a_tf s)) h t g = Some s' /\
                  export_app env s' = Some g' /\ gen_equiv h g g'.
Proof. exact export_roundtrip. Qed.
Print Assumptions C20_export_roundtrip.

(** The strict statement (no defect exception) for a tree whose two genesis formulas are the repaired ones. *)
Theorem C20_state_equiv : forall c F env h t s, cfg_ok c = true -> wf_app F env s ->
  exists g s', export_app env s = Some g /\ init_app c F env (tf_bankmd (a_tf s)) h t g = Some s' /\
               state_equiv false false env h t s s'.
Proof. exact state_equiv_strict. Qed.
Print Assumptions C20_state_equiv.

(** … for which the exception list is exactly [tolerated]. *)
Theorem C20_exceptions_of_ok_tree : forall c, cfg_ok c = true -> exceptions c = tolerated.
Proof. exact exceptions_of_ok_cfg. Qed.
Print Assumptions C20_exceptions_of_ok_tree.

(** The imported state is well-formed again, so the round trip can be iterated: importing the second
    export at any later height gives a third export equal to the first up to the epoch start heights. *)
Theorem C20_imported_state_wf : forall F env h t s s', (0 <= h)%Z ->
  wf_app F env s -> state_equiv false false env h t s s' -> wf_app F env s'.
Proof. exact wf_after_import. Qed.
Print Assumptions C20_imported_state_wf.

Theorem C20_roundtrip_twice : forall c F env h t h2 t2 s, (0 <= h)%Z -> cfg_ok c = true -> wf_app F env s ->
  exists g s' s'' g'',
    export_app env s = Some g /\ init_app c F env (tf_bankmd (a_tf s)) h t g = Some s' /\
    init_app c F env (tf_bankmd (a_tf s')) h2 t2 (rebase_gen h g) = Some s'' /\
    export_app env s'' = Some g'' /\ gen_equiv h2 g g''.
Proof. exact roundtrip_twice. Qed.
Print Assumptions C20_roundtrip_twice.

(** ITERATED round trips — "exporting at ANY height" includes heights of a chain that was itself started from an export
    (second, third, … generation), each generation imported at its own InitChain height [h >= 0] (0 = a genesis
    without initial height) and time: every generation's export is accepted (genesis validation is part of [init_*]),
    every imported state is well-formed again, and the n-th export is the FIRST export with the epoch start heights
    re-based to the last import height — no section is lost or changed along the way. *)
Theorem C20_iterated_roundtrip : forall c F env h t gens s, cfg_ok c = true -> wf_app F env s ->
  Forall (fun ht => (0 <= fst ht)%Z) ((h, t) :: gens) ->
  exists g s', export_app env s = Some g /\ regen c F env ((h, t) :: gens) s = Some s' /\ wf_app F env s' /\
               export_app env s' = Some (rebase_gen (fst (last gens (h, t))) g).
Proof. exact regen_export. Qed.
Print Assumptions C20_iterated_roundtrip.

(** epochs: export ∘ init is idempotent on every state reachable by iterating it — the state imported at any height
    [h >= 0], height 0 included, passes EpochInfo.Validate at the next import and comes back re-based *)
Theorem C20_epochs_export_init_idempotent : forall empty h t h2 t2 s, (0 <= h)%Z -> wf_epochs empty s ->
  exists s', init_epochs EpValNonneg empty h t (export_epochs s) = Some s' /\ wf_epochs empty s' /\
             init_epochs EpValNonneg empty h2 t2 (export_epochs s') = Some (map (rb h2) s) /\
             export_epochs (map (rb h2) s) = map (rebase_epoch h2) (export_epochs s).
Proof. exact epochs_export_init_idempotent. Qed.
Print Assumptions C20_epochs_export_init_idempotent.

(** the validator "a counting epoch needs a POSITIVE start height" breaks it: the first generation imported at height
    0 holds such epochs; its export is rejected, the module discards the error, the next chain has NO epochs *)
Theorem C20_epochs_height_zero_invalid_refuted :
  let r := EpValPositiveWhenStarted in
  let w' := map (rb 0%Z) ep_witness in
  wf_epochs 0 ep_witness /\
  init_epochs r 0 0%Z 2000%Z (export_epochs ep_witness) = Some w' /\
  export_epochs w' = map (rebase_epoch 0%Z) (export_epochs ep_witness) /\
  init_epochs r 0 0%Z 3000%Z (export_epochs w') = None /\
  init_epochs_mod r true 0 0%Z 3000%Z (export_epochs w') = Some [] /\
  init_epochs EpValNonneg 0 0%Z 3000%Z (export_epochs w') = Some w'.
Proof. exact epochs_height_zero_invalid_refuted. Qed.
Print Assumptions C20_epochs_height_zero_invalid_refuted.

(** epochs START TIMES: for EVERY import time [t] (before, at or after a definition's scheduled start) and whether or not
    the epoch has begun counting, export ∘ init keeps start_time — and every field but the start height — of every stored
    definition (AddEpochInfo only fills in a ZERO start_time; rule [EpStZeroOnly], regenerated from its source) *)
Theorem C20_epochs_init_keeps_start_time : forall empty h t s, wf_epochs empty s ->
  exists s', init_epochs EpValNonneg empty h t (export_epochs s) = Some s' /\
    forall k e, In (k, e) s ->
      exists e', In (k, e') s' /\ ep_start e' = ep_start e /\ ep_started e' = ep_started e /\ ep_cur e' = ep_cur e /\
                 ep_cstart e' = ep_cstart e /\ ep_dur e' = ep_dur e.
Proof. exact epochs_init_keeps_start_time. Qed.
Print Assumptions C20_epochs_init_keeps_start_time.

(** the widened condition "… or not yet counting and start_time before the import block time": a future-dated definition
    exported before its date round-trips when imported before / at its start, but comes back with start_time := import
    time when the import happens after it — the second export differs *)
Theorem C20_epochs_start_time_rewrite_refuted :
  let sr := EpStZeroOrPastUnstarted in
  wf_epochs 0 ep_sched_witness /\
  init_epochs_r sr EpValNonneg 0 7%Z 1000%Z (export_epochs ep_sched_witness) = Some (map (rb 7%Z) ep_sched_witness) /\
  init_epochs_r sr EpValNonneg 0 7%Z 5000%Z (export_epochs ep_sched_witness) = Some (map (rb 7%Z) ep_sched_witness) /\
  (exists s', init_epochs_r sr EpValNonneg 0 7%Z 9000%Z (export_epochs ep_sched_witness) = Some s' /\
              map (fun kv => ep_start (snd kv)) s' = [9000%Z] /\
              export_epochs s' <> map (rebase_epoch 7%Z) (export_epochs ep_sched_witness)) /\
  init_epochs EpValNonneg 0 7%Z 9000%Z (export_epochs ep_sched_witness) = Some (map (rb 7%Z) ep_sched_witness).
Proof. exact epochs_start_time_rewrite_refuted. Qed.
Print Assumptions C20_epochs_start_time_rewrite_refuted.

(** Per module. *)
Theorem C20_sudo_roundtrip : forall s g, export_sudo s = Some g -> export_sudo (init_sudo g) = Some g /\ init_sudo g = s.
Proof. exact sudo_roundtrip. Qed.
Print Assumptions C20_sudo_roundtrip.

Theorem C20_inflation_roundtrip : forall s,
  export_infl (init_infl (export_infl s)) = export_infl s /\ infl_equiv s (init_infl (export_infl s)).
Proof. intro s. exact (conj (infl_roundtrip s) (infl_state_equiv s)). Qed.
Print Assumptions C20_inflation_roundtrip.

Theorem C20_epochs_roundtrip : forall empty h t s, wf_epochs empty s ->
  exists s', init_epochs EpValNonneg empty h t (export_epochs s) = Some s' /\
             export_epochs s' = map (rebase_epoch h) (export_epochs s) /\ epochs_equiv h s s'.
Proof. exact epochs_roundtrip. Qed.
Print Assumptions C20_epochs_roundtrip.

Theorem C20_oracle_roundtrip : forall c h t s, wf_oracle' s ->
  let s' := init_oracle c h t (export_oracle s) in
  export_oracle s' = export_oracle s /\
  o_params s' = o_params s /\ o_whitelist s' = o_whitelist s /\ o_feeders s' = o_feeders s /\
  o_miss s' = o_miss s /\ o_prevotes s' = o_prevotes s /\ o_votes s' = o_votes s /\
  o_pairs s' = o_pairs s /\ o_rewards s' = o_rewards s /\
  o_rates s' = map (restamp h t) (o_rates s) /\ o_snaps s' = snaps_of t (o_rates s') /\
  o_rewards_id s' = rewards_id_after c (map snd (o_rewards s)).
Proof. exact oracle_init_export. Qed.
Print Assumptions C20_oracle_roundtrip.

(** the re-derived reward sequence never hands out the id of a pending reward *)
Theorem C20_oracle_rewards_id_fresh : forall c h t s, c_rid c = RidLastPlus1 -> wf_oracle' s ->
  rewards_fresh (init_oracle c h t (export_oracle s)).
Proof. exact rewards_fresh_after. Qed.
Print Assumptions C20_oracle_rewards_id_fresh.

Theorem C20_tokenfactory_roundtrip : forall c F s, wf_tf F s ->
  exists g, export_tf s = Some g /\
  exists s', init_tf c F (tf_bankmd s) g = Some s' /\ export_tf s' = Some g /\
             tf_params s' = tf_params s /\ tf_denoms s' = tf_denoms s /\ tf_creators s' = tf_creators s /\
             tf_admins s' = tf_admins s /\ tf_idx s' = tf_idx s /\
             (c_tf_keeps_bank_md c = true -> tf_bankmd s' = tf_bankmd s).
Proof. exact tf_roundtrip. Qed.
Print Assumptions C20_tokenfactory_roundtrip.

Theorem C20_devgas_roundtrip : forall F s, wf_devgas F s -> init_devgas F (export_devgas s) = Some s.
Proof. exact devgas_roundtrip. Qed.
Print Assumptions C20_devgas_roundtrip.

(** x/devgas, REACHABLE states: the registry is only written by the four message handlers; after ANY history of them
    (any strings, any senders, any table of wasm contracts with any admins) from a well-formed registry, the registry
    is well-formed — in particular genesis validation (FeeShare.Validate / Params.Validate, part of [init_devgas])
    accepts the export — and InitGenesis restores it exactly.  [funs_dg_ok]: re-encoding a parsed address parses;
    Sanitize is the identity on valid params (checked on the tables of every case). *)
Theorem C20_devgas_history_roundtrip : forall F ops W0 s0, funs_dg_ok F -> wf_devgas F s0 ->
  let s := snd (dg_run DgUpdKeep F ops (W0, s0)) in
  wf_devgas F s /\ init_devgas F (export_devgas s) = Some s.
Proof. exact devgas_history_roundtrip. Qed.
Print Assumptions C20_devgas_history_roundtrip.

Theorem C20_devgas_history_from_genesis : forall F ops p, funs_dg_ok F -> f_dgp_ok F p = true ->
  let s := snd (dg_run DgUpdKeep F ops ([], dg_genesis p)) in
  init_devgas F (export_devgas s) = Some s.
Proof. exact devgas_history_from_genesis. Qed.
Print Assumptions C20_devgas_history_from_genesis.

(** each handler step keeps the invariant (the induction step, stated on its own) *)
Theorem C20_devgas_handlers_keep_wf : forall F ws op, funs_dg_ok F -> wf_devgas F (snd ws) ->
  wf_devgas F (snd (fst (dg_step DgUpdKeep F ws op))).
Proof. exact dg_step_wf. Qed.
Print Assumptions C20_devgas_handlers_keep_wf.

(** composed with the other modules: any registry history on a well-formed application state, then the strict
    round trip, for a tree whose facts are the repaired ones (incl. the rule of MsgUpdateFeeShare) *)
Theorem C20_app_roundtrip_after_devgas_history : forall c F env h t s ops W0,
  cfg_ok c = true -> funs_dg_ok F -> wf_app F env s ->
  let s1 := with_devgas s (snd (dg_run (c_dg_upd c) F ops (W0, a_devgas s))) in
  exists g s', export_app env s1 = Some g /\ init_app c F env (tf_bankmd (a_tf s1)) h t g = Some s' /\
               state_equiv false false env h t s1 s'.
Proof. exact app_roundtrip_after_devgas_history. Qed.
Print Assumptions C20_app_roundtrip_after_devgas_history.

(** the variant "MsgUpdateFeeShare removes a withdrawer that equals the deployer" (stores ""): a history of three
    successful messages reaches a registry whose export genesis validation rejects — a fresh chain cannot import it *)
Theorem C20_devgas_update_removes_withdrawer_refuted :
  let r := DgUpdRemoveIfDeployer in
  let ws := dg_run r dg_funs dg_back_to_deployer ([], dg_genesis 9) in
  dg_replay r dg_funs (map (fun op => (op, true)) dg_back_to_deployer) ([], dg_genesis 9) = Some ws /\
  dg_shares (snd ws) = [(5, {| fs_contract := 5; fs_deployer := 6; fs_withdrawer := f_empty dg_funs |})] /\
  init_devgas dg_funs (export_devgas (snd ws)) = None /\
  wf_devgasb dg_funs (snd ws) = false.
Proof. exact dg_update_removes_withdrawer_refuted. Qed.
Print Assumptions C20_devgas_update_removes_withdrawer_refuted.

Example C20_devgas_history_nonvacuous :
  funs_dg_ok dg_funs /\ f_dgp_ok dg_funs 9 = true /\
  dg_shares (snd (dg_run DgUpdKeep dg_funs
     [DWasm 5 {| wi_admin := None; wi_creator := 6 |}; DWasm 8 {| wi_admin := Some 1; wi_creator := 6 |};
      DRegister 5 6 7; DRegister 8 7 8; DUpdate 5 6 6; DCancel 5 6; DRegister 5 6 0; DRegister 5 6 6; DParams true 4]
     ([], dg_genesis 9)))
  = [(5, {| fs_contract := 5; fs_deployer := 6; fs_withdrawer := 6 |}); (8, {| fs_contract := 8; fs_deployer := 8; fs_withdrawer := 8 |})].
Proof. exact dg_history_nonvacuous. Qed.

Theorem C20_evm_roundtrip : forall F env s, wf_evm F s -> env_sorted env ->
  exists s', init_evm F env (export_evm env s) = Some s' /\
             export_evm env s' = export_evm env s /\ evm_equiv env s s'.
Proof. exact evm_roundtrip. Qed.
Print Assumptions C20_evm_roundtrip.

(** The two genesis formulas of the tree before its `fix:` commits violate the strict statement. *)
Theorem C20_rewards_id_stale_refuted : forall c h t, c_rid c = RidLast ->
  rewards_freshb stale_witness = true /\ rewards_freshb (init_oracle c h t (export_oracle stale_witness)) = false.
Proof. exact rewards_id_stale_refuted. Qed.
Print Assumptions C20_rewards_id_stale_refuted.

Theorem C20_tf_bank_metadata_reset_refuted : forall c, c_tf_keeps_bank_md c = false ->
  exists g s', export_tf tf_md_witness = Some g /\ init_tf c tf_md_funs (tf_bankmd tf_md_witness) g = Some s' /\
               tf_bankmd s' <> tf_bankmd tf_md_witness.
Proof. exact tf_bank_md_reset_refuted. Qed.
Print Assumptions C20_tf_bank_metadata_reset_refuted.

(** Boundary of the oracle hypothesis "the pair key set is empty only if the whitelist is": without it the
    second export differs (InitGenesis falls back to Params.Whitelist). Reachable only on a chain whose own
    genesis had an empty whitelist, between a sudo whitelist edit and the end of that vote period. *)
Theorem C20_oracle_pairs_boundary : forall c h t,
  og_pairs (export_oracle pairs_boundary_witness) = [] /\
  og_pairs (export_oracle (init_oracle c h t (export_oracle pairs_boundary_witness))) = [4; 5].
Proof. exact oracle_pairs_boundary. Qed.
Print Assumptions C20_oracle_pairs_boundary.

(** InitGenesis sees the genesis DECODED FROM JSON ([json_oracle_gen]); the theorems need the codec of
    asset.Pair to be the identity on every stored pair (hypothesis [wa_json], checked on every dumped state,
    and the generated fact [c_pair_json_id]).  Without it a pair is renamed by the import. *)
Theorem C20_pair_json_codec_refuted : forall c F h t, f_pairjson F 5 = 4 ->
  let s' := init_oracle c h t (json_oracle_gen F (export_oracle pair_json_witness)) in
  o_pairs s' = [4] /\ map fst (o_rates s') = [4] /\ og_pairs (export_oracle s') <> og_pairs (export_oracle pair_json_witness).
Proof. exact pair_json_codec_refuted. Qed.
Print Assumptions C20_pair_json_codec_refuted.

(** The boolean predicates evaluated on implementation traces are sound for the Props above. *)
Theorem C20_checker_sound : forall k, Pb k = true ->
  gen_equiv (k_h k) (k_e1 k) (k_e2 k) /\
  state_equiv false false (k_env1 k) (k_h k) (k_t k) (k_s1 k) (k_s2 k) /\
  k_q1 k = k_q2 k /\ k_env1 k = k_env2 k.
Proof. exact Pb_sound. Qed.
Print Assumptions C20_checker_sound.

Theorem C20_wf_checker_sound : forall F env s, wf_appb F env s = true -> wf_app F env s.
Proof. exact wf_appb_sound. Qed.
Print Assumptions C20_wf_checker_sound.
