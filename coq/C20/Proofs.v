(** C20 — proofs (placeholder for the vertical slice; filled in below). *)
From Coq Require Import List Bool Arith ZArith Lia.
Import ListNotations.
Require Import Nib.C20.SMapDef Nib.C20.Model Nib.C20.Eqdec Nib.C20.Spec Nib.C20.Shape Nib.C20.Check.
