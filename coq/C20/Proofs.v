(** C20 — proofs: for every well-formed state of a module, a second export equals the first and the
    imported state agrees with the original up to the explicit exception list. *)
From Coq Require Import List Bool Arith ZArith Lia.
Import ListNotations.
Require Import Nib.C20.SMapDef Nib.C20.SMapFacts Nib.C20.Model Nib.C20.Eqdec Nib.C20.Spec Nib.C20.Shape Nib.C20.WfB Nib.C20.Check.

(* ================================================================== sudo, inflation *)
Lemma sudo_roundtrip : forall s g, export_sudo s = Some g ->
  export_sudo (init_sudo g) = Some g /\ init_sudo g = s.
Proof. intros s g H. unfold export_sudo in *. subst s. split; reflexivity. Qed.

Lemma infl_roundtrip : forall s, export_infl (init_infl (export_infl s)) = export_infl s.
Proof. intros s. reflexivity. Qed.

Lemma infl_state_equiv : forall s, infl_equiv s (init_infl (export_infl s)).
Proof. intros s. unfold infl_equiv. cbn. auto. Qed.

Lemma nodupb_sorted : forall V (m : smap V), sortedb m = true -> nodupb (map fst m) = true.
Proof.
  induction m as [|[k v] r IH]; intros Hs; [reflexivity|].
  apply sortedb_cons in Hs. destruct Hs as [Hs Hall]. cbn [map fst nodupb]. rewrite (IH Hs), andb_true_r.
  apply negb_true_iff. apply not_true_iff_false. intro Hex. apply existsb_exists in Hex. destruct Hex as [x [Hin E]].
  apply Nat.eqb_eq in E. subst x. apply in_map_iff in Hin. destruct Hin as [[k' v'] [E Hin]]. cbn in E. subst k'.
  specialize (Hall _ _ Hin). lia.
Qed.

(* ================================================================== epochs *)
Record wf_epochs (empty : key) (s : epochs_st) : Prop := {
  we_sorted : sortedb s = true;
  we_keys : keys_match ep_id s;
  we_started : forall k e, In (k, e) s -> ep_start e <> zero_time;  (* a stored epoch always has a start time *)
  we_valid : forall k e, In (k, e) s -> epoch_valid EpValNonneg empty e = true   (* EpochInfo.Validate accepts it *)
}.

Definition rb (h : Z) (kv : key * epoch) : key * epoch := (fst kv, rebase_epoch h (snd kv)).

Lemma below_map_rb : forall h k (pre : epochs_st), below k pre -> below k (map (rb h) pre).
Proof.
  intros h k pre Hb k' v' Hin. apply in_map_iff in Hin. destruct Hin as [[k0 e0] [E Hin]].
  unfold rb in E. cbn in E. inversion E; subst. exact (Hb _ _ Hin).
Qed.

Lemma add_epoch_step : forall h t (pre : epochs_st) k e,
  below k pre -> ep_id e = k -> ep_start e <> zero_time ->
  add_epoch h t (Some (map (rb h) pre)) e = Some (map (rb h) (pre ++ [(k, e)])).
Proof.
  intros h t pre k e Hb Hid Hne. unfold add_epoch, add_epoch_r, start_rewritten.
  pose proof (below_map_rb h k pre Hb) as Hb'.
  rewrite Hid, mem_get, (get_below _ _ Hb').
  apply Z.eqb_neq in Hne. rewrite Hne. rewrite (ins_below _ _ _ Hb').
  rewrite map_app. cbn [map]. unfold rb at 3. cbn [fst snd]. unfold rebase_epoch. rewrite Hid. reflexivity.
Qed.

Lemma init_epochs_fold : forall h t l pre,
  sortedb (pre ++ l) = true -> keys_match ep_id (pre ++ l) ->
  (forall k e, In (k, e) (pre ++ l) -> ep_start e <> zero_time) ->
  fold_left (add_epoch h t) (map snd l) (Some (map (rb h) pre)) = Some (map (rb h) (pre ++ l)).
Proof.
  intros h t. induction l as [|[k e] r IH]; intros pre Hs Hk Hst.
  - cbn. rewrite app_nil_r. reflexivity.
  - cbn [map snd fold_left].
    assert (Hid : ep_id e = k) by (apply (Hk k e); apply in_or_app; right; left; reflexivity).
    assert (Hne : ep_start e <> zero_time) by (apply (Hst k e); apply in_or_app; right; left; reflexivity).
    rewrite (add_epoch_step h t pre k e (sortedb_app_below _ _ _ _ Hs) Hid Hne).
    rewrite IH; rewrite <- app_assoc; cbn [app]; auto.
Qed.

Lemma map_ep_id_fst : forall (m : epochs_st), keys_match ep_id m -> map ep_id (map snd m) = map fst m.
Proof.
  induction m as [|[k v] r IH]; intros Hk; [reflexivity|].
  cbn [map snd fst]. rewrite (Hk k v (or_introl eq_refl)). f_equal. apply IH. intros k' v' Hin. apply (Hk k' v'). right. exact Hin.
Qed.

Lemma epochs_gen_valid_export : forall empty s, wf_epochs empty s -> epochs_gen_valid EpValNonneg empty (export_epochs s) = true.
Proof.
  intros empty s [Hs Hk _ Hv]. unfold epochs_gen_valid, export_epochs.
  rewrite (map_ep_id_fst _ Hk), (nodupb_sorted _ _ Hs). cbn [andb].
  apply forallb_forall. intros e Hin. apply in_map_iff in Hin. destruct Hin as [[k e'] [E Hin]]. cbn in E. subst e'. exact (Hv k e Hin).
Qed.

Lemma epochs_init_export : forall empty h t s, wf_epochs empty s ->
  init_epochs EpValNonneg empty h t (export_epochs s) = Some (map (rb h) s).
Proof.
  intros empty h t s W. unfold init_epochs, init_epochs_r. rewrite (epochs_gen_valid_export empty s W). fold add_epoch.
  destruct W as [Hs Hk Hst _]. unfold export_epochs.
  exact (init_epochs_fold h t s [] Hs Hk Hst).
Qed.

Lemma epochs_roundtrip : forall empty h t s, wf_epochs empty s ->
  exists s', init_epochs EpValNonneg empty h t (export_epochs s) = Some s' /\
             export_epochs s' = map (rebase_epoch h) (export_epochs s) /\ epochs_equiv h s s'.
Proof.
  intros empty h t s W. exists (map (rb h) s). split; [exact (epochs_init_export empty h t s W)|]. split.
  - unfold export_epochs. rewrite !map_map. reflexivity.
  - reflexivity.
Qed.

(* ================================================================== oracle *)
Lemma map_keyed_id : forall (m : smap voteb), keys_match v_voter m -> map (fun v => (v_voter v, v)) (map snd m) = m.
Proof.
  induction m as [|[k v] r IH]; intros Hk; [reflexivity|].
  cbn [map snd]. rewrite (Hk k v (or_introl eq_refl)). f_equal. apply IH. intros k' v' Hin. apply (Hk k' v'). right. exact Hin.
Qed.

(** rewards: ascending uint64 keys *)
Fixpoint zsorted {V} (m : list (Z * V)) : Prop :=
  match m with
  | [] => True
  | (k, _) :: r => (forall k' v', In (k', v') r -> (k < k')%Z) /\ zsorted r
  end.

Lemma zins_above : forall V (m : list (Z * V)) k v, (forall k' v', In (k', v') m -> (k' < k)%Z) -> zins k v m = m ++ [(k, v)].
Proof.
  induction m as [|[k1 v1] r IH]; intros k v Hb; [reflexivity|].
  cbn [zins app]. assert (k1 < k)%Z by (apply (Hb k1 v1); left; reflexivity).
  destruct (Z.ltb k k1) eqn:E1; [apply Z.ltb_lt in E1; lia|].
  destruct (Z.eqb k k1) eqn:E2; [apply Z.eqb_eq in E2; lia|].
  f_equal. apply IH. intros k' v' Hin. apply (Hb k' v'). right. exact Hin.
Qed.

Lemma zsorted_app_below : forall V (pre : list (Z * V)) k v l, zsorted (pre ++ (k, v) :: l) ->
  forall k' v', In (k', v') pre -> (k' < k)%Z.
Proof.
  induction pre as [|[k1 v1] r IH]; intros k v l H k' v' Hin; [destruct Hin|].
  cbn [app zsorted] in H. destruct H as [Hall Hs]. destruct Hin as [E | Hin].
  - inversion E; subst. apply (Hall k v). apply in_or_app. right. left. reflexivity.
  - exact (IH _ _ _ Hs _ _ Hin).
Qed.

Lemma rewards_fold : forall (l pre : list (Z * reward)),
  zsorted (pre ++ l) -> (forall k r, In (k, r) (pre ++ l) -> rw_id r = k) ->
  fold_left (fun acc r => zins (rw_id r) r acc) (map snd l) pre = pre ++ l.
Proof.
  induction l as [|[k r] rest IH]; intros pre Hs Hk.
  - cbn. rewrite app_nil_r. reflexivity.
  - cbn [map snd fold_left]. rewrite (Hk k r) by (apply in_or_app; right; left; reflexivity).
    rewrite zins_above by (exact (zsorted_app_below _ _ _ _ _ Hs)).
    rewrite IH; rewrite <- app_assoc; cbn [app]; auto.
Qed.

Definition wf_rewards (s : oracle_st) : Prop :=
  zsorted (o_rewards s) /\ (forall k r, In (k, r) (o_rewards s) -> rw_id r = k).

Record wf_oracle' (s : oracle_st) : Prop := {
  wo'_rates : sortedb (o_rates s) = true; wo'_feeders : sortedb (o_feeders s) = true;
  wo'_miss : sortedb (o_miss s) = true; wo'_prevotes : sortedb (o_prevotes s) = true;
  wo'_votes : sortedb (o_votes s) = true; wo'_pairs : ksortedb (o_pairs s) = true;
  wo'_pv_keys : keys_match v_voter (o_prevotes s); wo'_v_keys : keys_match v_voter (o_votes s);
  wo'_rewards : wf_rewards s;
  (* the KeySet is refreshed from Params.Whitelist at the end of every vote period and filled by
     InitGenesis; it is empty with a non-empty whitelist only before the first period end of a chain
     whose genesis whitelist was empty *)
  wo'_pairs_nonempty : o_pairs s = [] -> o_whitelist s = []
}.

Lemma last_in_or_default : forall A (l : list A) d, l = [] \/ In (last l d) l.
Proof.
  induction l as [|x r IH]; intros d; [left; reflexivity|]. right.
  destruct r as [|y r']; [left; reflexivity|]. right.
  destruct (IH d) as [E | H]; [discriminate | exact H].
Qed.

Lemma last_cons_default : forall A (l : list A) d, last (d :: l) d = last l d.
Proof. intros A l d. destruct l; reflexivity. Qed.

Lemma last_map : forall A B (f : A -> B) (l : list A) d, last (map f l) (f d) = f (last l d).
Proof.
  intros A B f. induction l as [|x r IH]; intros d; [reflexivity|].
  destruct r as [|y r']; [reflexivity|].
  change (last (map f (x :: y :: r')) (f d)) with (last (map f (y :: r')) (f d)).
  change (last (x :: y :: r') d) with (last (y :: r') d). apply IH.
Qed.

Lemma zsorted_last_max : forall V (m : list (Z * V)) d k v, zsorted m -> In (k, v) m -> (k <= fst (last m d))%Z.
Proof.
  induction m as [|[k1 v1] r IH]; intros d k v Hs Hin; [destruct Hin|].
  cbn [zsorted] in Hs. destruct Hs as [Hall Hs].
  destruct r as [|x r'].
  - destruct Hin as [E | []]. inversion E. cbn. lia.
  - change (last ((k1, v1) :: x :: r') d) with (last (x :: r') d).
    destruct Hin as [E | Hin].
    + inversion E; subst k1 v1.
      destruct (last_in_or_default _ (x :: r') d) as [E' | Hl]; [discriminate|].
      destruct (last (x :: r') d) as [kl vl] eqn:El. specialize (Hall _ _ Hl). cbn. lia.
    + exact (IH d k v Hs Hin).
Qed.

Lemma oracle_init_export : forall c h t s, wf_oracle' s ->
  let s' := init_oracle c h t (export_oracle s) in
  export_oracle s' = export_oracle s /\
  o_params s' = o_params s /\ o_whitelist s' = o_whitelist s /\ o_feeders s' = o_feeders s /\
  o_miss s' = o_miss s /\ o_prevotes s' = o_prevotes s /\ o_votes s' = o_votes s /\
  o_pairs s' = o_pairs s /\ o_rewards s' = o_rewards s /\
  o_rates s' = map (restamp h t) (o_rates s) /\ o_snaps s' = snaps_of t (o_rates s') /\
  o_rewards_id s' = rewards_id_after c (map snd (o_rewards s)).
Proof.
  intros c h t s W s'. destruct W as [Hr Hf Hm Hpv Hv Hp Kpv Kv [Hrs Hrk] Hne].
  assert (Erates : o_rates s' = map (restamp h t) (o_rates s)).
  { unfold s', init_oracle, export_oracle. cbn [o_rates og_rates]. rewrite map_map. cbn [fst snd].
    exact (of_list_map_vals _ _ (fun kv => {| r_rate := r_rate (snd kv); r_created := h; r_ts := t |}) (o_rates s) Hr). }
  assert (Efeed : o_feeders s' = o_feeders s) by (exact (of_list_sorted _ Hf)).
  assert (Emiss : o_miss s' = o_miss s) by (exact (of_list_sorted _ Hm)).
  assert (Epv : o_prevotes s' = o_prevotes s).
  { unfold s', init_oracle, export_oracle. cbn [o_prevotes og_prevotes]. rewrite (map_keyed_id _ Kpv). exact (of_list_sorted _ Hpv). }
  assert (Ev : o_votes s' = o_votes s).
  { unfold s', init_oracle, export_oracle. cbn [o_votes og_votes]. rewrite (map_keyed_id _ Kv). exact (of_list_sorted _ Hv). }
  assert (Epairs : o_pairs s' = o_pairs s).
  { unfold s', init_oracle, export_oracle. cbn [o_pairs og_pairs og_whitelist].
    destruct (o_pairs s) as [|p ps] eqn:E.
    - rewrite (Hne eq_refl). reflexivity.
    - rewrite <- E. apply kset_of_sorted. rewrite E. exact Hp. }
  assert (Erw : o_rewards s' = o_rewards s).
  { unfold s', init_oracle, export_oracle. cbn [o_rewards og_rewards]. exact (rewards_fold (o_rewards s) [] Hrs Hrk). }
  repeat split; try assumption; try reflexivity.
  unfold export_oracle. rewrite Erates, Efeed, Emiss, Epv, Ev, Epairs, Erw.
  f_equal. rewrite map_map. reflexivity.
Qed.

Lemma rewards_fresh_after : forall c h t s, c_rid c = RidLastPlus1 -> wf_oracle' s ->
  rewards_fresh (init_oracle c h t (export_oracle s)).
Proof.
  intros c h t s Hc W. pose proof (oracle_init_export c h t s W) as H. cbn zeta in H.
  destruct H as (_ & _ & _ & _ & _ & _ & _ & _ & Erw & _ & _ & Eid).
  unfold rewards_fresh. rewrite Erw, Eid. intros k r Hin.
  destruct W as [_ _ _ _ _ _ _ _ [Hrs Hrk] _].
  unfold rewards_id_after. rewrite Hc.
  destruct (o_rewards s) as [|[k0 r0] rest] eqn:E; [destruct Hin|].
  cbn [map snd peek].
  pose proof (zsorted_last_max _ ((k0, r0) :: rest) (k0, r0) k r Hrs Hin) as Hmax.
  (* the id of the last reward is the key of the last entry *)
  assert (Hl : rw_id (last (map snd rest) r0) = fst (last ((k0, r0) :: rest) (k0, r0))).
  { rewrite last_cons_default. change r0 with (snd (k0, r0)) at 1. rewrite last_map.
    destruct (last_in_or_default _ rest (k0, r0)) as [E' | Hl'].
    - subst rest. cbn. exact (Hrk k0 r0 (or_introl eq_refl)).
    - destruct (last rest (k0, r0)) as [kl rl] eqn:El. cbn [fst snd]. apply Hrk. right. exact Hl'. }
  rewrite Hl. lia.
Qed.

(** On the pinned tree (RewardsID := id of the last reward) freshness is lost. *)
Definition stale_witness : oracle_st :=
  {| o_params := 0; o_whitelist := []; o_rates := []; o_feeders := []; o_miss := []; o_prevotes := []; o_votes := [];
     o_pairs := []; o_rewards := [(1%Z, {| rw_id := 1%Z; rw_body := 7 |}); (2%Z, {| rw_id := 2%Z; rw_body := 8 |})];
     o_rewards_id := Some 3%Z; o_snaps := [] |}.

Lemma rewards_id_stale_refuted : forall c h t, c_rid c = RidLast ->
  rewards_freshb stale_witness = true /\
  rewards_freshb (init_oracle c h t (export_oracle stale_witness)) = false.
Proof. intros c h t Hc. split; [reflexivity|]. unfold rewards_freshb, init_oracle, rewards_id_after. cbn. rewrite Hc. reflexivity. Qed.

(** Boundary of hypothesis [wo'_pairs_nonempty] (replayed on the implementation,
    /root/scratch/c20/boundary_empty_whitelist.json): with an empty WhitelistedPairs key set and a
    non-empty Params.Whitelist, InitGenesis falls back to the whitelist and the second export differs. *)
Definition pairs_boundary_witness : oracle_st :=
  {| o_params := 0; o_whitelist := [4; 5]; o_rates := []; o_feeders := []; o_miss := []; o_prevotes := []; o_votes := [];
     o_pairs := []; o_rewards := []; o_rewards_id := None; o_snaps := [] |}.
Lemma oracle_pairs_boundary : forall c h t,
  og_pairs (export_oracle pairs_boundary_witness) = [] /\
  og_pairs (export_oracle (init_oracle c h t (export_oracle pairs_boundary_witness))) = [4; 5].
Proof. intros c h t. split; reflexivity. Qed.

(* ================================================================== tokenfactory *)
Record wf_tf (F : funs) (s : tf_st) : Prop := {
  wt_denoms : sortedb (tf_denoms s) = true;
  wt_admin_keys : map fst (tf_admins s) = map fst (tf_denoms s);          (* every denom has an admin entry *)
  wt_parse : forall d v, In (d, v) (tf_denoms s) -> f_tfparse F d = v;    (* the stored TFDenom is the parsed key *)
  wt_creators : tf_creators s = kset_of (map (fun dv => fst (snd dv)) (tf_denoms s));
  wt_idx : tf_idx s = idx_of (fun _ v => fst v) (tf_denoms s);
  wt_md : forall d v, In (d, v) (tf_denoms s) -> mem d (tf_bankmd s) = true  (* HasDenom = bank metadata exists *)
}.

Lemma tf_export_denoms_ok : forall (ds : smap (key * id)) (adm pre : smap id),
  sortedb (pre ++ adm) = true -> map fst adm = map fst ds ->
  tf_export_denoms (pre ++ adm) ds = Some adm.
Proof.
  induction ds as [|[d v] r IH]; intros adm pre Hs Hk.
  - destruct adm; [reflexivity | discriminate].
  - destruct adm as [|[d' a] adm']; [discriminate|]. cbn in Hk. inversion Hk; subst d'.
    cbn [tf_export_denoms].
    assert (Hg : get d (pre ++ (d, a) :: adm') = Some a).
    { apply get_in; [exact Hs|]. apply in_or_app. right. left. reflexivity. }
    rewrite Hg.
    replace (pre ++ (d, a) :: adm') with ((pre ++ [(d, a)]) ++ adm') by (rewrite <- app_assoc; reflexivity).
    rewrite IH; [reflexivity | rewrite <- app_assoc; exact Hs | assumption].
Qed.

Lemma tf_parse_map : forall F (ds : smap (key * id)) (adm : smap id),
  map fst adm = map fst ds -> (forall d v, In (d, v) ds -> f_tfparse F d = v) ->
  map (fun da => (fst da, f_tfparse F (fst da))) adm = ds.
Proof.
  induction ds as [|[d v] r IH]; intros [|[d' a] adm'] Hk Hp; try discriminate; [reflexivity|].
  cbn in Hk. inversion Hk; subst d'. cbn [map fst]. rewrite (Hp d v (or_introl eq_refl)). f_equal.
  apply IH; [assumption|]. intros d0 v0 Hin. apply Hp. right. exact Hin.
Qed.

Lemma tf_md_kept : forall c F (adm : smap id) md, c_tf_keeps_bank_md c = true ->
  (forall d a, In (d, a) adm -> mem d md = true) ->
  fold_left (fun acc da => let d := fst da in if c_tf_keeps_bank_md c && mem d acc then acc else ins d (f_tfdefmd F d) acc) adm md = md.
Proof.
  intros c F adm md Hc. rewrite Hc. revert md.
  induction adm as [|[d a] r IH]; intros md Hm; [reflexivity|].
  cbn [fold_left fst]. rewrite (Hm d a (or_introl eq_refl)). cbn [andb].
  apply IH. intros d0 a0 Hin. apply (Hm d0 a0). right. exact Hin.
Qed.

Lemma tf_roundtrip : forall c F s, wf_tf F s ->
  exists g, export_tf s = Some g /\
  exists s', init_tf c F (tf_bankmd s) g = Some s' /\ export_tf s' = Some g /\
             tf_params s' = tf_params s /\ tf_denoms s' = tf_denoms s /\ tf_creators s' = tf_creators s /\
             tf_admins s' = tf_admins s /\ tf_idx s' = tf_idx s /\
             (c_tf_keeps_bank_md c = true -> tf_bankmd s' = tf_bankmd s).
Proof.
  intros c F s [Hd Hk Hp Hc Hi Hm].
  assert (Hsa : sortedb (tf_admins s) = true) by (rewrite (sortedb_map_keys _ _ _ _ Hk); exact Hd).
  assert (Hexp : tf_export_denoms (tf_admins s) (tf_denoms s) = Some (tf_admins s)) by (exact (tf_export_denoms_ok _ _ [] Hsa Hk)).
  exists {| tg_params := tf_params s; tg_denoms := tf_admins s |}.
  split; [unfold export_tf; rewrite Hexp; reflexivity|].
  unfold init_tf. cbn [tg_denoms tg_params]. rewrite (nodupb_sorted _ _ Hsa). cbn [negb].
  rewrite (tf_parse_map F _ _ Hk Hp). rewrite (of_list_sorted _ Hd), (of_list_sorted _ Hsa).
  eexists. split; [reflexivity|]. cbn [tf_params tf_denoms tf_creators tf_admins tf_idx tf_bankmd].
  split; [unfold export_tf; cbn [tf_admins tf_denoms tf_params]; rewrite Hexp; reflexivity|].
  split; [reflexivity|]. split; [reflexivity|].
  split.
  { rewrite Hc. f_equal. clear - Hk Hp.
    assert (G : forall (ds : smap (key * id)) (adm : smap id), map fst adm = map fst ds ->
                (forall d v, In (d, v) ds -> f_tfparse F d = v) ->
                map (fun da => fst (f_tfparse F (fst da))) adm = map (fun dv => fst (snd dv)) ds).
    { induction ds as [|[d v] r IH]; intros [|[d' a] adm'] Hk' Hp'; try discriminate; [reflexivity|].
      cbn in Hk'. inversion Hk'; subst d'. cbn [map fst snd]. rewrite (Hp' d v (or_introl eq_refl)). f_equal.
      apply IH; [assumption|]. intros d0 v0 Hin. apply Hp'. right. exact Hin. }
    exact (G _ _ Hk Hp). }
  split; [reflexivity|]. split; [symmetry; exact Hi|].
  intros Hkeep. apply tf_md_kept; [exact Hkeep|].
  intros d a Hin.
  assert (Hind : In d (map fst (tf_denoms s))) by (rewrite <- Hk; apply in_map_iff; exists (d, a); split; [reflexivity | exact Hin]).
  apply in_map_iff in Hind. destruct Hind as [[d' v] [E Hin']]. cbn in E. subst d'. exact (Hm d v Hin').
Qed.

(** On the pinned tree (metadata overwritten with the default) custom metadata is lost. *)
Definition tf_md_witness : tf_st :=
  {| tf_params := 0; tf_denoms := [(5, (3, 1))]; tf_creators := [3]; tf_admins := [(5, 9)];
     tf_idx := [(3, 5)]; tf_bankmd := [(5, 77)] |}.
Definition tf_md_funs : funs :=
  {| f_hash := fun _ => 0; f_code_empty := fun _ => false; f_ftid := fun _ _ => 0;
     f_tfparse := fun _ => (3, 1); f_tfdefmd := fun _ => 42; f_dgsan := fun x => x; f_pairjson := fun p => p;
     f_addr_ok := fun _ => true; f_canon := fun k => k; f_dgp_ok := fun _ => true; f_dgp_enabled := fun _ => true;
     f_gov := 0; f_empty := 0 |}.

Lemma tf_md_witness_wf : wf_tf tf_md_funs tf_md_witness.
Proof.
  constructor; try reflexivity.
  - intros d v [E | []]. inversion E. reflexivity.
  - intros d v [E | []]. inversion E. reflexivity.
Qed.

Lemma tf_bank_md_reset_refuted : forall c, c_tf_keeps_bank_md c = false ->
  exists g s', export_tf tf_md_witness = Some g /\ init_tf c tf_md_funs (tf_bankmd tf_md_witness) g = Some s' /\
               tf_bankmd s' <> tf_bankmd tf_md_witness.
Proof.
  intros c Hc. eexists. eexists. split; [reflexivity|]. split.
  - unfold init_tf. cbn. rewrite Hc. cbn. reflexivity.
  - cbn. discriminate.
Qed.

(* ================================================================== devgas *)
Record wf_devgas (F : funs) (s : devgas_st) : Prop := {
  wd_sorted : sortedb (dg_shares s) = true;
  wd_keys : keys_match fs_contract (dg_shares s);
  wd_idx_dep : dg_idx_dep s = idx_of (fun _ v => fs_deployer v) (dg_shares s);
  wd_idx_wd : dg_idx_wd s = idx_of (fun _ v => fs_withdrawer v) (dg_shares s);
  wd_san : f_dgsan F (dg_params s) = dg_params s;    (* stored params are already sanitised *)
  wd_valid : forall k f, In (k, f) (dg_shares s) -> fs_valid F f = true;   (* FeeShare.Validate accepts every stored share *)
  wd_pok : f_dgp_ok F (dg_params s) = true                                 (* Params.Validate accepts the stored params *)
}.

Lemma map_keyed_id_gen : forall V (f : V -> nat) (m : smap V), keys_match f m -> map (fun v => (f v, v)) (map snd m) = m.
Proof.
  intros V f. induction m as [|[k v] r IH]; intros Hk; [reflexivity|].
  cbn [map snd]. rewrite (Hk k v (or_introl eq_refl)). f_equal. apply IH. intros k' v' Hin. apply (Hk k' v'). right. exact Hin.
Qed.

Lemma map_key_fst : forall V (f : V -> nat) (m : smap V), keys_match f m -> map f (map snd m) = map fst m.
Proof.
  intros V f. induction m as [|[k v] r IH]; intros Hk; [reflexivity|].
  cbn [map snd fst]. rewrite (Hk k v (or_introl eq_refl)). f_equal. apply IH. intros k' v' Hin. apply (Hk k' v'). right. exact Hin.
Qed.

Lemma devgas_roundtrip : forall F s, wf_devgas F s ->
  init_devgas F (export_devgas s) = Some s.
Proof.
  intros F s [Hs Hk Hd Hw Hsan Hv Hp]. unfold init_devgas, export_devgas. cbn [dgg_shares dgg_params].
  rewrite (map_key_fst _ _ _ Hk), (nodupb_sorted _ _ Hs). cbn [negb].
  assert (Hall : forallb (fs_valid F) (map snd (dg_shares s)) = true).
  { apply forallb_forall. intros f Hin. apply in_map_iff in Hin. destruct Hin as [[k f'] [E Hin]]. cbn in E. subst f'.
    exact (Hv k f Hin). }
  rewrite Hall, Hp. cbn [negb].
  rewrite (map_keyed_id_gen _ _ _ Hk), (of_list_sorted _ Hs), Hsan, <- Hd, <- Hw.
  destruct s; reflexivity.
Qed.

(* ================================================================== evm *)
Definition env_sorted (env : list authacc) : Prop := sortedb (map (fun a => (aa_addr a, a)) env) = true.

Record wf_evm (F : funs) (s : evm_st) : Prop := {
  wv_code : sortedb (ev_code s) = true;
  wv_hash : forall h c, In (h, c) (ev_code s) -> f_hash F c = h /\ f_code_empty F c = false;
  wv_storage : sortedb (ev_storage s) = true;
  wv_slots : forall a m, In (a, m) (ev_storage s) -> sortedb m = true /\ m <> [];
  wv_ft : sortedb (ev_ft s) = true;
  wv_ft_keys : keys_match (fun f => f_ftid F (ft_erc20 f) (ft_denom f)) (ev_ft s);
  wv_idx_erc20 : ev_idx_erc20 s = idx_of (fun _ v => ft_erc20 v) (ev_ft s);
  wv_idx_denom : ev_idx_denom s = idx_of (fun _ v => ft_denom v) (ev_ft s)
}.

Lemma find_acc_in : forall env a, env_sorted env -> In a env -> find_acc (aa_addr a) env = Some a.
Proof.
  unfold env_sorted, find_acc. induction env as [|x r IH]; intros a Hs Hin; [destruct Hin|].
  cbn [map] in Hs. apply sortedb_cons in Hs. destruct Hs as [Hs Hall]. cbn [find].
  destruct Hin as [E | Hin].
  - subst x. rewrite Nat.eqb_refl. reflexivity.
  - assert (aa_addr x < aa_addr a).
    { apply (Hall (aa_addr a) a). apply in_map_iff. exists a. split; [reflexivity | exact Hin]. }
    destruct (aa_addr x =? aa_addr a) eqn:E; [apply Nat.eqb_eq in E; lia|]. exact (IH a Hs Hin).
Qed.

(** storing the slots of one account *)
Lemma set_slot_fold : forall a (l pre : smap id) st,
  sortedb (pre ++ l) = true -> pre <> [] ->
  fold_left (set_slot a) l (ins a pre st) = ins a (pre ++ l) st.
Proof.
  intros a. induction l as [|[k v] r IH]; intros pre st Hs Hne.
  - cbn. rewrite app_nil_r. reflexivity.
  - cbn [fold_left]. unfold set_slot at 2. cbn [fst snd].
    unfold storage_of. rewrite get_ins, Nat.eqb_refl.
    rewrite (ins_below pre k v (sortedb_app_below _ _ _ _ Hs)).
    assert (Hii : forall x y, ins a x (ins a y st) = ins a x st).
    { intros x y. clear. induction st as [|[k1 v1] r1 IHs].
      - cbn [ins]. rewrite Nat.ltb_irrefl, Nat.eqb_refl. reflexivity.
      - cbn [ins]. destruct (a <? k1) eqn:E1.
        + cbn [ins]. rewrite Nat.ltb_irrefl, Nat.eqb_refl. reflexivity.
        + destruct (a =? k1) eqn:E2.
          * cbn [ins]. rewrite Nat.ltb_irrefl, Nat.eqb_refl. reflexivity.
          * cbn [ins]. rewrite E1, E2. f_equal. exact IHs. }
    rewrite Hii. rewrite IH.
    + rewrite <- app_assoc. reflexivity.
    + rewrite <- app_assoc. exact Hs.
    + destruct pre; discriminate.
Qed.

Lemma set_slots_account : forall a (m : smap id) st, sortedb m = true -> get a st = None ->
  fold_left (set_slot a) m st = match m with [] => st | _ => ins a m st end.
Proof.
  intros a m st Hs Hg. destruct m as [|[k v] r]; [reflexivity|].
  cbn [fold_left]. unfold set_slot at 2. cbn [fst snd]. unfold storage_of. rewrite Hg. cbn [ins].
  exact (set_slot_fold a r [(k, v)] st Hs ltac:(discriminate)).
Qed.

(** invariant of the account loop of InitGenesis: lookups in the accumulated code / storage are the
    original lookups restricted to the accounts processed so far *)
Definition acc_exported (s : evm_st) (x : authacc) : bool := aa_eth x && mem (aa_hash x) (ev_code s).
Definition hash_seen (s : evm_st) (l : list authacc) (h : key) : bool :=
  existsb (fun x => (aa_hash x =? h) && acc_exported s x) l.
Definition addr_seen (s : evm_st) (l : list authacc) (a : key) : bool :=
  existsb (fun x => (aa_addr x =? a) && acc_exported s x) l.

Definition export_accs (s : evm_st) (l : list authacc) : list gacc :=
  flat_map (fun a =>
     if aa_eth a then
       match get (aa_hash a) (ev_code s) with
       | Some c => [{| ga_addr := aa_addr a; ga_code := c; ga_storage := storage_of (aa_addr a) (ev_storage s) |}]
       | None => []
       end
     else []) l.

Lemma evm_accounts_fold : forall F env s, wf_evm F s -> env_sorted env ->
  forall l done code st,
    env = done ++ l ->
    sortedb code = true -> sortedb st = true ->
    (forall h, get h code = if hash_seen s done h then get h (ev_code s) else None) ->
    (forall a, get a st = if addr_seen s done a then get a (ev_storage s) else None) ->
    exists code' st',
      fold_left (init_evm_acc F env) (export_accs s l) (Some (code, st)) = Some (code', st') /\
      sortedb code' = true /\ sortedb st' = true /\
      (forall h, get h code' = if hash_seen s env h then get h (ev_code s) else None) /\
      (forall a, get a st' = if addr_seen s env a then get a (ev_storage s) else None).
Proof.
  intros F env s W Henv. induction l as [|x r IH]; intros done code st Eenv Hsc Hss Hc Hst.
  - rewrite app_nil_r in Eenv. subst done. exists code, st. cbn. auto.
  - assert (Eenv' : env = (done ++ [x]) ++ r) by (rewrite <- app_assoc; exact Eenv).
    assert (Hin : In x env) by (rewrite Eenv; apply in_or_app; right; left; reflexivity).
    (* no processed account has the address of x *)
    assert (Hfresh : forall y, In y done -> aa_addr y <> aa_addr x).
    { intros y Hy. unfold env_sorted in Henv. rewrite Eenv, map_app in Henv. cbn [map] in Henv.
      pose proof (sortedb_app_below _ _ _ _ Henv (aa_addr y) y) as Hlt.
      assert (aa_addr y < aa_addr x) by (apply Hlt; apply in_map_iff; exists y; split; [reflexivity | exact Hy]). lia. }
    unfold export_accs. cbn [flat_map]. fold (export_accs s r). rewrite fold_left_app.
    destruct (aa_eth x) eqn:Eeth.
    + destruct (get (aa_hash x) (ev_code s)) as [c|] eqn:Eg.
      * (* x is exported *)
        cbn [fold_left]. unfold init_evm_acc at 2. cbn [ga_addr ga_code ga_storage].
        rewrite (find_acc_in env x Henv Hin), Eeth. cbn [negb].
        destruct (wv_hash F s W _ _ (get_some_in _ _ _ Eg)) as [Hh Hemp].
        rewrite Hh, Hemp, Nat.eqb_refl. cbn [negb andb].
        assert (Hgx : get (aa_addr x) st = None).
        { rewrite Hst. destruct (addr_seen s done (aa_addr x)) eqn:E; [|reflexivity].
          unfold addr_seen in E. apply existsb_exists in E. destruct E as [y [Hy E]].
          apply andb_true_iff in E. destruct E as [E _]. apply Nat.eqb_eq in E. exfalso. exact (Hfresh y Hy E). }
        assert (Hslots : sortedb (storage_of (aa_addr x) (ev_storage s)) = true).
        { unfold storage_of. destruct (get (aa_addr x) (ev_storage s)) as [m|] eqn:Em; [|reflexivity].
          exact (proj1 (wv_slots F s W _ _ (get_some_in _ _ _ Em))). }
        rewrite (set_slots_account _ _ _ Hslots Hgx).
        set (st1 := match storage_of (aa_addr x) (ev_storage s) with [] => st | _ => ins (aa_addr x) (storage_of (aa_addr x) (ev_storage s)) st end).
        assert (Hx : acc_exported s x = true) by (unfold acc_exported; rewrite Eeth, mem_get, Eg; reflexivity).
        apply (IH (done ++ [x]) (ins (aa_hash x) c code) st1 Eenv').
        -- apply sortedb_ins. exact Hsc.
        -- unfold st1. destruct (storage_of (aa_addr x) (ev_storage s)); [exact Hss | apply sortedb_ins; exact Hss].
        -- intros h. rewrite get_ins. unfold hash_seen. rewrite existsb_app. cbn [existsb]. rewrite orb_false_r, Hx, andb_true_r.
           fold (hash_seen s done h). rewrite Hc. rewrite (Nat.eqb_sym h (aa_hash x)).
           destruct (aa_hash x =? h) eqn:E.
           ++ apply Nat.eqb_eq in E. subst h. rewrite orb_true_r. symmetry. exact Eg.
           ++ rewrite orb_false_r. reflexivity.
        -- intros a. unfold addr_seen. rewrite existsb_app. cbn [existsb]. rewrite orb_false_r, Hx, andb_true_r.
           fold (addr_seen s done a). unfold st1, storage_of.
           destruct (aa_addr x =? a) eqn:E.
           ++ apply Nat.eqb_eq in E. subst a. rewrite orb_true_r.
              destruct (get (aa_addr x) (ev_storage s)) as [m|] eqn:Em.
              ** destruct (wv_slots F s W _ _ (get_some_in _ _ _ Em)) as [_ Hne].
                 destruct m as [|e m']; [congruence|]. rewrite get_ins, Nat.eqb_refl. reflexivity.
              ** exact Hgx.
           ++ rewrite orb_false_r.
              destruct (get (aa_addr x) (ev_storage s)) as [[|e m']|]; try exact (Hst a).
              rewrite get_ins, (Nat.eqb_sym a (aa_addr x)), E. exact (Hst a).
      * (* an EthAccount without bytecode: skipped *)
        cbn [fold_left].
        assert (Hx : acc_exported s x = false) by (unfold acc_exported; rewrite Eeth, mem_get, Eg; reflexivity).
        apply (IH (done ++ [x]) code st Eenv' Hsc Hss).
        -- intros h. unfold hash_seen. rewrite existsb_app. cbn [existsb]. rewrite Hx, andb_false_r, !orb_false_r. exact (Hc h).
        -- intros a. unfold addr_seen. rewrite existsb_app. cbn [existsb]. rewrite Hx, andb_false_r, !orb_false_r. exact (Hst a).
    + cbn [fold_left].
      assert (Hx : acc_exported s x = false) by (unfold acc_exported; rewrite Eeth; reflexivity).
      apply (IH (done ++ [x]) code st Eenv' Hsc Hss).
      -- intros h. unfold hash_seen. rewrite existsb_app. cbn [existsb]. rewrite Hx, andb_false_r, !orb_false_r. exact (Hc h).
      -- intros a. unfold addr_seen. rewrite existsb_app. cbn [existsb]. rewrite Hx, andb_false_r, !orb_false_r. exact (Hst a).
Qed.

Lemma flat_map_ext_in : forall A B (f g : A -> list B) l, (forall a, In a l -> f a = g a) -> flat_map f l = flat_map g l.
Proof.
  intros A B f g. induction l as [|x r IH]; intros H; [reflexivity|].
  cbn [flat_map]. rewrite (H x (or_introl eq_refl)), IH; [reflexivity|]. intros a Ha. apply H. right. exact Ha.
Qed.

Lemma hash_seen_witness : forall s env x, In x env -> acc_exported s x = true -> hash_seen s env (aa_hash x) = true.
Proof.
  intros s env x Hin Hx. unfold hash_seen. apply existsb_exists. exists x. split; [exact Hin|]. rewrite Nat.eqb_refl, Hx. reflexivity.
Qed.
Lemma addr_seen_witness : forall s env x, In x env -> acc_exported s x = true -> addr_seen s env (aa_addr x) = true.
Proof.
  intros s env x Hin Hx. unfold addr_seen. apply existsb_exists. exists x. split; [exact Hin|]. rewrite Nat.eqb_refl, Hx. reflexivity.
Qed.

Lemma addr_seen_exported : forall s env a, addr_seen s env a = exported_acc env s a.
Proof.
  intros s env a. unfold addr_seen, exported_acc, acc_exported. induction env as [|x r IH]; [reflexivity|].
  cbn [existsb]. rewrite IH, andb_assoc. reflexivity.
Qed.

Lemma hash_seen_exported : forall s env h v, get h (ev_code s) = Some v -> hash_seen s env h = exported_hash env s h.
Proof.
  intros s env h v Hg. unfold hash_seen, exported_hash, acc_exported. induction env as [|x r IH]; [reflexivity|].
  cbn [existsb]. rewrite IH. f_equal.
  destruct (aa_hash x =? h) eqn:E; [|reflexivity]. apply Nat.eqb_eq in E. rewrite E, mem_get, Hg, andb_true_r. reflexivity.
Qed.

Lemma evm_roundtrip : forall F env s, wf_evm F s -> env_sorted env ->
  exists s', init_evm F env (export_evm env s) = Some s' /\
             export_evm env s' = export_evm env s /\ evm_equiv env s s'.
Proof.
  intros F env s W Henv.
  destruct (evm_accounts_fold F env s W Henv env [] [] [] eq_refl eq_refl eq_refl
              (fun h => eq_refl) (fun a => eq_refl)) as (code' & st' & Hfold & Hsc & Hss & Hc & Hst).
  assert (Eft : of_list (map (fun f => (f_ftid F (ft_erc20 f) (ft_denom f), f)) (map snd (ev_ft s))) = ev_ft s).
  { rewrite (map_keyed_id_gen _ _ _ (wv_ft_keys F s W)). exact (of_list_sorted _ (wv_ft F s W)). }
  assert (Ecode : code' = filter (fun kv => exported_hash env s (fst kv)) (ev_code s)).
  { apply sorted_ext; [exact Hsc | apply sortedb_filter; exact (wv_code F s W)|].
    intros h. rewrite Hc, (get_filter_key (exported_hash env s) _ h (wv_code F s W)).
    destruct (get h (ev_code s)) as [v|] eqn:Eg.
    - rewrite (hash_seen_exported s env h v Eg). reflexivity.
    - destruct (hash_seen s env h), (exported_hash env s h); reflexivity. }
  assert (Est : st' = filter (fun kv => exported_acc env s (fst kv)) (ev_storage s)).
  { apply sorted_ext; [exact Hss | apply sortedb_filter; exact (wv_storage F s W)|].
    intros a. rewrite Hst, (get_filter_key (exported_acc env s) _ a (wv_storage F s W)), addr_seen_exported. reflexivity. }
  eexists. split.
  - unfold init_evm, export_evm. cbn [eg_accounts eg_ft eg_params]. fold (export_accs s env). rewrite Hfold, Eft. reflexivity.
  - split.
    + unfold export_evm. cbn [ev_params ev_code ev_storage ev_ft]. f_equal.
      * apply flat_map_ext_in. intros x Hin. destruct (aa_eth x) eqn:Eeth; [|reflexivity].
        rewrite Hc. destruct (get (aa_hash x) (ev_code s)) as [c|] eqn:Eg.
        -- assert (Hx : acc_exported s x = true) by (unfold acc_exported; rewrite Eeth, mem_get, Eg; reflexivity).
           rewrite (hash_seen_witness s env x Hin Hx). unfold storage_of. rewrite Hst, (addr_seen_witness s env x Hin Hx). reflexivity.
        -- destruct (hash_seen s env (aa_hash x)); reflexivity.
    + unfold evm_equiv. cbn [ev_params ev_code ev_storage ev_ft ev_idx_erc20 ev_idx_denom].
      rewrite (wv_idx_erc20 F s W), (wv_idx_denom F s W). repeat split; assumption.
Qed.

(* ================================================================== the application *)
Record wf_app (F : funs) (env : list authacc) (s : app_st) : Prop := {
  wa_sudo : a_sudo s <> None;
  wa_epochs : wf_epochs (f_empty F) (a_epochs s);
  wa_oracle : wf_oracle' (a_oracle s);
  wa_tf : wf_tf F (a_tf s);
  wa_devgas : wf_devgas F (a_devgas s);
  wa_evm : wf_evm F (a_evm s);
  wa_env : env_sorted env;
  (* the JSON codec of asset.Pair is the identity on every pair the oracle stores *)
  wa_json : forall p, In p (oracle_pair_keys (a_oracle s)) -> f_pairjson F p = p
}.

Lemma map_fixed : forall (f : nat -> nat) l, (forall x, In x l -> f x = x) -> map f l = l.
Proof.
  intros f. induction l as [|x r IH]; intros H; [reflexivity|].
  cbn [map]. rewrite (H x (or_introl eq_refl)), IH; [reflexivity|]. intros y Hy. apply H. right. exact Hy.
Qed.

Lemma json_oracle_gen_id : forall F s, (forall p, In p (oracle_pair_keys s) -> f_pairjson F p = p) ->
  json_oracle_gen F (export_oracle s) = export_oracle s.
Proof.
  intros F s H. unfold oracle_pair_keys in H. unfold json_oracle_gen, export_oracle.
  cbn [og_params og_whitelist og_rates og_feeders og_miss og_prevotes og_votes og_pairs og_rewards].
  rewrite (map_fixed (f_pairjson F) (o_whitelist s)) by (intros x Hx; apply H; apply in_or_app; left; exact Hx).
  rewrite (map_fixed (f_pairjson F) (o_pairs s)) by (intros x Hx; apply H; apply in_or_app; right; apply in_or_app; right; exact Hx).
  f_equal. rewrite map_map. cbn [fst snd].
  assert (G : forall l : smap rate, (forall x, In x (map fst l) -> f_pairjson F x = x) ->
              map (fun x => (f_pairjson F (fst x), r_rate (snd x))) l = map (fun kv => (fst kv, r_rate (snd kv))) l).
  { induction l as [|[k v] r IH]; intros Hl; [reflexivity|]. cbn [map fst snd].
    rewrite (Hl k (or_introl eq_refl)), IH; [reflexivity|]. intros y Hy. apply Hl. right. exact Hy. }
  apply G. intros x Hx. apply H. apply in_or_app. right. apply in_or_app. left. exact Hx.
Qed.

(** Main theorem: from a well-formed state, the export can be imported into a fresh chain (at any
    height [h] and time [t]); exporting that chain again gives the first export with the epoch start
    heights re-based to [h]; and the imported state agrees with the original up to the exception
    list of the tree's genesis code ([stale_ok] / [reset_ok] say whether that list contains the two
    defect exceptions). *)
Theorem app_roundtrip : forall c F env h t s, c_ep_val c = EpValNonneg -> c_ep_start c = EpStZeroOnly -> wf_app F env s ->
  exists g s',
    export_app env s = Some g /\
    init_app c F env (tf_bankmd (a_tf s)) h t g = Some s' /\
    export_app env s' = Some (rebase_gen h g) /\
    state_equiv (negb (match c_rid c with RidLastPlus1 => true | _ => false end)) (negb (c_tf_keeps_bank_md c)) env h t s s'.
Proof.
  intros c F env h t s Hep Hst [Wsu We Wo Wt Wd Wv Wenv Wjson].
  destruct (a_sudo s) as [su|] eqn:Esu; [|congruence].
  destruct (tf_roundtrip c F _ Wt) as (gt & Hgt & tf' & Htf' & Hgt' & Htp & Htd & Htc & Hta & Hti & Htm).
  destruct (epochs_roundtrip _ h t _ We) as (e' & He' & Hee & Heq).
  destruct (evm_roundtrip F env _ Wv Wenv) as (ev' & Hev' & Hevx & Hevq).
  pose proof (oracle_init_export c h t _ Wo) as Ho. cbn zeta in Ho.
  destruct Ho as (Hox & Hop & Howl & Hof & Hom & Hopv & Hov & Hopr & Horw & Hor & Hosn & Hoid).
  eexists. eexists. split.
  - unfold export_app. rewrite Esu, Hgt. cbn [export_sudo]. reflexivity.
  - split.
    + unfold init_app. cbn [g_epochs g_tf g_devgas g_evm g_sudo g_infl g_oracle].
      unfold init_epochs in He'. unfold init_epochs_mod_r. rewrite Hep, Hst, He', Htf', (devgas_roundtrip F _ Wd), Hev', (json_oracle_gen_id F _ Wjson). reflexivity.
    + split.
      * unfold export_app. cbn [a_sudo a_tf a_infl a_epochs a_oracle a_devgas a_evm init_sudo export_sudo].
        rewrite Hgt'. unfold rebase_gen. cbn [g_sudo g_infl g_epochs g_oracle g_tf g_devgas g_evm].
        rewrite Hee, Hox, Hevx. reflexivity.
      * unfold state_equiv. cbn [a_sudo a_tf a_infl a_epochs a_oracle a_devgas a_evm].
        split; [unfold init_sudo; symmetry; exact Esu|].
        split; [apply infl_state_equiv|].
        split; [exact Heq|].
        split.
        { unfold oracle_equiv. do 10 (split; [assumption|]).
          intros Hso _. destruct (c_rid c) eqn:Ec; cbn in Hso; try discriminate.
          apply rewards_fresh_after; assumption. }
        split.
        { unfold tf_equiv. do 5 (split; [assumption|]).
          intros Hro. apply Htm. destruct (c_tf_keeps_bank_md c); [reflexivity | discriminate]. }
        split; [reflexivity | exact Hevq].
Qed.

(* ================================================================== the boolean hypotheses checker is sound *)
Ltac andb_split :=
  repeat match goal with H : _ && _ = true |- _ => apply andb_true_iff in H; destruct H end.

Lemma keys_matchb_sound : forall V (f : V -> nat) (m : smap V), keys_matchb f m = true -> keys_match f m.
Proof.
  intros V f m H k v Hin. unfold keys_matchb in H. rewrite forallb_forall in H.
  specialize (H _ Hin). cbn in H. apply Nat.eqb_eq in H. exact H.
Qed.

Lemma zsortedb_sound : forall V (m : list (Z * V)), zsortedb m = true -> zsorted m.
Proof.
  induction m as [|[k v] r IH]; intros H; [exact I|].
  cbn [zsortedb] in H. apply andb_true_iff in H. destruct H as [Ha Hs]. cbn [zsorted]. split; [|exact (IH Hs)].
  intros k' v' Hin. rewrite forallb_forall in Ha. specialize (Ha _ Hin). cbn in Ha. apply Z.ltb_lt in Ha. exact Ha.
Qed.

Lemma wf_appb_sound : forall F env s, wf_appb F env s = true -> wf_app F env s.
Proof.
  intros F env s H. unfold wf_appb in H. andb_split.
  constructor.
  - destruct (a_sudo s); [discriminate | discriminate].
  - match goal with H : wf_epochsb _ _ = true |- _ => unfold wf_epochsb in H; andb_split end.
    constructor; [assumption | apply keys_matchb_sound; assumption | |].
    + intros k e Hin. match goal with H : forallb (fun kv => negb _) (a_epochs s) = true |- _ =>
        rewrite forallb_forall in H; specialize (H _ Hin); cbn in H; apply negb_true_iff in H; apply Z.eqb_neq in H; exact H end.
    + intros k e Hin. match goal with H : forallb (fun kv => epoch_valid _ _ _) (a_epochs s) = true |- _ =>
        rewrite forallb_forall in H; exact (H _ Hin) end.
  - match goal with H : wf_oracleb _ = true |- _ => unfold wf_oracleb in H; andb_split end.
    constructor; try assumption; try (apply keys_matchb_sound; assumption).
    + split; [apply zsortedb_sound; assumption|].
      intros k r Hin. match goal with H : forallb _ (o_rewards _) = true |- _ => rewrite forallb_forall in H; specialize (H _ Hin); cbn in H; apply Z.eqb_eq in H; exact H end.
    + intros E. rewrite E in *. destruct (o_whitelist (a_oracle s)); [reflexivity | discriminate].
  - match goal with H : wf_tfb _ _ = true |- _ => unfold wf_tfb in H; andb_split end.
    constructor; try assumption; try (eapply eqb_of_true; eassumption).
    + intros d v Hin. match goal with H : forallb (fun dv => eqb_of pair_nn_dec _ _) _ = true |- _ => rewrite forallb_forall in H; specialize (H _ Hin); cbn in H; apply eqb_of_true in H; exact H end.
    + intros d v Hin. match goal with H : forallb (fun dv => mem _ _) _ = true |- _ => rewrite forallb_forall in H; specialize (H _ Hin); exact H end.
  - match goal with H : wf_devgasb _ _ = true |- _ => unfold wf_devgasb in H; andb_split end.
    constructor; try assumption; try (eapply eqb_of_true; eassumption); try (apply keys_matchb_sound; assumption).
    + apply Nat.eqb_eq. assumption.
    + intros k f Hin. match goal with H : forallb _ (dg_shares _) = true |- _ => rewrite forallb_forall in H; exact (H _ Hin) end.
  - match goal with H : wf_evmb _ _ = true |- _ => unfold wf_evmb in H; andb_split end.
    constructor; try assumption; try (eapply eqb_of_true; eassumption); try (apply keys_matchb_sound; assumption).
    + intros h c Hin. match goal with H : forallb _ (ev_code _) = true |- _ => rewrite forallb_forall in H; specialize (H _ Hin); cbn in H end.
      andb_split. split; [apply Nat.eqb_eq; assumption | apply negb_true_iff; assumption].
    + intros a m Hin. match goal with H : forallb _ (ev_storage _) = true |- _ => rewrite forallb_forall in H; specialize (H _ Hin); cbn in H end.
      andb_split. split; [assumption|]. destruct m; [discriminate | discriminate].
  - assumption.
  - intros p Hin. match goal with H : pairs_json_fixedb _ _ = true |- _ =>
      unfold pairs_json_fixedb in H; rewrite forallb_forall in H; specialize (H _ Hin); apply Nat.eqb_eq in H; exact H end.
Qed.

(* ================================================================== non-vacuity *)
(** A state with: a contract with two slots and a FunToken, a code-less account with storage, orphan
    bytecode, a token-factory denom whose admin differs from its creator and with custom bank
    metadata, a fee share, two epochs, pending prevote / vote / two pending rewards, a miss counter. *)
Definition ex_funs : funs :=
  {| f_hash := fun c => c - 100;                    (* code ids 101, 102 hash to 1, 2 *)
     f_code_empty := fun c => c =? 0;
     f_ftid := fun e d => e + d;
     f_tfparse := fun d => (d + 1, d + 2);
     f_tfdefmd := fun d => 500 + d;
     f_dgsan := fun p => p;
     f_pairjson := fun p => p;
     f_addr_ok := fun k => negb (k =? 99); f_canon := fun k => k; f_dgp_ok := fun _ => true; f_dgp_enabled := fun _ => true;
     f_gov := 1; f_empty := 99 |}.
Definition ex_env : list authacc :=
  [ {| aa_addr := 1; aa_eth := true; aa_hash := 0 |};        (* EOA *)
    {| aa_addr := 3; aa_eth := true; aa_hash := 1 |};        (* contract with storage *)
    {| aa_addr := 4; aa_eth := true; aa_hash := 0 |};        (* code-less account that has storage *)
    {| aa_addr := 6; aa_eth := false; aa_hash := 0 |} ].     (* module account *)
Definition ex_state : app_st :=
  {| a_sudo := Some {| su_root := 1; su_contracts := [2; 3] |};
     a_infl := {| in_params := 4; in_period := Some 2%Z; in_skipped := Some 5%Z |};
     a_epochs := [(0, {| ep_id := 0; ep_start := 1000%Z; ep_dur := 60%Z; ep_cur := 7%Z; ep_cstart := 1420%Z; ep_started := true; ep_height := 33%Z |});
                  (1, {| ep_id := 1; ep_start := 1000%Z; ep_dur := 3600%Z; ep_cur := 1%Z; ep_cstart := 1000%Z; ep_started := true; ep_height := 2%Z |})];
     a_oracle := {| o_params := 9; o_whitelist := [5; 2]; o_rates := [(2, {| r_rate := 31; r_created := 30%Z; r_ts := 1400%Z |})];
                    o_feeders := [(7, 1)]; o_miss := [(8, 3%Z)];
                    o_prevotes := [(7, {| v_voter := 7; v_body := 40 |})]; o_votes := [(8, {| v_voter := 8; v_body := 41 |})];
                    o_pairs := [2; 5];
                    o_rewards := [(1%Z, {| rw_id := 1%Z; rw_body := 50 |}); (2%Z, {| rw_id := 2%Z; rw_body := 51 |})];
                    o_rewards_id := Some 3%Z;
                    o_snaps := [{| sn_pair := 2; sn_ts_key := 1300%Z; sn_pair_f := 2; sn_price := 30; sn_ts := 1300%Z |};
                                {| sn_pair := 2; sn_ts_key := 1400%Z; sn_pair_f := 2; sn_price := 31; sn_ts := 1400%Z |}] |};
     a_tf := {| tf_params := 11; tf_denoms := [(10, (11, 12))]; tf_creators := [11]; tf_admins := [(10, 77)];
                tf_idx := [(11, 10)]; tf_bankmd := [(10, 999)] |};
     a_devgas := {| dg_params := 13; dg_shares := [(20, {| fs_contract := 20; fs_deployer := 21; fs_withdrawer := 22 |})];
                    dg_idx_dep := [(21, 20)]; dg_idx_wd := [(22, 20)] |};
     a_evm := {| ev_params := 14; ev_code := [(1, 101); (2, 102)];     (* 102 = bytecode of a self-destructed contract *)
                 ev_storage := [(3, [(0, 60); (5, 61)]); (4, [(1, 62)])];
                 ev_ft := [(13, {| ft_erc20 := 3; ft_denom := 10; ft_body := 70 |})];
                 ev_idx_erc20 := [(3, 13)]; ev_idx_denom := [(10, 13)] |} |}.

Example app_wf_nonvacuous : wf_app ex_funs ex_env ex_state.
Proof. apply wf_appb_sound. vm_compute. reflexivity. Qed.

(** … and on it the round trip really drops / re-bases what the exception list says (and nothing else). *)
Example app_roundtrip_nonvacuous :
  let c := {| c_rid := RidLastPlus1; c_tf_keeps_bank_md := true; c_pair_json_id := true; c_dg_upd := DgUpdKeep; c_ep_val := EpValNonneg; c_ep_swallow := true; c_ep_start := EpStZeroOnly |} in
  exists g s', export_app ex_env ex_state = Some g /\
    init_app c ex_funs ex_env (tf_bankmd (a_tf ex_state)) 100%Z 2000%Z g = Some s' /\
    s' <> ex_state /\
    ev_code (a_evm s') = [(1, 101)] /\ ev_storage (a_evm s') = [(3, [(0, 60); (5, 61)])] /\
    o_rewards_id (a_oracle s') = Some 3%Z /\
    state_equivb false false ex_env 100%Z 2000%Z ex_state s' = true.
Proof.
  eexists. eexists. split; [vm_compute; reflexivity|]. split; [vm_compute; reflexivity|].
  split; [discriminate|]. repeat split; vm_compute; reflexivity.
Qed.

Lemma cfg_ok_parts : forall c, cfg_ok c = true ->
  match c_rid c with RidLastPlus1 => c_tf_keeps_bank_md c && c_pair_json_id c | _ => false end = true /\
  c_dg_upd c = DgUpdKeep /\ c_ep_val c = EpValNonneg.
Proof.
  intros c H. unfold cfg_ok in H. apply andb_true_iff in H. destruct H as [H _]. apply andb_true_iff in H. destruct H as [H H3]. apply andb_true_iff in H. destruct H as [H1 H2].
  split; [exact H1|]. split; [destruct (c_dg_upd c); congruence | destruct (c_ep_val c); congruence].
Qed.

Lemma cfg_ok_start : forall c, cfg_ok c = true -> c_ep_start c = EpStZeroOnly.
Proof.
  intros c H. unfold cfg_ok in H. apply andb_true_iff in H. destruct H as [_ H]. destruct (c_ep_start c); congruence.
Qed.

(* ================================================================== corollaries exported by Property.v *)
Lemma export_roundtrip : forall c F env h t s, c_ep_val c = EpValNonneg -> c_ep_start c = EpStZeroOnly -> wf_app F env s ->
  exists g s' g', export_app env s = Some g /\ init_app c F env (tf_bankmd (a_tf s)) h t g = Some s' /\
                  export_app env s' = Some g' /\ gen_equiv h g g'.
Proof.
  intros c F env h t s Hep Hst W. destruct (app_roundtrip c F env h t s Hep Hst W) as (g & s' & H1 & H2 & H3 & _).
  exists g, s', (rebase_gen h g). split; [exact H1|]. split; [exact H2|]. split; [exact H3|]. reflexivity.
Qed.

Lemma state_equiv_strict : forall c F env h t s, cfg_ok c = true -> wf_app F env s ->
  exists g s', export_app env s = Some g /\ init_app c F env (tf_bankmd (a_tf s)) h t g = Some s' /\
               state_equiv false false env h t s s'.
Proof.
  intros c F env h t s Hc W.
  destruct (app_roundtrip c F env h t s (proj2 (proj2 (cfg_ok_parts c Hc))) (cfg_ok_start c Hc) W) as (g & s' & H1 & H2 & _ & H4).
  exists g, s'. apply cfg_ok_parts in Hc. destruct Hc as [Hc _]. destruct (c_rid c); try discriminate.
  apply andb_true_iff in Hc. destruct Hc as [Hc _]. rewrite Hc in H4. cbn in H4.
  split; [exact H1|]. split; [exact H2|]. exact H4.
Qed.

Lemma exceptions_of_ok_cfg : forall c, cfg_ok c = true -> exceptions c = tolerated.
Proof.
  intros c Hc. apply cfg_ok_parts in Hc. destruct Hc as [Hc _]. unfold exceptions. destruct (c_rid c); try discriminate.
  apply andb_true_iff in Hc. destruct Hc as [Hc _]. rewrite Hc. reflexivity.
Qed.

(* ================================================================== the imported state is well-formed again *)
Lemma keys_match_map_vals : forall V (f : V -> nat) (g : nat * V -> V) (m : smap V),
  (forall kv, f (g kv) = f (snd kv)) -> keys_match f m -> keys_match f (map (fun kv => (fst kv, g kv)) m).
Proof.
  intros V f g m Hg Hk k v Hin. apply in_map_iff in Hin. destruct Hin as [[k0 v0] [E Hin]]. cbn in E. inversion E; subst.
  rewrite Hg. cbn. exact (Hk _ _ Hin).
Qed.

Lemma wf_after_import : forall F env h t s s', (0 <= h)%Z ->
  wf_app F env s -> state_equiv false false env h t s s' -> wf_app F env s'.
Proof.
  intros F env h t s s' Hh0 [Wsu [Hes Hek Hest Hev] Wo Wt Wd Wv Wenv Wjson] (Esu & Einf & Eep & Eo & Etf & Edg & Eev).
  constructor.
  - rewrite Esu. exact Wsu.
  - unfold epochs_equiv in Eep. rewrite Eep. constructor.
    + rewrite (sortedb_map_vals _ _ (fun kv => rebase_epoch h (snd kv))). exact Hes.
    + apply (keys_match_map_vals _ ep_id (fun kv => rebase_epoch h (snd kv))); [reflexivity | exact Hek].
    + intros k e Hin. apply in_map_iff in Hin. destruct Hin as [[k0 e0] [E Hin]]. cbn in E. inversion E; subst. cbn. exact (Hest _ _ Hin).
    + (* the re-based height is the import height: valid because it is not negative — height 0 included *)
      intros k e Hin. apply in_map_iff in Hin. destruct Hin as [[k0 e0] [E Hin]]. cbn in E. inversion E; subst.
      pose proof (Hev _ _ Hin) as Hv. unfold epoch_valid in *. cbn [rebase_epoch ep_id ep_dur ep_height ep_started] in *.
      apply andb_true_iff in Hv. destruct Hv as [Hv _]. apply andb_true_iff in Hv. destruct Hv as [Hv _].
      rewrite Hv. apply Z.leb_le in Hh0. rewrite Hh0. reflexivity.
  - destruct Eo as (E1 & E2 & E3 & E4 & E5 & E6 & E7 & E8 & E9 & E10 & _).
    destruct Wo as [Hr Hf Hm Hpv Hv Hp Kpv Kv [Hrs Hrk] Hne].
    constructor; try (rewrite ?E3, ?E4, ?E5, ?E6, ?E7; assumption).
    + rewrite E9. unfold restamp. rewrite (sortedb_map_vals _ _ (fun kv => {| r_rate := r_rate (snd kv); r_created := h; r_ts := t |})). exact Hr.
    + unfold wf_rewards. rewrite E8. split; assumption.
    + rewrite E7, E2. exact Hne.
  - destruct Etf as (E1 & E2 & E3 & E4 & E5 & E6). specialize (E6 eq_refl).
    destruct Wt as [Hd Hk Hp Hc Hi Hm]. constructor; rewrite ?E2, ?E3, ?E4, ?E5, ?E6; assumption.
  - rewrite Edg. exact Wd.
  - destruct Eev as (E1 & E2 & E3 & E4 & E5 & E6). destruct Wv as [Hc Hh Hs Hsl Hft Hfk Hi1 Hi2].
    constructor; rewrite ?E2, ?E3, ?E4; try assumption.
    + rewrite E5. apply sortedb_filter. exact Hc.
    + intros hh c Hin. rewrite E5 in Hin. apply filter_In in Hin. exact (Hh _ _ (proj1 Hin)).
    + rewrite E6. apply sortedb_filter. exact Hs.
    + intros a m Hin. rewrite E6 in Hin. apply filter_In in Hin. exact (Hsl _ _ (proj1 Hin)).
  - exact Wenv.
  - destruct Eo as (_ & E2 & _ & _ & _ & _ & E7 & _ & E9 & _).
    intros p Hin. apply Wjson. unfold oracle_pair_keys in *. rewrite E2, E7, E9 in Hin.
    rewrite map_map in Hin. exact Hin.
Qed.

(** hence the round trip can be iterated: importing the second export (at any later height) gives a
    third export that is again the first one up to the epoch start heights *)
Lemma roundtrip_twice : forall c F env h t h2 t2 s, (0 <= h)%Z -> cfg_ok c = true -> wf_app F env s ->
  exists g s' s'' g'',
    export_app env s = Some g /\ init_app c F env (tf_bankmd (a_tf s)) h t g = Some s' /\
    init_app c F env (tf_bankmd (a_tf s')) h2 t2 (rebase_gen h g) = Some s'' /\
    export_app env s'' = Some g'' /\ gen_equiv h2 g g''.
Proof.
  intros c F env h t h2 t2 s Hh Hc W.
  pose proof (proj2 (proj2 (cfg_ok_parts c Hc))) as Hep.
  destruct (app_roundtrip c F env h t s Hep (cfg_ok_start c Hc) W) as (g & s' & H1 & H2 & H3 & H4).
  assert (H4' : state_equiv false false env h t s s').
  { apply cfg_ok_parts in Hc. destruct Hc as [Hc _]. destruct (c_rid c); try discriminate.
    apply andb_true_iff in Hc. destruct Hc as [Hc _]. rewrite Hc in H4. exact H4. }
  pose proof (wf_after_import F env h t s s' Hh W H4') as W'.
  destruct (app_roundtrip c F env h2 t2 s' Hep (cfg_ok_start c Hc) W') as (g2 & s'' & K1 & K2 & K3 & _).
  rewrite H3 in K1. inversion K1; subst g2.
  exists g, s', s'', (rebase_gen h2 (rebase_gen h g)). repeat (split; [assumption|]).
  unfold gen_equiv, rebase_gen. cbn. f_equal. rewrite map_map. reflexivity.
Qed.

(** If the JSON codec of pairs is not the identity on a stored pair (e.g. it lower-cases), the pair comes
    back under another name: the second export differs and the original pair is no longer whitelisted. *)
Definition pair_json_witness : oracle_st :=
  {| o_params := 0; o_whitelist := [5]; o_rates := [(5, {| r_rate := 9; r_created := 1%Z; r_ts := 1%Z |})]; o_feeders := [];
     o_miss := []; o_prevotes := []; o_votes := []; o_pairs := [5]; o_rewards := []; o_rewards_id := None; o_snaps := [] |}.
Lemma pair_json_codec_refuted : forall c F h t, f_pairjson F 5 = 4 ->
  let s' := init_oracle c h t (json_oracle_gen F (export_oracle pair_json_witness)) in
  o_pairs s' = [4] /\ map fst (o_rates s') = [4] /\ og_pairs (export_oracle s') <> og_pairs (export_oracle pair_json_witness).
Proof. intros c F h t H. cbn. rewrite H. cbn. repeat split. discriminate. Qed.
