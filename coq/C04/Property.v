(** C04 — call-frame atomicity across EVM state and precompile side effects.
    This file holds only the exported statements (model: Model.v = x/evm/statedb of /repo HEAD:
    journal, dirty counts, state-object cache, evmTxCtx store + cacheCtx branch, OnRunStart's
    snapshot + intermediate commit, bank sends mirrored by SyncStateDBWithAccount, final Commit). *)
From Coq Require Import ZArith List Bool.
Import ListNotations.
Local Open Scope Z_scope.
Require Import Nib.C04.Model Nib.C04.Spec Nib.C04.Proofs.

(** FRAME ATOMICITY.  For every call limit [mx], every initial store [t0] and every well-formed
    script [body] — any interleaving, at any nesting depth and of any length, of EVM writes
    (balance incl. sub-unibi dust, nonce, code, storage, logs, refund, access list, create,
    selfdestruct), reads, Snapshot/RevertToSnapshot frames and precompile invocations (succeeding,
    failing after OnRunStart, or refused by the per-tx limit) whose bodies move unibi between
    accounts by bank sends on the cache context — what StateDB.Commit writes (accounts, bank
    balances, code, storage: [commit]) is exactly the final state of the copy-on-frame reference
    ([r_final (rrun …)]: a reverted frame restores the joint EVM x bank state it started with and
    nothing else), and so are the journaled tx data.  No bound on anything.  [bl] are blocked module
    accounts: a flush (before a precompile call, or the final one) that would have to credit one of
    them FAILS after writing a prefix of the dirty accounts; the precompile call then fails and the
    prefix is undone with the frame.  StateDB.Commit itself returns an error exactly when the
    reference still holds such a credit at the end ([commit_fails s = r_pending r]; the tx then
    fails as a whole). *)
Theorem C04_frame_atomicity :
  forall (mx : Z) (bl : list addr) (t0 : store) (body : list prog),
    wf_body mx body (r_init bl t0) = true ->
    let s := run (PFrame body false) (init {| repaired := true; maxc := mx; blocked := bl |} t0) in
    let r := rrun mx (PFrame body false) (r_init bl t0) in
    store_eq (commit s) (r_final r) /\ auxeq (aux s) (r_aux r) /\ commit_fails s = r_pending r.
Proof. exact frame_atomicity. Qed.
Print Assumptions C04_frame_atomicity.

(** (P1) A reverted frame — whatever it contains, including whole precompile calls whose bodies move
    bank coins, write EVM state (ERC20 mint / burn / transfer), open nested frames and make nested
    precompile calls; [nosend]: bank sends sit inside precompile bodies — leaves the
    StateDB in a state that differs from the one before the frame only by harmless caching
    ([le]: same journal, same tx store, same CURRENT store, same dirty counts up to 0/absent, same
    objects up to cached committed slots). *)
Theorem C04_reverted_frame_invisible :
  forall (body : list prog) (s : sdb), forallb nosend body = true -> WFJ s ->
    le s (run (PFrame body true) s) /\ WFJ (run (PFrame body true) s).
Proof. exact reverted_frame_invisible. Qed.
Print Assumptions C04_reverted_frame_invisible.

(** BALANCE VIEWS.  (1) At every program point of every well-formed script — at any depth, inside or
    outside precompile bodies ([reach]) — the bank module holds for every account exactly what the
    reference records as the bank's view ([r_base]).  (2) Right after a successful OnRunStart that is,
    for every account that has not self-destructed, its StateDB balance / 10^12.  (3) A bank send
    re-establishes that for both parties (EVM writes made by the body do not touch the bank). *)
Theorem C04_bank_view_tracked :
  forall (mx : Z) (bl : list addr) (t0 : store) (inb : bool) (s : sdb) (r : rstate) (a : addr),
    reach mx bl t0 inb s r -> bank_bal (cur_store s) a = r_base r a.
Proof. exact bank_view_tracked. Qed.
Print Assumptions C04_bank_view_tracked.

Theorem C04_balance_views_agree :
  forall (mx : Z) (bl : list addr) (t0 : store) (inb : bool) (s : sdb) (r : rstate) (a : addr) (o : obj),
    reach mx bl t0 inb s r ->
    (mx <? r_calls r + 1) = false -> r_pending (r_with_calls r (r_calls r + 1)) = false ->
    let s' := commit_cache (precompile_snapshot s) in
    lookup s' a = Some o -> suicided o = false -> bank_bal (cur_store s') a = to_native (bal o).
Proof. exact views_agree_after_on_run_start. Qed.
Print Assumptions C04_balance_views_agree.

Theorem C04_balance_views_agree_after_send :
  forall (s : sdb) (c : store) (f t : addr) (amt : Z) (x : addr),
    cache s = Some c -> (amt <=? 0) || (bank_bal c f <? amt) = false -> x = f \/ x = t ->
    let s' := bank_send s f t amt in
    exists o, lookup s' x = Some o /\ bank_bal (cur_store s') x = to_native (bal o).
Proof. exact views_agree_after_send. Qed.
Print Assumptions C04_balance_views_agree_after_send.

(** READS.  At every reachable program point GetState(a,k) returns the reference's value of the
    slot and GetCommittedState(a,k) the value the slot had when the transaction started — in
    particular a reverted frame (with or without precompile calls) leaves no trace in either. *)
Theorem C04_reads_see_reference :
  forall (mx : Z) (bl : list addr) (t0 : store) (inb : bool) (s : sdb) (r : rstate) (a : addr) (k : key),
    reach mx bl t0 inb s r ->
    read_vals s a k = match r_accs r a with Some _ => (r_stor r a k, stor t0 a k) | None => (0, 0) end.
Proof. exact reads_see_reference_reach. Qed.
Print Assumptions C04_reads_see_reference.

(** REFUSED CALLS: over the limit, or the pre-run flush fails because a blocked module account would
    have to be credited (commitCtx stops at the first error, after having written the dirty accounts
    sorted before it): the call fails whatever its body, the state is (a refinement of) the state
    before it — the written prefix is undone by the PrecompileCalled entry that is already in the
    journal — the counter still advances and what Commit would write is unchanged. *)
Theorem C04_refused_call_has_no_effect :
  forall (mx : Z) (s : sdb) (r : rstate) (body : list prog) (fails : bool),
    Inv mx s r -> (mx < calls s + 1 \/ r_pending (r_with_calls r (calls s + 1)) = true) ->
    let s' := run (PPrecompile body fails) s in
    le s s' /\ calls s' = calls s + 1 /\ store_eq (commit s') (commit s).
Proof. exact refused_call. Qed.
Print Assumptions C04_refused_call_has_no_effect.

Theorem C04_call_limit :
  forall (mx : Z) (s : sdb) (r : rstate) (body : list prog) (fails : bool),
    Inv mx s r -> mx < calls s + 1 ->
    let s' := run (PPrecompile body fails) s in
    le s s' /\ calls s' = calls s + 1 /\ store_eq (commit s') (commit s).
Proof. exact call_limit. Qed.
Print Assumptions C04_call_limit.

(** … and every precompile call that is reached counts, reverted or not, at any depth. *)
Theorem C04_every_call_counts :
  forall (body : list prog) (fails : bool) (s : sdb), calls s + 1 <= calls (run (PPrecompile body fails) s).
Proof. exact every_call_counts. Qed.
Print Assumptions C04_every_call_counts.

(** A REVERTED FRAME IS A NO-OP for what gets committed, whatever it contains (incl. precompile bodies
    that write EVM state and bank state), and the state after it simulates the same reference state:
    erasing the reverted frames of a script does not change what it commits.  (The driver that calls
    the real FunToken methods checks exactly this on the implementation.) *)
Theorem C04_reverted_frame_is_noop :
  forall (mx : Z) (s : sdb) (r : rstate) (body : list prog),
    Inv mx s r -> wf mx false (PFrame body true) r = true ->
    let s' := run (PFrame body true) s in
    le s s' /\ store_eq (commit s') (commit s) /\ Inv mx s' (r_with_calls r (calls s')).
Proof. exact reverted_frame_noop. Qed.
Print Assumptions C04_reverted_frame_is_noop.

(** Every reachable program point satisfies the invariant used above (so C04_call_limit applies
    at every point of every well-formed script). *)
Theorem C04_reachable_invariant :
  forall (mx : Z) (bl : list addr) (t0 : store) (inb : bool) (s : sdb) (r : rstate), reach mx bl t0 inb s r -> Inv mx s r.
Proof. exact reach_Inv. Qed.
Print Assumptions C04_reachable_invariant.

(** The boolean checker evaluated on implementation traces is sound for [P]. *)
Theorem C04_checker_sound : forall mx bl t0 body o, Pb mx bl t0 body o = true -> P mx bl t0 body o.
Proof. exact Pb_sound. Qed.
Print Assumptions C04_checker_sound.

(** Observables that agree with the model agree with the reference (well-formed scripts). *)
Theorem C04_model_agreement_gives_reference :
  forall mx bl t0 body o, wf_body mx body (r_init bl t0) = true ->
    let s := run (PFrame body false) (init {| repaired := true; maxc := mx; blocked := bl |} t0) in
    let r := rrun mx (PFrame body false) (r_init bl t0) in
    final_matches (commit s) (aux s) o = final_matches (r_final r) (r_aux r) o.
Proof. exact model_agreement_gives_reference. Qed.
Print Assumptions C04_model_agreement_gives_reference.

(** The StateDB as it was before commit 72672e0 ([repaired := false]) violates frame atomicity:
    a lost SSTORE (F2), a supply mint (F2b), a stale cached object (F2c), a forgotten
    self-destruct (F2d) — each a well-formed script on which the model of the old code commits a
    state different from the reference, while the model of the current code agrees. *)
Theorem C04_frame_atomicity_refuted_before_fix :
  Forall (fun w => wf_body 10 w (r_init [] t_w) = true /\
                   agrees_at false 10 t_w w [1; 2; 3; 4] [1] = false /\
                   agrees_at true 10 t_w w [1; 2; 3; 4] [1] = true)
         [w_lost_sstore; w_supply_mint; w_stale_object; w_forgotten_selfdestruct].
Proof. exact frame_atomicity_refuted_before_fix. Qed.
Print Assumptions C04_frame_atomicity_refuted_before_fix.

(** NESTED PRECOMPILE CALLS AND THE BODY'S CONTEXT.  [run_h live] is the model with the multistore
    OBJECT held by a running precompile body made explicit.  [live := true] — the context resolves to
    the StateDB's current cache multistore, as the code does since the repair "cacheStore cell" — is
    the model all theorems above are about, whatever the handles, epochs and detached objects. *)
Theorem C04_live_ctx_is_main_model :
  forall (p : prog) (hd : option nat) (h : hst), h_db (run_h true hd p h) = run p (h_db h).
Proof. exact run_h_live. Qed.
Print Assumptions C04_live_ctx_is_main_model.

(** The code before that repair ([live := false], [run_stale]: a body keeps the multistore object it
    was started with, PrecompileCalled.Revert lets the StateDB go on with another one) violates frame
    atomicity: a well-formed script — a precompile body that, like FunToken.sendToBank calling an
    ERC20, contains a nested precompile call that fails (only that call frame is reverted) and then
    moves bank coins itself — on which the old code commits 95/51 where the reference, and the model
    of the current code, commit 99/51: what the body did AFTER the reverted frame is lost and the
    reverted frame's own bank move leaks into the committed balances. *)
Theorem C04_nested_stale_ctx_refuted :
  exists w : list prog,
    wf_body 10 w (r_init [] t_w) = true /\
    agrees_stale_at 10 t_w w [1; 2; 3; 4] [1] = false /\
    agrees_at true 10 t_w w [1; 2; 3; 4] [1] = true /\
    (let old := commit (run_stale (PFrame w false) (init {| repaired := true; maxc := 10; blocked := [] |} t_w)) in
     let ref := r_final (rrun 10 (PFrame w false) (r_init [] t_w)) in
     map (acct_of old) [1; 2; 3] = [Some (95, 1, 0); Some (51, 0, 0); None] /\
     map (acct_of ref) [1; 2; 3] = [Some (99, 1, 0); Some (51, 0, 0); None]).
Proof. exact nested_stale_ctx_refuted. Qed.
Print Assumptions C04_nested_stale_ctx_refuted.
