(** C04 — call-frame atomicity across EVM state and precompile side effects.
    This file holds only the exported statements (model: Model.v = x/evm/statedb of /repo HEAD:
    journal, dirty counts, state-object cache, evmTxCtx store + cacheCtx branch, OnRunStart's
    snapshot + intermediate commit, bank sends mirrored by SyncStateDBWithAccount, final Commit). *)
From Coq Require Import ZArith List Bool.
Import ListNotations.
Local Open Scope Z_scope.
Require Import Nib.C04.Model Nib.C04.Spec Nib.C04.Proofs.

(** FRAME ATOMICITY.  For every call limit [mx], every initial store [t0] and every well-formed
    script [body] — any interleaving, at any nesting depth and of any length, of EVM writes
    (balance incl. sub-unibi dust, nonce, code, storage, logs, refund, access list, create,
    selfdestruct), reads, Snapshot/RevertToSnapshot frames and precompile invocations (succeeding,
    failing after OnRunStart, or refused by the per-tx limit) whose bodies move unibi between
    accounts by bank sends on the cache context — what StateDB.Commit writes (accounts, bank
    balances, code, storage: [commit]) is exactly the final state of the copy-on-frame reference
    ([r_final (rrun …)]: a reverted frame restores the joint EVM x bank state it started with and
    nothing else), and so are the journaled tx data.  No bound on anything.  [bl] are blocked module
    accounts: a flush (before a precompile call, or the final one) that would have to credit one of
    them FAILS after writing a prefix of the dirty accounts; the precompile call then fails and the
    prefix is undone with the frame.  StateDB.Commit itself returns an error exactly when the
    reference still holds such a credit at the end ([commit_fails s = r_pending r]; the tx then
    fails as a whole). *)
Theorem C04_frame_atomicity :
  forall (mx : Z) (bl : list addr) (t0 : store) (body : list prog),
    wf_body mx body (r_init bl t0) = true ->
    let s := run (PFrame body false) (init {| repaired := true; maxc := mx; blocked := bl |} t0) in
    let r := rrun mx (PFrame body false) (r_init bl t0) in
    store_eq (commit s) (r_final r) /\ auxeq (aux s) (r_aux r) /\ commit_fails s = r_pending r.
Proof. exact frame_atomicity. Qed.
Print Assumptions C04_frame_atomicity.

(** (P1) A reverted frame — whatever it contains, including whole precompile calls — leaves the
    StateDB in a state that differs from the one before the frame only by harmless caching
    ([le]: same journal, same tx store, same CURRENT store, same dirty counts up to 0/absent, same
    objects up to cached committed slots). *)
Theorem C04_reverted_frame_invisible :
  forall (body : list prog) (s : sdb), WFJ s ->
    le s (run (PFrame body true) s) /\ WFJ (run (PFrame body true) s).
Proof. exact reverted_frame_invisible. Qed.
Print Assumptions C04_reverted_frame_invisible.

(** BALANCE VIEWS.  At every program point [s] reachable by a well-formed script (any depth),
    inside the body of a precompile call made there that is not refused by the limit — after
    OnRunStart and after each of its bank sends, hence at its return — for every account that has
    not self-destructed: bank balance on the cache ctx = StateDB balance / 10^12. *)
Theorem C04_balance_views_agree :
  forall (mx : Z) (bl : list addr) (t0 : store) (s : sdb) (r : rstate) (sends : list (addr * addr * Z)) (fails : bool) (i : nat),
    reach mx bl t0 s r -> wf mx (PPrecompile sends fails) r = true -> (mx <? calls s + 1) = false ->
    r_pending (r_with_calls r (calls s + 1)) = false ->
    let s' := run_sends (firstn i sends) (commit_cache (precompile_snapshot s)) in
    forall a o, lookup s' a = Some o -> suicided o = false -> bank_bal (cur_store s') a = to_native (bal o).
Proof. exact balance_views_agree. Qed.
Print Assumptions C04_balance_views_agree.

(** READS.  At every reachable program point GetState(a,k) returns the reference's value of the
    slot and GetCommittedState(a,k) the value the slot had when the transaction started — in
    particular a reverted frame (with or without precompile calls) leaves no trace in either. *)
Theorem C04_reads_see_reference :
  forall (mx : Z) (bl : list addr) (t0 : store) (s : sdb) (r : rstate) (a : addr) (k : key),
    reach mx bl t0 s r ->
    read_vals s a k = match r_accs r a with Some _ => (r_stor r a k, stor t0 a k) | None => (0, 0) end.
Proof. exact reads_see_reference_reach. Qed.
Print Assumptions C04_reads_see_reference.

(** CALL LIMIT.  When the counter has reached the limit, one more precompile call is refused:
    the state is (a refinement of) the state before the call, the counter still advances, and what
    Commit would write is unchanged. *)
Theorem C04_call_limit :
  forall (mx : Z) (s : sdb) (r : rstate) (sends : list (addr * addr * Z)) (fails : bool),
    Inv mx s r -> mx < calls s + 1 ->
    le s (precompile_call s sends fails) /\
    calls (precompile_call s sends fails) = calls s + 1 /\
    store_eq (commit (precompile_call s sends fails)) (commit s).
Proof. exact call_limit. Qed.
Print Assumptions C04_call_limit.

(** REFUSED CALLS in general: over the limit, or the pre-run flush fails because a blocked module
    account would have to be credited (commitCtx stops at the first error, after having written the
    dirty accounts sorted before it): the call fails, the state is (a refinement of) the state
    before it — the written prefix is undone by the PrecompileCalled entry that is already in the
    journal — and what Commit would write is unchanged. *)
Theorem C04_refused_call_has_no_effect :
  forall (mx : Z) (s : sdb) (r : rstate) (sends : list (addr * addr * Z)) (fails : bool),
    Inv mx s r -> (mx < calls s + 1 \/ r_pending (r_with_calls r (calls s + 1)) = true) ->
    le s (precompile_call s sends fails) /\
    calls (precompile_call s sends fails) = calls s + 1 /\
    store_eq (commit (precompile_call s sends fails)) (commit s).
Proof. exact refused_call. Qed.
Print Assumptions C04_refused_call_has_no_effect.

(** … and the counter counts every precompile call of the script, reverted or not, at any depth. *)
Theorem C04_every_call_counts :
  forall (p : prog) (s : sdb), calls (run p s) = calls s + Z.of_nat (ncalls p).
Proof. exact run_counts_calls. Qed.
Print Assumptions C04_every_call_counts.

(** Every reachable program point satisfies the invariant used above (so C04_call_limit applies
    at every point of every well-formed script). *)
Theorem C04_reachable_invariant :
  forall (mx : Z) (bl : list addr) (t0 : store) (s : sdb) (r : rstate), reach mx bl t0 s r -> Inv mx s r.
Proof. exact reach_Inv. Qed.
Print Assumptions C04_reachable_invariant.

(** The boolean checker evaluated on implementation traces is sound for [P]. *)
Theorem C04_checker_sound : forall mx bl t0 body o, Pb mx bl t0 body o = true -> P mx bl t0 body o.
Proof. exact Pb_sound. Qed.
Print Assumptions C04_checker_sound.

(** Observables that agree with the model agree with the reference (well-formed scripts). *)
Theorem C04_model_agreement_gives_reference :
  forall mx bl t0 body o, wf_body mx body (r_init bl t0) = true ->
    let s := run (PFrame body false) (init {| repaired := true; maxc := mx; blocked := bl |} t0) in
    let r := rrun mx (PFrame body false) (r_init bl t0) in
    final_matches (commit s) (aux s) o = final_matches (r_final r) (r_aux r) o.
Proof. exact model_agreement_gives_reference. Qed.
Print Assumptions C04_model_agreement_gives_reference.

(** The StateDB as it was before commit 72672e0 ([repaired := false]) violates frame atomicity:
    a lost SSTORE (F2), a supply mint (F2b), a stale cached object (F2c), a forgotten
    self-destruct (F2d) — each a well-formed script on which the model of the old code commits a
    state different from the reference, while the model of the current code agrees. *)
Theorem C04_frame_atomicity_refuted_before_fix :
  Forall (fun w => wf_body 10 w (r_init [] t_w) = true /\
                   agrees_at false 10 t_w w [1; 2; 3; 4] [1] = false /\
                   agrees_at true 10 t_w w [1; 2; 3; 4] [1] = true)
         [w_lost_sstore; w_supply_mint; w_stale_object; w_forgotten_selfdestruct].
Proof. exact frame_atomicity_refuted_before_fix. Qed.
Print Assumptions C04_frame_atomicity_refuted_before_fix.
