(** C04 — call-frame atomicity across EVM state and precompile side effects.
    This file holds only the exported statements. *)
From Coq Require Import ZArith List Bool.
Import ListNotations.
Local Open Scope Z_scope.
Require Import Nib.C04.Model Nib.C04.Spec Nib.C04.Proofs.

(** The boolean checker evaluated on implementation traces is sound for [P]. *)
Theorem C04_checker_sound : forall mx t0 body o, Pb mx t0 body o = true -> P mx t0 body o.
Proof. exact Pb_sound. Qed.
Print Assumptions C04_checker_sound.

(** The StateDB as it was before commit 72672e0 ([repaired := false]) violates frame atomicity:
    a lost SSTORE (F2), a supply mint (F2b), a stale cached object (F2c), a forgotten
    self-destruct (F2d) — each a well-formed script on which the model of the old code commits a
    state different from the reference, while the model of the current code agrees. *)
Theorem C04_frame_atomicity_refuted_before_fix :
  Forall (fun w => wf_body 10 w (r_init t_w) = true /\
                   agrees_at false 10 t_w w [1; 2; 3; 4] [1] = false /\
                   agrees_at true 10 t_w w [1; 2; 3; 4] [1] = true)
         [w_lost_sstore; w_supply_mint; w_stale_object; w_forgotten_selfdestruct].
Proof. exact frame_atomicity_refuted_before_fix. Qed.
Print Assumptions C04_frame_atomicity_refuted_before_fix.
