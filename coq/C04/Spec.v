(** C04 — the property over what a transaction commits / shows, as Prop and as boolean checker.

    An observed trace of one script is: the committed accounts / slots / bank balances of the
    model addresses, the journaled tx data (logs, refund, access list) at the end of the run and the
    list of (address, StateDB balance in wei, bank balance in unibi) pairs read by the OTouch ops.
    [P] says: the committed state is the one of the copy-on-frame reference, and every pair read
    right after a successful precompile return agrees. *)
From Coq Require Import ZArith List Bool.
Import ListNotations.
Local Open Scope Z_scope.
Require Import Nib.C04.Model.

Record observed := {
  o_accs : list (Z * option (Z * Z * Z));   (* address, None | Some (unibi, nonce, code id) *)
  o_stor : list (Z * Z * Z);                (* address, slot, value *)
  o_logs : Z; o_refund : Z;
  o_leak : Z;                               (* unibi supply change not accounted for by the observed accounts *)
  o_al : list (Z * bool); o_als : list (Z * Z * bool);
  o_views : list obs                        (* in execution order *)
}.

Definition acct_eqb (x y : option (Z * Z * Z)) : bool :=
  match x, y with
  | None, None => true
  | Some (a, b, c), Some (a', b', c') => (a =? a') && (b =? b') && (c =? c')
  | _, _ => false
  end.

Definition acct_of (t : store) (a : addr) : option (Z * Z * Z) :=
  match accs t a with Some x => Some (a_bal x, a_nonce x, a_code x) | None => None end.

(** the committed part of an observation equals store [t] / aux [x] *)
Definition final_matches (t : store) (x : aux_t) (o : observed) : bool :=
  forallb (fun p => acct_eqb (acct_of t (fst p)) (snd p)) (o_accs o) &&
  forallb (fun p => stor t (fst (fst p)) (snd (fst p)) =? snd p) (o_stor o) &&
  (logs x =? o_logs o) && (refund x =? o_refund o) && (o_leak o =? 0) &&
  forallb (fun p => Bool.eqb (al x (fst p)) (snd p)) (o_al o) &&
  forallb (fun p => Bool.eqb (als x (fst (fst p)) (snd (fst p))) (snd p)) (o_als o).

(** what each observation (in execution order) must show:
    - an OTouch taken right after a successful precompile return, for an account that has not
      self-destructed: agreeing balance views ([XTouch true]); any other OTouch: nothing;
    - an OReadState: GetState returns the reference's slot value, GetCommittedState the value the
      slot had when the transaction started (0 / 0 if the account does not exist). *)
Inductive expect := XTouch (check : bool) | XRead (a : addr) (k : key) (v c : Z).

Definition read_expect (t0 : store) (r : rstate) (a : addr) (k : key) : expect :=
  match r_accs r a with
  | Some _ => XRead a k (r_stor r a k) (stor t0 a k)
  | None => XRead a k 0 0
  end.

(** a body made of bank sends and touches only: the views agree throughout and at its return *)
Definition sendonly (body : list prog) : bool :=
  forallb (fun q => match q with OBankSend _ _ _ | OTouch _ => true | _ => false end) body.

Fixpoint vflags (mx : Z) (t0 : store) (p : prog) (r : rstate) {struct p} : list expect :=
  match p with
  | PFrame body _ =>
      (fix go (l : list prog) (r : rstate) (zone : bool) : list expect :=
         match l with
         | [] => []
         | q :: t =>
             match q with
             | OTouch a => XTouch (zone && negb (rs (r_get r a))) :: go t r zone
             | OBankSend _ _ _ => go t (rrun mx q r) zone
             | PPrecompile body fails =>
                 vflags mx t0 q r ++
                 go t (rrun mx q r) (negb fails && negb (mx <? r_calls r + 1) &&
                                     negb (r_pending (r_with_calls r (r_calls r + 1))) && sendonly body)
             | _ => vflags mx t0 q r ++ go t (rrun mx q r) false
             end
         end) body r false
  | PPrecompile body _ =>
      let r0 := r_with_calls r (r_calls r + 1) in
      if (mx <? r_calls r0) || r_pending r0 then []
      else
      (fix go (l : list prog) (r : rstate) (zone : bool) : list expect :=
         match l with
         | [] => []
         | q :: t =>
             match q with
             | OTouch a => XTouch (zone && negb (rs (r_get r a))) :: go t r zone
             | OBankSend _ _ _ => go t (rrun mx q r) zone
             | PPrecompile body fails =>
                 vflags mx t0 q r ++
                 go t (rrun mx q r) (negb fails && negb (mx <? r_calls r + 1) &&
                                     negb (r_pending (r_with_calls r (r_calls r + 1))) && sendonly body)
             | _ => vflags mx t0 q r ++ go t (rrun mx q r) false
             end
         end) body (r_flush r0) true
  | OTouch _ => [XTouch false]
  | OReadState a k => [read_expect t0 r a k]
  | _ => []
  end.

Definition view_ok (e : expect) (v : obs) : bool :=
  match e with
  | XTouch flag => negb flag || (snd v =? to_native (snd (fst v)))
  | XRead a k x c => (fst (fst v) =? read_tag a k) && (snd (fst v) =? x) && (snd v =? c)
  end.

Definition view_P (e : expect) (v : obs) : Prop :=
  match e with
  | XTouch true => snd v = to_native (snd (fst v))
  | XTouch false => True
  | XRead a k x c => v = (read_tag a k, x, c)
  end.

Fixpoint views_ok (fl : list expect) (vs : list obs) : bool :=
  match fl, vs with
  | [], [] => true
  | f :: fl', v :: vs' => view_ok f v && views_ok fl' vs'
  | _, _ => false
  end.

(** the property of one observed script run *)
Definition P (mx : Z) (bl : list addr) (t0 : store) (body : list prog) (o : observed) : Prop :=
  let r := rrun mx (PFrame body false) (r_init bl t0) in
  final_matches (r_final r) (r_aux r) o = true /\
  let fl := vflags mx t0 (PFrame body false) (r_init bl t0) in
  length fl = length (o_views o) /\
  forall i f v, nth_error fl i = Some f -> nth_error (o_views o) i = Some v -> view_P f v.

Definition Pb (mx : Z) (bl : list addr) (t0 : store) (body : list prog) (o : observed) : bool :=
  let r := rrun mx (PFrame body false) (r_init bl t0) in
  final_matches (r_final r) (r_aux r) o &&
  views_ok (vflags mx t0 (PFrame body false) (r_init bl t0)) (o_views o).

Lemma views_ok_len fl vs : views_ok fl vs = true -> length fl = length vs.
Proof.
  revert vs; induction fl as [|f fl IH]; intros [|v vs] H; simpl in *; try discriminate; auto.
  apply andb_true_iff in H as [_ H]. f_equal. auto.
Qed.

Lemma view_ok_P e v : view_ok e v = true -> view_P e v.
Proof.
  destruct e as [[|]|a k x c]; simpl; intros H; auto.
  - apply Z.eqb_eq in H. exact H.
  - apply andb_true_iff in H as [H H3]. apply andb_true_iff in H as [H1 H2].
    apply Z.eqb_eq in H1. apply Z.eqb_eq in H2. apply Z.eqb_eq in H3.
    destruct v as [[v1 v2] v3]. simpl in *. congruence.
Qed.

Lemma views_ok_nth fl vs : views_ok fl vs = true ->
  forall i f v, nth_error fl i = Some f -> nth_error vs i = Some v -> view_P f v.
Proof.
  revert vs; induction fl as [|f0 fl IH]; intros [|v0 vs] H i f v Hf Hv; simpl in *; try discriminate.
  - destruct i; discriminate.
  - apply andb_true_iff in H as [H0 H].
    destruct i as [|i]; simpl in *.
    + inversion Hf; inversion Hv; subst. apply view_ok_P; exact H0.
    + eapply IH; eauto.
Qed.

Lemma Pb_sound mx bl t0 body o : Pb mx bl t0 body o = true -> P mx bl t0 body o.
Proof.
  unfold Pb, P. intro H. apply andb_true_iff in H as [H1 H2].
  split; [exact H1|]. split.
  - apply views_ok_len; exact H2.
  - apply views_ok_nth; exact H2.
Qed.
