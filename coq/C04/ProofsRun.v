(** C04 proofs, part 6 (P4/P5): whole scripts run in lock-step with the reference; the final
    commit writes exactly the reference's final state; balance views; call limit. *)
From Coq Require Import ZArith List Bool Lia.
Import ListNotations.
Local Open Scope Z_scope.
Require Import Nib.C04.Model Nib.C04.ProofsBase Nib.C04.ProofsUndo Nib.C04.ProofsOps Nib.C04.ProofsInv Nib.C04.ProofsSim.

(** ---- the call counter is only touched by precompile_snapshot ---- *)
Lemma set_obj_calls s a o : calls (set_obj s a o) = calls s. Proof. reflexivity. Qed.

Lemma set_balance_calls s a b : calls (set_balance s a b) = calls s.
Proof. unfold set_balance. rewrite set_obj_calls, push_calls. apply get_or_new_calls. Qed.
Lemma set_nonce_calls s a b : calls (set_nonce s a b) = calls s.
Proof. unfold set_nonce. rewrite set_obj_calls, push_calls. apply get_or_new_calls. Qed.
Lemma set_code_calls s a b : calls (set_code s a b) = calls s.
Proof. unfold set_code. rewrite set_obj_calls, push_calls. apply get_or_new_calls. Qed.
Lemma add_balance_calls s a b : calls (add_balance s a b) = calls s.
Proof. unfold add_balance. destruct (_ =? _); [apply get_or_new_calls | apply set_balance_calls]. Qed.
Lemma set_state_calls s a k v : calls (set_state s a k v) = calls s.
Proof.
  unfold set_state. destruct (_ =? _); rewrite set_obj_calls, ?push_calls; apply get_or_new_calls.
Qed.
Lemma suicide_calls s a : calls (suicide s a) = calls s.
Proof. unfold suicide. destruct (lookup s a); [|reflexivity]. rewrite set_obj_calls, push_calls. apply cached_calls. Qed.
Lemma create_account_calls s a : calls (create_account s a) = calls s.
Proof.
  unfold create_account, create_object. destruct (lookup s a); rewrite ?set_obj_calls, push_calls; apply cached_calls.
Qed.

Lemma run_calls_simple p s :
  match p with PFrame _ _ | PPrecompile _ _ => True | _ => calls (run p s) = calls s end.
Proof.
  destruct p; try exact I; cbn [run].
  - apply add_balance_calls.
  - unfold sub_balance. destruct (_ <? _); [apply cached_calls | apply add_balance_calls].
  - apply set_nonce_calls.
  - apply set_code_calls.
  - apply set_state_calls.
  - unfold selfdestruct. destruct (lookup s a); [|reflexivity].
    rewrite suicide_calls, add_balance_calls. apply cached_calls.
  - unfold evm_create. destruct (lookup s a).
    + destruct (_ || _); [apply cached_calls|]. rewrite set_nonce_calls. apply create_account_calls.
    + rewrite set_nonce_calls. apply create_account_calls.
  - unfold add_log. sdb_simp. apply push_calls.
  - unfold set_refund. sdb_simp. apply push_calls.
  - unfold sub_refund. destruct (_ <? _); [reflexivity|]. unfold set_refund. sdb_simp. apply push_calls.
  - unfold access_addr. destruct (al _ _); [reflexivity|]. sdb_simp. apply push_calls.
  - unfold access_slot. destruct (als _ _ _).
    + unfold access_addr. destruct (al _ _); [reflexivity|]. sdb_simp. apply push_calls.
    + sdb_simp. rewrite push_calls. unfold access_addr. destruct (al _ _); [reflexivity|]. sdb_simp. apply push_calls.
  - unfold touch. sdb_simp. apply cached_calls.
  - unfold read_obs, read_state. sdb_simp. destruct (lookup s a); [|reflexivity]. rewrite set_obj_calls. apply cached_calls.
Qed.

Lemma rrun_calls_simple mx p r :
  match p with PFrame _ _ | PPrecompile _ _ => True | _ => r_calls (rrun mx p r) = r_calls r end.
Proof.
  destruct p; try exact I; simpl; try reflexivity.
  - destruct (_ <? _); reflexivity.
  - destruct (r_accs r a); reflexivity.
  - destruct (r_accs r a); [destruct (_ || _)|]; reflexivity.
  - destruct (_ <? _); reflexivity.
Qed.


Lemma op_ok_cf s s' : op_ok s s' -> WFJ s -> cf s' = cf s.
Proof.
  intros H HW. destruct (H HW) as (_&(_&_&C&_)&_). rewrite C. unfold unwind. symmetry. apply unwind_k_cf.
Qed.

(** ---- the bank sends of a precompile body ---- *)
Fixpoint wf_sends (l : list (addr * addr * Z)) (r : rstate) : bool :=
  match l with
  | [] => true
  | x :: t => wf_send r x && wf_sends t (r_send r (fst (fst x)) (snd (fst x)) (snd x))
  end.
Definition r_sends (l : list (addr * addr * Z)) (r : rstate) : rstate :=
  fold_left (fun r x => r_send r (fst (fst x)) (snd (fst x)) (snd x)) l r.

Lemma wf_precompile mx sends fails r :
  wf mx (PPrecompile sends fails) r =
  (if mx <? r_calls r + 1 then true
   else if r_pending (r_with_calls r (r_calls r + 1)) then true
   else wf_sends sends (r_flush (r_with_calls r (r_calls r + 1)))).
Proof.
  simpl. destruct (mx <? r_calls r + 1); [reflexivity|].
  destruct (r_pending (r_with_calls r (r_calls r + 1))); [reflexivity|].
  generalize (r_flush (r_with_calls r (r_calls r + 1))). induction sends as [|x t IH]; intros r0; simpl; [reflexivity|].
  rewrite IH. reflexivity.
Qed.

Lemma rrun_precompile mx sends fails r :
  rrun mx (PPrecompile sends fails) r =
  (let r0 := r_with_calls r (r_calls r + 1) in
   if mx <? r_calls r0 then r0 else if r_pending r0 then r0
   else if fails then r0 else r_sends sends (r_flush r0)).
Proof. reflexivity. Qed.

Lemma bank_send_cache s f t amt : cache s <> None -> cache (bank_send s f t amt) <> None.
Proof.
  intros H. unfold bank_send. destruct (cache s) as [c|] eqn:Hc; [|contradiction].
  destruct (_ || _); [rewrite Hc; discriminate|].
  unfold set_balance, set_obj; sdb_simp. rewrite push_cache.
  unfold get_or_new. destruct (lookup _ t).
  - rewrite cached_cache. unfold set_obj; sdb_simp. rewrite push_cache.
    destruct (lookup _ f); [rewrite cached_cache|unfold set_obj; sdb_simp; rewrite push_cache]; discriminate.
  - unfold set_obj; sdb_simp. rewrite push_cache. unfold set_obj; sdb_simp. rewrite push_cache.
    destruct (lookup _ f); [rewrite cached_cache|unfold set_obj; sdb_simp; rewrite push_cache]; discriminate.
Qed.

Lemma bank_send_cf s f t amt : cf (bank_send s f t amt) = cf s.
Proof.
  unfold bank_send. destruct (cache s); [|reflexivity]. destruct (_ || _); [reflexivity|].
  rewrite !set_balance_cf. reflexivity.
Qed.
Lemma r_send_bl r f t amt : r_bl (r_send r f t amt) = r_bl r.
Proof. unfold r_send. destruct (_ || _); reflexivity. Qed.

Lemma sim_sends sends : forall s r,
  R s r -> views s -> cache s <> None -> blocked (cf s) = r_bl r -> wf_sends sends r = true ->
  R (run_sends sends s) (r_sends sends r) /\ views (run_sends sends s).
Proof.
  induction sends as [|[[f t] amt] rest IH]; intros s r HR HV Hc Hbl Hwf; [split; assumption|].
  simpl in Hwf. apply andb_true_iff in Hwf as [Hw1 Hw2].
  destruct (sim_bank_send s r f t amt HR HV Hc Hbl Hw1) as [HR1 HV1].
  unfold run_sends, r_sends. simpl.
  apply IH; auto; [apply bank_send_cache; exact Hc | rewrite bank_send_cf, r_send_bl; exact Hbl].
Qed.

(** the flush fails in the model exactly when the reference says a blocked account must be credited *)
Lemma find_existsb {A} (f g : A -> bool) l :
  (forall x, In x l -> f x = g x) -> (find f l = None <-> existsb g l = false).
Proof.
  induction l as [|x l IH]; intros H; simpl; [tauto|].
  rewrite (H x (or_introl eq_refl)). destruct (g x); simpl; [split; discriminate|].
  apply IH. intros y Hy. apply H. right; exact Hy.
Qed.

Lemma pending_iff s r :
  R s r -> blocked (cf s) = r_bl r -> (flush_fail s = None <-> r_pending r = false).
Proof.
  intros HR Hbl. unfold flush_fail, r_pending. rewrite Hbl. apply find_existsb.
  intros a Ha. rewrite <- Hbl in Ha. unfold fails_at.
  pose proof (R_acc s r HR a) as Hacc. pose proof (R_base s r HR a Ha) as Hb.
  destruct (lookup s a) as [o|] eqn:Hl, (r_accs r a) as [x|] eqn:Hx; try contradiction.
  - destruct Hacc as (A1&_&_&A4). rewrite <- A1, <- A4, <- Hb.
    destruct (dirt s a) eqn:Hd; [reflexivity|].
    pose proof (R_written s r HR a o Hl (or_introl Hd)) as Hw. unfold obj_written in Hw.
    destruct (suicided o); [reflexivity|]. destruct Hw as [Hw _]. unfold bank_bal. rewrite Hw. simpl.
    symmetry. apply Z.ltb_irrefl.
  - destruct (dirt s a); reflexivity.
Qed.

Lemma r_sends_calls sends : forall r, r_calls (r_sends sends r) = r_calls r.
Proof.
  induction sends as [|x t IH]; intros r; [reflexivity|]. unfold r_sends in *. simpl. rewrite IH.
  unfold r_send. destruct (_ || _); reflexivity.
Qed.

Lemma bank_send_calls s f t amt : calls (bank_send s f t amt) = calls s.
Proof.
  unfold bank_send. destruct (cache s); [|reflexivity]. destruct (_ || _); [reflexivity|].
  rewrite !set_balance_calls. reflexivity.
Qed.
Lemma run_sends_calls sends : forall s, calls (run_sends sends s) = calls s.
Proof.
  induction sends as [|x t IH]; intros s; [reflexivity|]. unfold run_sends in *. simpl. rewrite IH.
  apply bank_send_calls.
Qed.

(** ---- the invariant of a run ---- *)
Definition Inv (mx : Z) (s : sdb) (r : rstate) : Prop :=
  R s r /\ WFJ s /\ calls s = r_calls r /\ maxc (cf s) = mx /\ blocked (cf s) = r_bl r.

Lemma R_calls s r c : R s r -> R s (r_with_calls r c).
Proof. intros H. eapply R_req; [exact H|]. repeat split; auto. Qed.

Lemma Inv_reverted mx s s' r c :
  Inv mx s r -> le s s' -> WFJ s' -> calls s' = c -> Inv mx s' (r_with_calls r c).
Proof.
  intros (HR&HW&HC&HM&HB) HL HW' Hc. split; [apply R_calls, (R_le s s' r HR HL)|]. split; [exact HW'|].
  split; [exact Hc|]. destruct HL as (_&_&C&_). rewrite <- C. split; [exact HM | exact HB].
Qed.

Lemma r_sends_bl l : forall r, r_bl (r_sends l r) = r_bl r.
Proof.
  induction l as [|x l IH]; intros r; [reflexivity|]. unfold r_sends in *. simpl. rewrite IH. apply r_send_bl.
Qed.

Lemma sim_precompile mx s r sends fails :
  Inv mx s r -> wf mx (PPrecompile sends fails) r = true ->
  Inv mx (precompile_call s sends fails) (rrun mx (PPrecompile sends fails) r).
Proof.
  intros (HR&HW&HC&HM&HB) Hwf. pose proof HW as (_&_&Hrep).
  pose proof (precompile_call_ok s sends fails HW) as (Hlen & HLE & HW').
  rewrite wf_precompile in Hwf. rewrite rrun_precompile. cbv zeta. simpl r_calls.
  unfold precompile_call in *. set (n := length (journal s)) in *. set (s1 := precompile_snapshot s) in *.
  assert (Hc1 : calls s1 = r_calls r + 1) by (unfold s1; rewrite snapshot_calls, HC; reflexivity).
  assert (J1 : journal s1 = snap_entry s :: journal s) by apply snapshot_journal.
  rewrite HM, Hc1. rewrite HM, Hc1 in HLE, HW', Hlen.
  assert (HI : Inv mx s r) by exact (conj HR (conj HW (conj HC (conj HM HB)))).
  assert (Hrev : forall sX, (n <= length (journal sX))%nat -> le s (unwind n (unwind n sX)) -> le s (unwind n sX)).
  { intros sX Hl H. pose proof (unwind_len n sX Hl) as Hn. rewrite <- Hn in H at 1. rewrite unwind_id in H. exact H. }
  destruct (mx <? r_calls r + 1) eqn:Hlim.
  - apply (Inv_reverted mx s _ r); [exact HI | | exact HW' | rewrite unwind_calls; exact Hc1].
    apply Hrev; [rewrite J1; simpl; unfold n; lia | exact HLE].
  - set (r0 := r_with_calls r (r_calls r + 1)) in *.
    assert (HR1 : R s1 r0) by (apply R_calls, sim_snapshot; exact HR).
    assert (HB1 : blocked (cf s1) = r_bl r0) by (unfold s1; rewrite snapshot_cf; exact HB).
    pose proof (pending_iff s1 r0 HR1 HB1) as Hpend.
    destruct (flush_fail s1) as [af|] eqn:Hff.
    + (* the pre-run flush fails *)
      assert (Hp : r_pending r0 = true).
      { destruct (r_pending r0); [reflexivity|]. destruct Hpend as [_ H]. discriminate (H eq_refl). }
      rewrite Hp.
      apply (Inv_reverted mx s _ r); [exact HI | | exact HW' | rewrite unwind_calls; exact Hc1].
      apply Hrev; [change (journal (commit_cache_partial af s1)) with (journal s1); rewrite J1; simpl; unfold n; lia | exact HLE].
    + assert (Hp : r_pending r0 = false) by (apply Hpend; reflexivity).
      rewrite Hp in *.
      assert (Hrep1 : repaired (cf s1) = true) by (unfold s1; rewrite snapshot_cf; exact Hrep).
      destruct (sim_flush s1 r0 HR1 Hrep1) as [HRF HCl]. set (sF := commit_cache s1) in *.
      assert (HVF : views sF) by (eapply views_of_clean; eauto).
      assert (HcF : cache sF <> None) by (unfold sF, commit_cache; sdb_simp; discriminate).
      destruct (sim_sends sends sF (r_flush r0) HRF HVF HcF HB1 Hwf) as [HR2 HV2].
      set (s2 := run_sends sends sF) in *.
      assert (Hc2 : calls s2 = r_calls r + 1) by (unfold s2; rewrite run_sends_calls; exact Hc1).
      destruct fails.
      * apply (Inv_reverted mx s _ r); [exact HI | | exact HW' | rewrite unwind_calls; exact Hc2].
        apply Hrev; [|exact HLE].
        assert (HWF : WFJ sF) by (apply WFJ_commit_cache, WFJ_snapshot; exact HW).
        destruct (run_sends_bop (fun _ => false) sends sF HWF ltac:(intros a Ha; discriminate)) as (es & J2 & _).
        fold s2 in J2. rewrite J2, app_length. change (journal sF) with (journal s1). rewrite J1. simpl. unfold n. lia.
      * split; [exact HR2|]. split; [exact HW'|]. split; [rewrite r_sends_calls; exact Hc2|].
        assert (Hcf : cf s2 = cf s).
        { apply (op_ok_cf s s2); [|exact HW]. intros _. split; [exact Hlen|]. split; assumption. }
        rewrite Hcf. split; [exact HM|]. rewrite HB. symmetry. rewrite r_sends_bl. reflexivity.
Qed.

(** ---- (P4) every well-formed script runs in lock-step with the reference ---- *)
Lemma sim_simple mx p s r :
  match p with PFrame _ _ | PPrecompile _ _ => True | _ =>
    R s r -> wf mx p r = true -> R (run p s) (rrun mx p r) end.
Proof.
  destruct p; try exact I; intros HR Hwf; cbn [run rrun].
  - apply sim_add_balance; exact HR.
  - apply sim_sub_balance; exact HR.
  - apply sim_set_nonce; exact HR.
  - apply sim_set_code; exact HR.
  - apply (sim_set_state s r a k v HR).
  - apply (sim_selfdestruct mx s r a b HR).
  - apply (sim_evm_create mx s r a HR Hwf).
  - apply (sim_add_log mx s r HR).
  - pose proof (R_aux s r HR) as (_&B&_). rewrite B. apply sim_set_refund; exact HR.
  - unfold sub_refund. pose proof (R_aux s r HR) as (_&B&_). rewrite B.
    destruct (_ <? _); [exact HR | apply sim_set_refund; exact HR].
  - apply sim_access_addr; exact HR.
  - apply (sim_access_slot mx s r a k HR).
  - apply sim_touch; exact HR.
  - apply sim_read_obs; exact HR.
Qed.

Lemma wf_frame_cons mx p t rv r :
  wf mx (PFrame (p :: t) rv) r = wf mx p r && wf mx (PFrame t rv) (rrun mx p r).
Proof. reflexivity. Qed.
Lemma rrun_frame mx body rv r :
  rrun mx (PFrame body rv) r =
  (if rv then r_with_calls r (r_calls (rrun_body mx body r)) else rrun_body mx body r).
Proof. reflexivity. Qed.
Lemma rrun_body_cons mx p t r : rrun_body mx (p :: t) r = rrun_body mx t (rrun mx p r).
Proof. reflexivity. Qed.

Lemma rrun_bl_aux mx n : forall p r, (psize p <= n)%nat -> r_bl (rrun mx p r) = r_bl r.
Proof.
  induction n as [|n IH]; intros p r Hn; [destruct p; simpl in Hn; lia|].
  destruct p; try reflexivity; simpl rrun.
  - destruct (_ <? _); reflexivity.
  - destruct (r_accs r a); reflexivity.
  - destruct (r_accs r a); [destruct (_ || _)|]; reflexivity.
  - destruct (_ <? _); reflexivity.
  - assert (Hb : forall l r0, (list_sum (map psize l) <= n)%nat -> r_bl (rrun_body mx l r0) = r_bl r0).
    { induction l as [|x t IHl]; intros r0 Hl; [reflexivity|].
      rewrite rrun_body_cons. simpl in Hl. rewrite IHl by lia. apply IH; lia. }
    cbn [psize] in Hn. fold (rrun_body mx body r). destruct reverted; [reflexivity|]. apply Hb; lia.
  - destruct (_ <? _); [reflexivity|]. destruct (r_pending _); [reflexivity|]. destruct fails; [reflexivity|].
    fold (r_sends sends (r_flush (r_with_calls r (r_calls r + 1)))). rewrite r_sends_bl. reflexivity.
Qed.
Lemma rrun_bl mx p r : r_bl (rrun mx p r) = r_bl r.
Proof. apply (rrun_bl_aux mx (psize p)). lia. Qed.

Lemma sim_run_aux mx n : forall p s r, (psize p <= n)%nat ->
  Inv mx s r -> wf mx p r = true -> Inv mx (run p s) (rrun mx p r).
Proof.
  induction n as [|n IH]; intros p s r Hn HI Hwf.
  - destruct p; simpl in Hn; lia.
  - destruct HI as (HR&HW&HC&HM&HB).
    assert (Hsimple : match p with PFrame _ _ | PPrecompile _ _ => True | _ => Inv mx (run p s) (rrun mx p r) end).
    { pose proof (sim_simple mx p s r) as H1. pose proof (run_calls_simple p s) as H2.
      pose proof (rrun_calls_simple mx p r) as H3. pose proof (run_ok p s) as H4.
      destruct p; try exact I;
        (split; [apply H1; assumption|]; split; [apply (H4 HW)|]; split; [congruence|];
         rewrite (op_ok_cf _ _ H4 HW), rrun_bl; split; [exact HM | exact HB]). }
    destruct p; try exact Hsimple.
    + (* frame *)
      assert (Hbody : forall l s0 r0, (list_sum (map psize l) <= n)%nat -> Inv mx s0 r0 ->
                wf mx (PFrame l false) r0 = true -> Inv mx (run_body l s0) (rrun_body mx l r0)).
      { induction l as [|x t IHl]; intros s0 r0 Hl HI0 Hw0; [exact HI0|].
        rewrite run_body_cons, rrun_body_cons. rewrite wf_frame_cons in Hw0. apply andb_true_iff in Hw0 as [Hwx Hwt].
        simpl in Hl. apply IHl; [lia | apply IH; [lia | exact HI0 | exact Hwx] | exact Hwt]. }
      cbn [psize] in Hn. rewrite run_frame, rrun_frame.
      assert (Hw' : wf mx (PFrame body false) r = true) by exact Hwf.
      pose proof (Hbody body s r ltac:(lia) (conj HR (conj HW (conj HC (conj HM HB)))) Hw') as HIb.
      destruct reverted; [|exact HIb].
      destruct (run_body_ok body s HW) as (L & HE & HWb).
      destruct HIb as (_&_&HCb&_).
      apply (Inv_reverted mx s _ r); [exact (conj HR (conj HW (conj HC (conj HM HB)))) | exact HE | apply WFJ_unwind; exact HWb |].
      rewrite unwind_calls. exact HCb.
    + apply sim_precompile; [exact (conj HR (conj HW (conj HC (conj HM HB)))) | exact Hwf].
Qed.

Theorem sim_run mx p s r : Inv mx s r -> wf mx p r = true -> Inv mx (run p s) (rrun mx p r).
Proof. apply (sim_run_aux mx (psize p)). lia. Qed.

(** ---- the initial state ---- *)
Lemma acct_eta (x : acct) : {| a_bal := a_bal x; a_nonce := a_nonce x; a_code := a_code x |} = x.
Proof. destruct x; reflexivity. Qed.

Lemma Inv_init mx bl t : Inv mx (init {| repaired := true; maxc := mx; blocked := bl |} t) (r_init bl t).
Proof.
  split; [|split; [apply WFJ_init; reflexivity | split; [reflexivity | split; reflexivity]]].
  split; [apply auxeq_refl|]. intros a.
  assert (Hl : lookup (init {| repaired := true; maxc := mx; blocked := bl |} t) a =
               match accs t a with Some x => Some (load_obj x) | None => None end) by reflexivity.
  constructor; simpl.
  - intros c H; discriminate.
  - intros H; contradiction.
  - rewrite Hl. destruct (accs t a); [repeat split|exact I].
  - intros k. rewrite Hl. destruct (accs t a); reflexivity.
  - reflexivity.
  - intros o Ho _. rewrite Hl in Ho. destruct (accs t a) as [x|] eqn:Hx; [|discriminate]. inversion Ho; subst.
    unfold obj_written, cur_store. simpl. rewrite Hx. split; [|reflexivity].
    unfold acc_of_obj. simpl. rewrite to_native_to_wei. rewrite acct_eta. reflexivity.
  - intros o Ho. rewrite Hl in Ho. destruct (accs t a) as [x|]; [|discriminate]. inversion Ho; subst.
    split; [|split]; simpl; try discriminate; [reflexivity | intros k H; contradiction].
  - intros _ _. split; [reflexivity|]. intros o Ho. rewrite Hl in Ho.
    destruct (accs t a) as [x|]; [|discriminate]. inversion Ho; subst. intros k v H. discriminate.
  - intros _. reflexivity.
Qed.

(** ---- (P5) the final commit writes the reference's final state ---- *)
Definition store_eq (t t' : store) : Prop :=
  (forall a, accs t a = accs t' a) /\ (forall a k, stor t a k = stor t' a k).

Lemma commit_final s r : R s r -> repaired (cf s) = true -> store_eq (commit s) (r_final r).
Proof.
  intros HR Hrep. unfold commit. rewrite Hrep.
  set (skip := match cache s with None => true | Some _ => false end).
  assert (Hskip : skip = true -> cur_store s = txs s) by (unfold skip, cur_store; destruct (cache s); [discriminate|reflexivity]).
  assert (Hper : forall a, accs (flush_store skip s (cur_store s)) a = accs (r_final r) a /\
                           forall k, stor (flush_store skip s (cur_store s)) a k = stor (r_final r) a k).
  { intros a. unfold flush_store, r_final. simpl.
    pose proof (R_acc s r HR a) as Ha.
    destruct (dirt s a) as [c|] eqn:Hd.
    - assert (Hn : lookup s a <> None) by (apply (R_dl s r HR a); congruence).
      destruct (lookup s a) as [o|] eqn:Hl; [|contradiction].
      destruct (r_accs r a) as [x|] eqn:Hx; [|contradiction]. destruct Ha as (A1&A2&A3&A4).
      rewrite <- A4. destruct (suicided o) eqn:Hs; [split; reflexivity|].
      split; [rewrite A1, A2, A3; reflexivity|].
      intros k. rewrite (R_sto s r HR a k), Hl. destruct (R_good s r HR a o Hl) as (G1&G2&G3). unfold st.
      destruct (dirty o k) as [v|] eqn:Hk.
      + destruct (skip && (v =? ooz o k)) eqn:Hsk; [|reflexivity].
        apply andb_true_iff in Hsk as [Hs1 Hs2]. apply Z.eqb_eq in Hs2. rewrite (Hskip Hs1).
        unfold ooz in Hs2. destruct (origin o k) as [w|] eqn:Ho.
        * rewrite <- (G2 k w Ho). congruence.
        * exfalso. apply (G3 k); congruence.
      + symmetry. apply G1; assumption.
    - destruct (lookup s a) as [o|] eqn:Hl.
      + destruct (r_accs r a) as [x|] eqn:Hx; [|contradiction]. destruct Ha as (A1&A2&A3&A4).
        pose proof (R_written s r HR a o Hl (or_introl Hd)) as Hw. unfold obj_written in Hw.
        rewrite <- A4. destruct (suicided o) eqn:Hs.
        * destruct Hw as [W1 W2]. split; [exact W1 | exact W2].
        * destruct Hw as [W1 W2]. split; [rewrite W1; unfold acc_of_obj; rewrite A1, A2, A3; reflexivity|].
          intros k. rewrite (R_sto s r HR a k), Hl. symmetry. apply W2.
      + destruct (r_accs r a) as [x|] eqn:Hx; [contradiction|].
        split; [apply (lookup_none_accs s a Hl)|]. intros k. rewrite (R_sto s r HR a k), Hl. reflexivity. }
  split; [intros a; apply Hper | intros a k; apply Hper].
Qed.

Lemma store_eq_sym t t' : store_eq t t' -> store_eq t' t.
Proof. intros [A B]. split; intros; symmetry; auto. Qed.
Lemma store_eq_trans t1 t2 t3 : store_eq t1 t2 -> store_eq t2 t3 -> store_eq t1 t3.
Proof. intros [A B] [A' B']. split; intros; [rewrite A; apply A' | rewrite B; apply B']. Qed.

(** ======================= the theorems ======================= *)

(** Frame atomicity: for every well-formed script, the state committed by the two-layer model
    (journal + dirty counts + object cache over tx store / cache store) is the final state of the
    copy-on-frame reference; so are the journaled tx data (logs, refund, access list). *)
Theorem frame_atomicity mx bl t0 body :
  wf_body mx body (r_init bl t0) = true ->
  let s := run (PFrame body false) (init {| repaired := true; maxc := mx; blocked := bl |} t0) in
  let r := rrun mx (PFrame body false) (r_init bl t0) in
  store_eq (commit s) (r_final r) /\ auxeq (aux s) (r_aux r) /\
  (commit_fails s = r_pending r).
Proof.
  intros Hwf s r.
  pose proof (sim_run mx (PFrame body false) _ _ (Inv_init mx bl t0) Hwf) as (HR & (_&_&Hrep) & _ & _ & HB).
  fold s r in HR, Hrep, HB. split; [apply commit_final; assumption|]. split; [apply (R_aux s r HR)|].
  pose proof (pending_iff s r HR HB) as H. unfold commit_fails.
  destruct (flush_fail s), (r_pending r); try reflexivity.
  - destruct H as [_ H]. discriminate (H eq_refl).
  - destruct H as [H _]. symmetry. apply H. reflexivity.
Qed.

(** every program point of every well-formed script (at any nesting depth: entering a frame
    does not change the state, and the ops of its body are steps) *)
Inductive reach (mx : Z) (bl : list addr) (t0 : store) : sdb -> rstate -> Prop :=
| reach_init : reach mx bl t0 (init {| repaired := true; maxc := mx; blocked := bl |} t0) (r_init bl t0)
| reach_step p s r : reach mx bl t0 s r -> wf mx p r = true -> reach mx bl t0 (run p s) (rrun mx p r).

Lemma reach_Inv mx bl t0 s r : reach mx bl t0 s r -> Inv mx s r.
Proof. induction 1; [apply Inv_init | apply sim_run; assumption]. Qed.

Lemma op_ok_txs s s' : op_ok s s' -> WFJ s -> txs s' = txs s.
Proof.
  intros H HW. destruct (H HW) as (_&(_&T&_)&_). rewrite T. unfold unwind. symmetry. apply unwind_k_txs.
Qed.

Lemma reach_txs mx bl t0 s r : reach mx bl t0 s r -> txs s = t0.
Proof.
  induction 1; [reflexivity|]. rewrite (op_ok_txs s (run p s) (run_ok p s)); [assumption|].
  apply (reach_Inv _ _ _ _ _ H).
Qed.

(** Reads see the reference: at every reachable program point GetState returns the reference's
    slot value and GetCommittedState the value of the slot when the transaction started. *)
Theorem reads_see_reference_reach mx bl t0 s r a k :
  reach mx bl t0 s r ->
  read_vals s a k = match r_accs r a with Some _ => (r_stor r a k, stor t0 a k) | None => (0, 0) end.
Proof.
  intros H. destruct (reach_Inv _ _ _ _ _ H) as (HR&_). rewrite (reads_see_reference s r a k HR).
  rewrite (reach_txs _ _ _ _ _ H). reflexivity.
Qed.

Lemma wf_sends_firstn i : forall sends r, wf_sends sends r = true -> wf_sends (firstn i sends) r = true.
Proof.
  induction i as [|i IH]; intros [|x t] r H; simpl in *; auto.
  apply andb_true_iff in H as [H1 H2]. rewrite H1. simpl. apply IH; exact H2.
Qed.

(** Balance views: inside a precompile body — after OnRunStart and after every bank send — and
    hence at its successful return, the StateDB balance of every account that has not
    self-destructed, converted to unibi, IS the bank balance on the cache context. *)
Theorem balance_views_agree mx bl t0 s r sends fails i :
  reach mx bl t0 s r -> wf mx (PPrecompile sends fails) r = true -> (mx <? calls s + 1) = false ->
  r_pending (r_with_calls r (calls s + 1)) = false ->
  views (run_sends (firstn i sends) (commit_cache (precompile_snapshot s))).
Proof.
  intros Hre Hwf Hlim Hnp. destruct (reach_Inv _ _ _ _ _ Hre) as (HR&HW&HC&HM&HB). pose proof HW as (_&_&Hrep).
  rewrite wf_precompile in Hwf. rewrite <- HC, Hlim, Hnp in Hwf.
  assert (HR1 : R (precompile_snapshot s) (r_with_calls r (calls s + 1))) by (apply R_calls, sim_snapshot; exact HR).
  destruct (sim_flush _ _ HR1 ltac:(rewrite snapshot_cf; exact Hrep)) as [HRF HCl].
  eapply (sim_sends (firstn i sends) _ (r_flush (r_with_calls r (calls s + 1)))).
  - exact HRF.
  - eapply views_of_clean; eauto.
  - unfold commit_cache; sdb_simp; discriminate.
  - change (cf (commit_cache (precompile_snapshot s))) with (cf (precompile_snapshot s)). rewrite snapshot_cf. exact HB.
  - apply wf_sends_firstn; exact Hwf.
Qed.

(** what an OTouch right after the return reads *)
Lemma touch_reads_views s a :
  views s -> (forall o, lookup s a = Some o -> suicided o = false) ->
  match out (touch s a) with
  | (a', w, b) :: _ => a' = a /\ b = to_native w
  | [] => False
  end.
Proof.
  intros HV Hs. unfold touch. sdb_simp. rewrite cached_cur. split; [reflexivity|].
  destruct (lookup s a) as [o|] eqn:Hl.
  - apply (HV a o Hl). apply Hs; reflexivity.
  - unfold bank_bal. rewrite (lookup_none_accs s a Hl). reflexivity.
Qed.

(** Refused calls.  A precompile call made when the counter has reached the limit, or whose
    pre-run flush fails (a blocked module account would have to be credited), fails and leaves
    (a refinement of) the state it started from — in particular the part of the flush that was
    already written is undone; what would be committed is unchanged.  Every call counts. *)
Theorem refused_call mx s r sends fails :
  Inv mx s r -> (mx < calls s + 1 \/ r_pending (r_with_calls r (calls s + 1)) = true) ->
  le s (precompile_call s sends fails) /\
  calls (precompile_call s sends fails) = calls s + 1 /\
  store_eq (commit (precompile_call s sends fails)) (commit s).
Proof.
  intros HI Href. pose proof HI as (HR&HW&HC&HM&HB). pose proof HW as (_&_&Hrep).
  assert (Hwf : wf mx (PPrecompile sends fails) r = true).
  { rewrite wf_precompile. rewrite <- HC. destruct (mx <? calls s + 1) eqn:E; [reflexivity|].
    destruct Href as [H|H]; [apply Z.ltb_ge in E; lia | rewrite H; reflexivity]. }
  pose proof (sim_precompile mx s r sends fails HI Hwf) as (HR'&(_&_&Hrep')&HC'&_).
  assert (Hr0 : rrun mx (PPrecompile sends fails) r = r_with_calls r (calls s + 1)).
  { rewrite rrun_precompile. cbv zeta. simpl r_calls. rewrite <- HC.
    destruct (mx <? calls s + 1) eqn:E; [reflexivity|].
    destruct Href as [H|H]; [apply Z.ltb_ge in E; lia | rewrite H; reflexivity]. }
  rewrite Hr0 in HR', HC'. simpl in HC'.
  assert (Hlen : length (journal (precompile_call s sends fails)) = length (journal s)).
  { unfold precompile_call. rewrite HM, snapshot_calls.
    set (n := length (journal s)). set (s1 := precompile_snapshot s).
    assert (J1 : journal s1 = snap_entry s :: journal s) by apply snapshot_journal.
    destruct (mx <? calls s + 1) eqn:E.
    - apply unwind_len. rewrite J1. simpl. unfold n. lia.
    - destruct Href as [H|H]; [apply Z.ltb_ge in E; lia|].
      assert (HR1 : R s1 (r_with_calls r (calls s + 1))) by (apply R_calls, sim_snapshot; exact HR).
      assert (HB1 : blocked (cf s1) = r_bl (r_with_calls r (calls s + 1))) by (unfold s1; rewrite snapshot_cf; exact HB).
      pose proof (pending_iff s1 _ HR1 HB1) as [Hp _].
      destruct (flush_fail s1) as [af|]; [|rewrite (Hp eq_refl) in H; discriminate].
      apply unwind_len. change (journal (commit_cache_partial af s1)) with (journal s1). rewrite J1. simpl. unfold n. lia. }
  split; [|split; [exact HC'|]].
  - pose proof (precompile_call_ok s sends fails HW) as (_ & HLE & _).
    rewrite <- Hlen in HLE at 1. rewrite unwind_id in HLE. exact HLE.
  - eapply store_eq_trans; [apply (commit_final _ _ HR' Hrep')|].
    apply store_eq_sym. eapply store_eq_trans; [apply (commit_final s r HR Hrep)|].
    split; intros; reflexivity.
Qed.

Theorem call_limit mx s r sends fails :
  Inv mx s r -> mx < calls s + 1 ->
  le s (precompile_call s sends fails) /\
  calls (precompile_call s sends fails) = calls s + 1 /\
  store_eq (commit (precompile_call s sends fails)) (commit s).
Proof. intros HI H. apply (refused_call mx s r sends fails HI). left; exact H. Qed.

(** the counter counts every precompile call of the script, reverted or not *)
Fixpoint ncalls (p : prog) : nat :=
  match p with
  | PFrame body _ => list_sum (map ncalls body)
  | PPrecompile _ _ => 1
  | _ => 0
  end.

Lemma precompile_call_calls s sends fails : calls (precompile_call s sends fails) = calls s + 1.
Proof.
  unfold precompile_call. destruct (_ <? _); [rewrite unwind_calls; apply snapshot_calls|].
  destruct (flush_fail _); [rewrite unwind_calls; apply snapshot_calls|].
  destruct fails; rewrite ?unwind_calls, run_sends_calls; apply snapshot_calls.
Qed.

Lemma run_calls_aux n : forall p s, (psize p <= n)%nat -> calls (run p s) = calls s + Z.of_nat (ncalls p).
Proof.
  induction n as [|n IH]; intros p s Hn; [destruct p; simpl in Hn; lia|].
  pose proof (run_calls_simple p s) as H.
  destruct p; try (simpl ncalls; rewrite H; lia).
  - assert (Hb : forall l s0, (list_sum (map psize l) <= n)%nat ->
                 calls (run_body l s0) = calls s0 + Z.of_nat (list_sum (map ncalls l))).
    { induction l as [|x t IHl]; intros s0 Hl; [simpl; lia|].
      rewrite run_body_cons. simpl in Hl. rewrite IHl by lia. rewrite (IH x) by lia. simpl. lia. }
    cbn [psize] in Hn. rewrite run_frame. simpl ncalls.
    destruct reverted; rewrite ?unwind_calls; apply Hb; lia.
  - simpl run. rewrite precompile_call_calls. simpl. lia.
Qed.

Theorem run_counts_calls p s : calls (run p s) = calls s + Z.of_nat (ncalls p).
Proof. apply (run_calls_aux (psize p)). lia. Qed.
