(** C04 proofs, part 6 (P4/P5): whole scripts run in lock-step with the reference; the final
    commit writes exactly the reference's final state; balance views; call limit. *)
From Coq Require Import ZArith List Bool Lia.
Import ListNotations.
Local Open Scope Z_scope.
Require Import Nib.C04.Model Nib.C04.ProofsBase Nib.C04.ProofsUndo Nib.C04.ProofsOps Nib.C04.ProofsInv Nib.C04.ProofsSim.

(** ---- the call counter is only touched by precompile_snapshot ---- *)
Lemma set_obj_calls s a o : calls (set_obj s a o) = calls s. Proof. reflexivity. Qed.

Lemma set_balance_calls s a b : calls (set_balance s a b) = calls s.
Proof. unfold set_balance. rewrite set_obj_calls, push_calls. apply get_or_new_calls. Qed.
Lemma set_nonce_calls s a b : calls (set_nonce s a b) = calls s.
Proof. unfold set_nonce. rewrite set_obj_calls, push_calls. apply get_or_new_calls. Qed.
Lemma set_code_calls s a b : calls (set_code s a b) = calls s.
Proof. unfold set_code. rewrite set_obj_calls, push_calls. apply get_or_new_calls. Qed.
Lemma add_balance_calls s a b : calls (add_balance s a b) = calls s.
Proof. unfold add_balance. destruct (_ =? _); [apply get_or_new_calls | apply set_balance_calls]. Qed.
Lemma set_state_calls s a k v : calls (set_state s a k v) = calls s.
Proof.
  unfold set_state. destruct (_ =? _); rewrite set_obj_calls, ?push_calls; apply get_or_new_calls.
Qed.
Lemma suicide_calls s a : calls (suicide s a) = calls s.
Proof. unfold suicide. destruct (lookup s a); [|reflexivity]. rewrite set_obj_calls, push_calls. apply cached_calls. Qed.
Lemma create_account_calls s a : calls (create_account s a) = calls s.
Proof.
  unfold create_account, create_object. destruct (lookup s a); rewrite ?set_obj_calls, push_calls; apply cached_calls.
Qed.

Lemma inc_state_calls s a k d : calls (inc_state s a k d) = calls s.
Proof. apply set_state_calls. Qed.
Lemma bank_send_calls s f t amt : calls (bank_send s f t amt) = calls s.
Proof.
  unfold bank_send. destruct (cache s); [|reflexivity]. destruct (_ || _); [reflexivity|].
  rewrite !set_balance_calls. reflexivity.
Qed.

Lemma run_calls_simple p s :
  match p with PFrame _ _ | PPrecompile _ _ => True | _ => calls (run p s) = calls s end.
Proof.
  destruct p; try exact I; cbn [run].
  - apply add_balance_calls.
  - unfold sub_balance. destruct (_ <? _); [apply cached_calls | apply add_balance_calls].
  - apply set_nonce_calls.
  - apply set_code_calls.
  - apply set_state_calls.
  - unfold selfdestruct. destruct (lookup s a); [|reflexivity].
    rewrite suicide_calls, add_balance_calls. apply cached_calls.
  - unfold evm_create. destruct (lookup s a).
    + destruct (_ || _); [apply cached_calls|]. rewrite set_nonce_calls. apply create_account_calls.
    + rewrite set_nonce_calls. apply create_account_calls.
  - unfold add_log. sdb_simp. apply push_calls.
  - unfold set_refund. sdb_simp. apply push_calls.
  - unfold sub_refund. destruct (_ <? _); [reflexivity|]. unfold set_refund. sdb_simp. apply push_calls.
  - unfold access_addr. destruct (al _ _); [reflexivity|]. sdb_simp. apply push_calls.
  - unfold access_slot. destruct (als _ _ _).
    + unfold access_addr. destruct (al _ _); [reflexivity|]. sdb_simp. apply push_calls.
    + sdb_simp. rewrite push_calls. unfold access_addr. destruct (al _ _); [reflexivity|]. sdb_simp. apply push_calls.
  - unfold touch. sdb_simp. apply cached_calls.
  - unfold read_obs, read_state. sdb_simp. destruct (lookup s a); [|reflexivity]. rewrite set_obj_calls. apply cached_calls.
  - apply bank_send_calls.
  - apply inc_state_calls.
Qed.

Lemma rrun_calls_simple mx p r :
  match p with PFrame _ _ | PPrecompile _ _ => True | _ => r_calls (rrun mx p r) = r_calls r end.
Proof.
  destruct p; try exact I; simpl; try reflexivity.
  - destruct (_ <? _); reflexivity.
  - destruct (r_accs r a); reflexivity.
  - destruct (r_accs r a); [destruct (_ || _)|]; reflexivity.
  - destruct (_ <? _); reflexivity.
  - unfold r_send. destruct (_ || _); reflexivity.
Qed.

Lemma op_ok_cf s s' : op_ok s s' -> WFJ s -> cf s' = cf s.
Proof.
  intros H HW. destruct (H HW) as (_&(_&_&C&_)&_). rewrite C. unfold unwind. symmetry. apply unwind_k_cf.
Qed.
Lemma op_ok_txs s s' : op_ok s s' -> WFJ s -> txs s' = txs s.
Proof.
  intros H HW. destruct (H HW) as (_&(_&T&_)&_). rewrite T. unfold unwind. symmetry. apply unwind_k_txs.
Qed.

Lemma unwind_len' n s : (n <= length (journal (unwind n s)))%nat -> length (journal (unwind n s)) = n.
Proof.
  intros H. unfold unwind in *. rewrite unwind_k_len in * by lia. lia.
Qed.

(** ---- the cache context, once created, stays ---- *)
Lemma undo_cache e s : cache s <> None -> cache (undo e s) <> None.
Proof.
  intros H. destruct e; try exact H;
    try (match goal with |- cache (undo ?E s) <> None => pose proof (undo_mut E s) as Hm; cbv beta iota in Hm; rewrite Hm, mut_cache; exact H end).
  simpl. destruct (repaired (cf s)); sdb_simp; discriminate.
Qed.
Lemma pop_undo_cache s : cache s <> None -> cache (pop_undo s) <> None.
Proof.
  intros H. unfold pop_undo. destruct (journal s) as [|e r]; [exact H|].
  destruct (dirtied e); sdb_simp; apply undo_cache; exact H.
Qed.
Lemma unwind_k_cache k : forall s, cache s <> None -> cache (unwind_k k s) <> None.
Proof. induction k; intros s H; simpl; [exact H|]. apply IHk, pop_undo_cache, H. Qed.

Lemma set_obj_cache s a o : cache (set_obj s a o) = cache s. Proof. reflexivity. Qed.
Lemma get_or_new_cache s a : cache (get_or_new s a) = cache s.
Proof. unfold get_or_new. destruct (lookup s a); [apply cached_cache|]. rewrite set_obj_cache. apply push_cache. Qed.
Lemma set_balance_cache s a b : cache (set_balance s a b) = cache s.
Proof. unfold set_balance. rewrite set_obj_cache, push_cache. apply get_or_new_cache. Qed.
Lemma set_nonce_cache s a b : cache (set_nonce s a b) = cache s.
Proof. unfold set_nonce. rewrite set_obj_cache, push_cache. apply get_or_new_cache. Qed.
Lemma set_code_cache s a b : cache (set_code s a b) = cache s.
Proof. unfold set_code. rewrite set_obj_cache, push_cache. apply get_or_new_cache. Qed.
Lemma add_balance_cache s a b : cache (add_balance s a b) = cache s.
Proof. unfold add_balance. destruct (_ =? _); [apply get_or_new_cache | apply set_balance_cache]. Qed.
Lemma set_state_cache s a k v : cache (set_state s a k v) = cache s.
Proof. unfold set_state. destruct (_ =? _); rewrite set_obj_cache, ?push_cache; apply get_or_new_cache. Qed.
Lemma suicide_cache s a : cache (suicide s a) = cache s.
Proof. unfold suicide. destruct (lookup s a); [|reflexivity]. rewrite set_obj_cache, push_cache. apply cached_cache. Qed.
Lemma create_account_cache s a : cache (create_account s a) = cache s.
Proof.
  unfold create_account, create_object. destruct (lookup s a); rewrite ?set_obj_cache, push_cache; apply cached_cache.
Qed.
Lemma bank_send_cache s f t amt : cache s <> None -> cache (bank_send s f t amt) <> None.
Proof.
  intros H. unfold bank_send. destruct (cache s) as [c|] eqn:Hc; [|contradiction].
  destruct (_ || _); [rewrite Hc; discriminate|]. rewrite !set_balance_cache. sdb_simp. discriminate.
Qed.

Lemma run_cache_simple p s :
  match p with PFrame _ _ | PPrecompile _ _ | OBankSend _ _ _ => True | _ => cache (run p s) = cache s end.
Proof.
  destruct p; try exact I; cbn [run].
  - apply add_balance_cache.
  - unfold sub_balance. destruct (_ <? _); [apply cached_cache | apply add_balance_cache].
  - apply set_nonce_cache.
  - apply set_code_cache.
  - apply set_state_cache.
  - unfold selfdestruct. destruct (lookup s a); [|reflexivity].
    rewrite suicide_cache, add_balance_cache. apply cached_cache.
  - unfold evm_create. destruct (lookup s a).
    + destruct (_ || _); [apply cached_cache|]. rewrite set_nonce_cache. apply create_account_cache.
    + rewrite set_nonce_cache. apply create_account_cache.
  - unfold add_log. sdb_simp. apply push_cache.
  - unfold set_refund. sdb_simp. apply push_cache.
  - unfold sub_refund. destruct (_ <? _); [reflexivity|]. unfold set_refund. sdb_simp. apply push_cache.
  - unfold access_addr. destruct (al _ _); [reflexivity|]. sdb_simp. apply push_cache.
  - unfold access_slot. destruct (als _ _ _).
    + unfold access_addr. destruct (al _ _); [reflexivity|]. sdb_simp. apply push_cache.
    + sdb_simp. rewrite push_cache. unfold access_addr. destruct (al _ _); [reflexivity|]. sdb_simp. apply push_cache.
  - unfold touch. sdb_simp. apply cached_cache.
  - unfold read_obs, read_state. sdb_simp. destruct (lookup s a); [|reflexivity]. rewrite set_obj_cache. apply cached_cache.
  - apply set_state_cache.
Qed.

Lemma pc_shell_cache s F fails : (forall s0, cache s0 <> None -> cache (F s0) <> None) -> cache (pc_shell s F fails) <> None.
Proof.
  intros HF. unfold pc_shell.
  assert (H1 : cache (precompile_snapshot s) <> None).
  { rewrite precompile_snapshot_eq. sdb_simp. rewrite push_cache. unfold with_cache0.
    destruct (cache s) eqn:E; [rewrite E; discriminate | sdb_simp; discriminate]. }
  destruct (_ <? _); [apply unwind_k_cache; exact H1|].
  destruct (flush_fail _); [apply unwind_k_cache; unfold commit_cache_partial; sdb_simp; discriminate|].
  assert (H2 : cache (F (commit_cache (precompile_snapshot s))) <> None) by (apply HF; unfold commit_cache; sdb_simp; discriminate).
  destruct fails; [apply unwind_k_cache|]; exact H2.
Qed.

Lemma run_cache_aux n : forall p s, (psize p <= n)%nat -> cache s <> None -> cache (run p s) <> None.
Proof.
  induction n as [|n IH]; intros p s Hn Hc; [destruct p; simpl in Hn; lia|].
  pose proof (run_cache_simple p s) as H.
  assert (Hb : forall l s0, (list_sum (map psize l) <= n)%nat -> cache s0 <> None -> cache (run_body l s0) <> None).
  { induction l as [|x t IHl]; intros s0 Hl H0; [exact H0|]. rewrite run_body_cons. simpl in Hl.
    apply IHl; [lia|]. apply IH; [lia | exact H0]. }
  destruct p; try (rewrite H; exact Hc).
  - cbn [run]. apply bank_send_cache; exact Hc.
  - cbn [psize] in Hn. rewrite run_frame. destruct reverted; [apply unwind_k_cache|]; apply Hb; auto; lia.
  - cbn [psize] in Hn. rewrite run_precompile. apply pc_shell_cache. intros s0 H0. apply Hb; [lia | exact H0].
Qed.
Lemma run_cache p s : cache s <> None -> cache (run p s) <> None.
Proof. apply (run_cache_aux (psize p)). lia. Qed.

Lemma bank_send_cf s f t amt : cf (bank_send s f t amt) = cf s.
Proof.
  unfold bank_send. destruct (cache s); [|reflexivity]. destruct (_ || _); [reflexivity|].
  rewrite !set_balance_cf. reflexivity.
Qed.
Lemma r_send_bl r f t amt : r_bl (r_send r f t amt) = r_bl r.
Proof. unfold r_send. destruct (_ || _); reflexivity. Qed.

Lemma WFJ_bank_send s f t amt : WFJ s -> WFJ (bank_send s f t amt).
Proof.
  intros HW. unfold bank_send. destruct (cache s); [|exact HW]. destruct (_ || _); [exact HW|].
  match goal with |- WFJ (set_balance (set_balance ?A _ _) _ _) => assert (HA : WFJ A) by (apply WFJ_with_cache; exact HW);
    destruct (set_balance_ok A f (to_wei (bank_bal (bank_move s0 f t amt) f)) HA) as (_&_&HB) end.
  match goal with |- WFJ (set_balance ?B _ ?v) => destruct (set_balance_ok B t v HB) as (_&_&HC) end. exact HC.
Qed.

(** the flush fails in the model exactly when the reference says a blocked account must be credited *)
Lemma find_existsb {A} (f g : A -> bool) l :
  (forall x, In x l -> f x = g x) -> (find f l = None <-> existsb g l = false).
Proof.
  induction l as [|x l IH]; intros H; simpl; [tauto|].
  rewrite (H x (or_introl eq_refl)). destruct (g x); simpl; [split; discriminate|].
  apply IH. intros y Hy. apply H. right; exact Hy.
Qed.

Lemma pending_iff s r :
  R s r -> blocked (cf s) = r_bl r -> (flush_fail s = None <-> r_pending r = false).
Proof.
  intros HR Hbl. unfold flush_fail, r_pending. rewrite Hbl. apply find_existsb.
  intros a Ha. rewrite <- Hbl in Ha. unfold fails_at.
  pose proof (R_acc s r HR a) as Hacc. pose proof (R_base s r HR a) as Hb.
  destruct (lookup s a) as [o|] eqn:Hl, (r_accs r a) as [x|] eqn:Hx; try contradiction.
  - destruct Hacc as (A1&_&_&A4). rewrite <- A1, <- A4, <- Hb.
    destruct (dirt s a) eqn:Hd; [reflexivity|].
    pose proof (R_written s r HR a o Hl (or_introl Hd)) as Hw. unfold obj_written in Hw.
    destruct (suicided o); [reflexivity|]. destruct Hw as [Hw _]. unfold bank_bal. rewrite Hw. simpl.
    symmetry. apply Z.ltb_irrefl.
  - destruct (dirt s a); reflexivity.
Qed.


(** ---- the invariant of a run ---- *)
Definition Inv (mx : Z) (s : sdb) (r : rstate) : Prop :=
  R s r /\ WFJ s /\ calls s = r_calls r /\ maxc (cf s) = mx /\ blocked (cf s) = r_bl r.

Lemma R_calls s r c : R s r -> R s (r_with_calls r c).
Proof. intros H. eapply R_req; [exact H|]. repeat split; auto. Qed.

Lemma Inv_reverted mx s s' r c :
  Inv mx s r -> le s s' -> WFJ s' -> calls s' = c -> Inv mx s' (r_with_calls r c).
Proof.
  intros (HR&HW&HC&HM&HB) HL HW' Hc. split; [apply R_calls, (R_le s s' r HR HL)|]. split; [exact HW'|].
  split; [exact Hc|]. destruct HL as (_&_&C&_). rewrite <- C. split; [exact HM | exact HB].
Qed.

(** ---- (P4) every well-formed script runs in lock-step with the reference ---- *)
Lemma sim_simple mx inb p s r :
  match p with PFrame _ _ | PPrecompile _ _ | OBankSend _ _ _ => True | _ =>
    R s r -> wf mx inb p r = true -> R (run p s) (rrun mx p r) end.
Proof.
  destruct p; try exact I; intros HR Hwf; cbn [run rrun].
  - apply sim_add_balance; exact HR.
  - apply sim_sub_balance; exact HR.
  - apply sim_set_nonce; exact HR.
  - apply sim_set_code; exact HR.
  - apply (sim_set_state s r a k v HR).
  - apply (sim_selfdestruct mx s r a b HR).
  - apply (sim_evm_create mx s r a HR Hwf).
  - apply (sim_add_log mx s r HR).
  - pose proof (R_aux s r HR) as (_&B&_). rewrite B. apply sim_set_refund; exact HR.
  - unfold sub_refund. pose proof (R_aux s r HR) as (_&B&_). rewrite B.
    destruct (_ <? _); [exact HR | apply sim_set_refund; exact HR].
  - apply sim_access_addr; exact HR.
  - apply (sim_access_slot mx s r a k HR).
  - apply sim_touch; exact HR.
  - apply sim_read_obs; exact HR.
  - apply (sim_inc_state mx s r a k d HR).
Qed.

Lemma nosend_simple p :
  match p with PFrame _ _ | PPrecompile _ _ | OBankSend _ _ _ => True | _ => nosend p = true end.
Proof. destruct p; try exact I; reflexivity. Qed.

Lemma wf_frame_cons mx inb p t rv r :
  wf mx inb (PFrame (p :: t) rv) r = wf mx false p r && wf mx inb (PFrame t rv) (rrun mx p r).
Proof. reflexivity. Qed.
Lemma rrun_frame mx body rv r :
  rrun mx (PFrame body rv) r =
  (if rv then r_with_calls r (r_calls (rrun_body mx body r)) else rrun_body mx body r).
Proof. reflexivity. Qed.
Lemma rrun_body_cons mx p t r : rrun_body mx (p :: t) r = rrun_body mx t (rrun mx p r).
Proof. reflexivity. Qed.

(** the elements of a precompile body *)
Fixpoint wf_pbody (mx : Z) (l : list prog) (r : rstate) : bool :=
  match l with [] => true | p :: t => wf mx true p r && wf_pbody mx t (rrun mx p r) end.

Lemma wf_precompile mx inb body fails r :
  wf mx inb (PPrecompile body fails) r =
  (if mx <? r_calls r + 1 then true
   else if r_pending (r_with_calls r (r_calls r + 1)) then true
   else wf_pbody mx body (r_flush (r_with_calls r (r_calls r + 1)))).
Proof.
  simpl. destruct (mx <? r_calls r + 1); [reflexivity|].
  destruct (r_pending (r_with_calls r (r_calls r + 1))); [reflexivity|].
  generalize (r_flush (r_with_calls r (r_calls r + 1))). induction body as [|x t IH]; intros r0; simpl; [reflexivity|].
  rewrite IH. reflexivity.
Qed.

Lemma rrun_precompile mx body fails r :
  rrun mx (PPrecompile body fails) r =
  (let r0 := r_with_calls r (r_calls r + 1) in
   if mx <? r_calls r0 then r0 else if r_pending r0 then r0
   else let r' := rrun_body mx body (r_flush r0) in
        if fails then r_with_calls r0 (r_calls r') else r').
Proof. reflexivity. Qed.

Lemma rrun_bl_aux mx n : forall p r, (psize p <= n)%nat -> r_bl (rrun mx p r) = r_bl r.
Proof.
  induction n as [|n IH]; intros p r Hn; [destruct p; simpl in Hn; lia|].
  assert (Hb : forall l r0, (list_sum (map psize l) <= n)%nat -> r_bl (rrun_body mx l r0) = r_bl r0).
  { induction l as [|x t IHl]; intros r0 Hl; [reflexivity|].
    rewrite rrun_body_cons. simpl in Hl. rewrite IHl by lia. apply IH; lia. }
  destruct p; try reflexivity.
  - simpl rrun. destruct (_ <? _); reflexivity.
  - simpl rrun. destruct (r_accs r a); reflexivity.
  - simpl rrun. destruct (r_accs r a); [destruct (_ || _)|]; reflexivity.
  - simpl rrun. destruct (_ <? _); reflexivity.
  - simpl rrun. apply r_send_bl.
  - cbn [psize] in Hn. rewrite rrun_frame. destruct reverted; [reflexivity|]. apply Hb; lia.
  - cbn [psize] in Hn. rewrite rrun_precompile. cbv zeta.
    destruct (_ <? _); [reflexivity|]. destruct (r_pending _); [reflexivity|]. destruct fails; [reflexivity|].
    rewrite Hb by lia. reflexivity.
Qed.
Lemma rrun_bl mx p r : r_bl (rrun mx p r) = r_bl r.
Proof. apply (rrun_bl_aux mx (psize p)). lia. Qed.

(** well-formed scripts keep their bank sends inside precompile bodies *)
Lemma wf_nosend_aux mx n : forall p r, (psize p <= n)%nat -> wf mx false p r = true -> nosend p = true.
Proof.
  induction n as [|n IH]; intros p r Hn Hwf; [destruct p; simpl in Hn; lia|].
  destruct p; try reflexivity.
  - simpl in Hwf. discriminate.
  - cbn [psize] in Hn. cbn [nosend]. revert r Hwf Hn. induction body as [|x t IHl]; intros r Hwf Hn; [reflexivity|].
    rewrite wf_frame_cons in Hwf. apply andb_true_iff in Hwf as [H1 H2]. simpl in Hn. simpl.
    rewrite (IH x r) by (auto; lia). simpl. apply (IHl (rrun mx x r)); [exact H2 | lia].
Qed.
Lemma wf_nosend mx p r : wf mx false p r = true -> nosend p = true.
Proof. apply (wf_nosend_aux mx (psize p)). lia. Qed.

Lemma sim_run_aux mx n : forall p s r inb, (psize p <= n)%nat ->
  Inv mx s r -> (inb = true -> cache s <> None) -> wf mx inb p r = true -> Inv mx (run p s) (rrun mx p r).
Proof.
  induction n as [|n IH]; intros p s r inb Hn HI Hcache Hwf.
  - destruct p; simpl in Hn; lia.
  - pose proof HI as (HR&HW&HC&HM&HB).
    assert (Hsimple : match p with PFrame _ _ | PPrecompile _ _ | OBankSend _ _ _ => True | _ => Inv mx (run p s) (rrun mx p r) end).
    { pose proof (sim_simple mx inb p s r) as H1. pose proof (run_calls_simple p s) as H2.
      pose proof (rrun_calls_simple mx p r) as H3. pose proof (run_ok p s) as H4. pose proof (nosend_simple p) as H5.
      destruct p; try exact I;
        (specialize (H4 H5); split; [apply H1; assumption|]; split; [apply (H4 HW)|]; split; [congruence|];
         rewrite (op_ok_cf _ _ H4 HW), rrun_bl; split; [exact HM | exact HB]). }
    (* bodies of frames (elements are not direct body elements) and of precompile calls *)
    assert (Hbody : forall l s0 r0, (list_sum (map psize l) <= n)%nat -> Inv mx s0 r0 ->
              wf mx false (PFrame l false) r0 = true -> Inv mx (run_body l s0) (rrun_body mx l r0)).
    { induction l as [|x t IHl]; intros s0 r0 Hl HI0 Hw0; [exact HI0|].
      rewrite run_body_cons, rrun_body_cons. rewrite wf_frame_cons in Hw0. apply andb_true_iff in Hw0 as [Hwx Hwt].
      simpl in Hl. apply IHl; [lia | apply (IH x s0 r0 false); [lia | exact HI0 | discriminate | exact Hwx] | exact Hwt]. }
    assert (Hpbody : forall l s0 r0, (list_sum (map psize l) <= n)%nat -> Inv mx s0 r0 -> cache s0 <> None ->
              wf_pbody mx l r0 = true -> Inv mx (run_body l s0) (rrun_body mx l r0)).
    { induction l as [|x t IHl]; intros s0 r0 Hl HI0 Hc0 Hw0; [exact HI0|].
      rewrite run_body_cons, rrun_body_cons. simpl in Hw0. apply andb_true_iff in Hw0 as [Hwx Hwt].
      simpl in Hl. apply IHl; [lia | apply (IH x s0 r0 true); [lia | exact HI0 | intros _; exact Hc0 | exact Hwx]
                              | apply run_cache; exact Hc0 | exact Hwt]. }
    destruct p; try exact Hsimple.
    + (* OBankSend *)
      cbn [run rrun]. simpl in Hwf. apply andb_true_iff in Hwf as [Hin Hws]. subst inb.
      split; [apply sim_bank_send; [exact HR | apply Hcache; reflexivity | exact Hws]|].
      split; [apply WFJ_bank_send; exact HW|]. split; [rewrite bank_send_calls; unfold r_send; destruct (_ || _); exact HC|].
      rewrite bank_send_cf, r_send_bl. split; [exact HM | exact HB].
    + (* frame *)
      cbn [psize] in Hn. rewrite run_frame, rrun_frame.
      assert (Hw' : wf mx false (PFrame body false) r = true) by exact Hwf.
      pose proof (Hbody body s r ltac:(lia) HI Hw') as HIb.
      destruct reverted; [|exact HIb].
      assert (Hns : forallb nosend body = true) by (apply (wf_nosend mx (PFrame body false) r Hw')).
      destruct (run_body_ok body s Hns HW) as (L & HE & HWb).
      destruct HIb as (_&_&HCb&_).
      apply (Inv_reverted mx s _ r); [exact HI | exact HE | apply WFJ_unwind; exact HWb |].
      rewrite unwind_calls. exact HCb.
    + (* precompile call *)
      cbn [psize] in Hn. pose proof HW as (_&_&Hrep).
      assert (Hok : op_ok s (run (PPrecompile body fails) s)) by (apply run_ok; reflexivity).
      destruct (Hok HW) as (Hlen & HLE & HW').
      rewrite wf_precompile in Hwf. rewrite rrun_precompile. cbv zeta. simpl r_calls.
      rewrite run_precompile in *. unfold pc_shell in *.
      set (k := length (journal s)) in *. set (s1 := precompile_snapshot s) in *.
      assert (Hc1 : calls s1 = r_calls r + 1) by (unfold s1; rewrite snapshot_calls, HC; reflexivity).
      rewrite HM, Hc1. rewrite HM, Hc1 in HLE, HW', Hlen.
      assert (Hrev : forall sX, (k <= length (journal (unwind k sX)))%nat -> le s (unwind k (unwind k sX)) -> le s (unwind k sX)).
      { intros sX Hl H. pose proof (unwind_len' k sX Hl) as Hk. rewrite <- Hk in H at 1. rewrite unwind_id in H. exact H. }
      destruct (mx <? r_calls r + 1) eqn:Hlim.
      * apply (Inv_reverted mx s _ r); [exact HI | apply Hrev; assumption | exact HW' | rewrite unwind_calls; exact Hc1].
      * set (r0 := r_with_calls r (r_calls r + 1)) in *.
        assert (HR1 : R s1 r0) by (apply R_calls, sim_snapshot; exact HR).
        assert (HB1 : blocked (cf s1) = r_bl r0) by (unfold s1; rewrite snapshot_cf; exact HB).
        pose proof (pending_iff s1 r0 HR1 HB1) as Hpend.
        destruct (flush_fail s1) as [af|] eqn:Hff.
        -- assert (Hp : r_pending r0 = true).
           { destruct (r_pending r0); [reflexivity|]. destruct Hpend as [_ H]. discriminate (H eq_refl). }
           rewrite Hp.
           apply (Inv_reverted mx s _ r); [exact HI | apply Hrev; assumption | exact HW' | rewrite unwind_calls; exact Hc1].
        -- assert (Hp : r_pending r0 = false) by (apply Hpend; reflexivity).
           rewrite Hp in *.
           assert (Hrep1 : repaired (cf s1) = true) by (unfold s1; rewrite snapshot_cf; exact Hrep).
           destruct (sim_flush s1 r0 HR1 Hrep1) as [HRF HCl]. set (sF := commit_cache s1) in *.
           assert (HcF : cache sF <> None) by (unfold sF, commit_cache; sdb_simp; discriminate).
           assert (HIF : Inv mx sF (r_flush r0)).
           { split; [exact HRF|]. split; [apply WFJ_commit_cache, WFJ_snapshot; exact HW|].
             split; [exact Hc1|]. change (cf sF) with (cf s1). unfold s1. rewrite snapshot_cf. split; [exact HM | exact HB]. }
           pose proof (Hpbody body sF (r_flush r0) ltac:(lia) HIF HcF Hwf) as HI2.
           set (s2 := run_body body sF) in *. set (r2 := rrun_body mx body (r_flush r0)) in *.
           destruct fails; [|exact HI2].
           destruct HI2 as (_&_&HC2&_).
           pose proof (Inv_reverted mx s (unwind k s2) r (r_calls r2) HI (Hrev s2 Hlen HLE) HW'
                         ltac:(rewrite unwind_calls; exact HC2)) as (A1&A2&A3&A4&A5).
           split; [eapply R_req; [exact A1|]; repeat split; auto|]. split; [exact A2|]. split; [exact A3|].
           split; [exact A4 | exact A5].
Qed.

Theorem sim_run mx p s r : Inv mx s r -> wf mx false p r = true -> Inv mx (run p s) (rrun mx p r).
Proof. intros HI Hwf. apply (sim_run_aux mx (psize p) p s r false); [lia | exact HI | discriminate | exact Hwf]. Qed.

(** ---- the initial state ---- *)
Lemma acct_eta (x : acct) : {| a_bal := a_bal x; a_nonce := a_nonce x; a_code := a_code x |} = x.
Proof. destruct x; reflexivity. Qed.

Lemma Inv_init mx bl t : Inv mx (init {| repaired := true; maxc := mx; blocked := bl |} t) (r_init bl t).
Proof.
  split; [|split; [apply WFJ_init; reflexivity | split; [reflexivity | split; reflexivity]]].
  split; [apply auxeq_refl|]. intros a.
  assert (Hl : lookup (init {| repaired := true; maxc := mx; blocked := bl |} t) a =
               match accs t a with Some x => Some (load_obj x) | None => None end) by reflexivity.
  constructor; simpl.
  - intros c H; discriminate.
  - intros H; contradiction.
  - rewrite Hl. destruct (accs t a); [repeat split|exact I].
  - intros k. rewrite Hl. destruct (accs t a); reflexivity.
  - reflexivity.
  - intros o Ho _. rewrite Hl in Ho. destruct (accs t a) as [x|] eqn:Hx; [|discriminate]. inversion Ho; subst.
    unfold obj_written, cur_store. simpl. rewrite Hx. split; [|reflexivity].
    unfold acc_of_obj. simpl. rewrite to_native_to_wei. rewrite acct_eta. reflexivity.
  - intros o Ho. rewrite Hl in Ho. destruct (accs t a) as [x|]; [|discriminate]. inversion Ho; subst.
    split; [|split]; simpl; try discriminate; [reflexivity | intros k H; contradiction].
  - intros _ _. split; [reflexivity|]. intros o Ho. rewrite Hl in Ho.
    destruct (accs t a) as [x|]; [|discriminate]. inversion Ho; subst. intros k v H. discriminate.
  - reflexivity.
Qed.

(** ---- (P5) the final commit writes the reference's final state ---- *)
Definition store_eq (t t' : store) : Prop :=
  (forall a, accs t a = accs t' a) /\ (forall a k, stor t a k = stor t' a k).

Lemma commit_final s r : R s r -> repaired (cf s) = true -> store_eq (commit s) (r_final r).
Proof.
  intros HR Hrep. unfold commit. rewrite Hrep.
  set (skip := match cache s with None => true | Some _ => false end).
  assert (Hskip : skip = true -> cur_store s = txs s) by (unfold skip, cur_store; destruct (cache s); [discriminate|reflexivity]).
  assert (Hper : forall a, accs (flush_store skip s (cur_store s)) a = accs (r_final r) a /\
                           forall k, stor (flush_store skip s (cur_store s)) a k = stor (r_final r) a k).
  { intros a. unfold flush_store, r_final. simpl.
    pose proof (R_acc s r HR a) as Ha.
    destruct (dirt s a) as [c|] eqn:Hd.
    - assert (Hn : lookup s a <> None) by (apply (R_dl s r HR a); congruence).
      destruct (lookup s a) as [o|] eqn:Hl; [|contradiction].
      destruct (r_accs r a) as [x|] eqn:Hx; [|contradiction]. destruct Ha as (A1&A2&A3&A4).
      rewrite <- A4. destruct (suicided o) eqn:Hs; [split; reflexivity|].
      split; [rewrite A1, A2, A3; reflexivity|].
      intros k. rewrite (R_sto s r HR a k), Hl. destruct (R_good s r HR a o Hl) as (G1&G2&G3). unfold st.
      destruct (dirty o k) as [v|] eqn:Hk.
      + destruct (skip && (v =? ooz o k)) eqn:Hsk; [|reflexivity].
        apply andb_true_iff in Hsk as [Hs1 Hs2]. apply Z.eqb_eq in Hs2. rewrite (Hskip Hs1).
        unfold ooz in Hs2. destruct (origin o k) as [w|] eqn:Ho.
        * rewrite <- (G2 k w Ho). congruence.
        * exfalso. apply (G3 k); congruence.
      + symmetry. apply G1; assumption.
    - destruct (lookup s a) as [o|] eqn:Hl.
      + destruct (r_accs r a) as [x|] eqn:Hx; [|contradiction]. destruct Ha as (A1&A2&A3&A4).
        pose proof (R_written s r HR a o Hl (or_introl Hd)) as Hw. unfold obj_written in Hw.
        rewrite <- A4. destruct (suicided o) eqn:Hs.
        * destruct Hw as [W1 W2]. split; [exact W1 | exact W2].
        * destruct Hw as [W1 W2]. split; [rewrite W1; unfold acc_of_obj; rewrite A1, A2, A3; reflexivity|].
          intros k. rewrite (R_sto s r HR a k), Hl. symmetry. apply W2.
      + destruct (r_accs r a) as [x|] eqn:Hx; [contradiction|].
        split; [apply (lookup_none_accs s a Hl)|]. intros k. rewrite (R_sto s r HR a k), Hl. reflexivity. }
  split; [intros a; apply Hper | intros a k; apply Hper].
Qed.

Lemma store_eq_sym t t' : store_eq t t' -> store_eq t' t.
Proof. intros [A B]. split; intros; symmetry; auto. Qed.
Lemma store_eq_trans t1 t2 t3 : store_eq t1 t2 -> store_eq t2 t3 -> store_eq t1 t3.
Proof. intros [A B] [A' B']. split; intros; [rewrite A; apply A' | rewrite B; apply B']. Qed.


(** ======================= the theorems ======================= *)

(** Frame atomicity: for every well-formed script, the state committed by the two-layer model
    is the final state of the copy-on-frame reference; so are the journaled tx data; the final
    Commit fails exactly when the reference still has to credit a blocked account. *)
Theorem frame_atomicity mx bl t0 body :
  wf_body mx body (r_init bl t0) = true ->
  let s := run (PFrame body false) (init {| repaired := true; maxc := mx; blocked := bl |} t0) in
  let r := rrun mx (PFrame body false) (r_init bl t0) in
  store_eq (commit s) (r_final r) /\ auxeq (aux s) (r_aux r) /\
  (commit_fails s = r_pending r).
Proof.
  intros Hwf s r.
  pose proof (sim_run mx (PFrame body false) _ _ (Inv_init mx bl t0) Hwf) as (HR & (_&_&Hrep) & _ & _ & HB).
  fold s r in HR, Hrep, HB. split; [apply commit_final; assumption|]. split; [apply (R_aux s r HR)|].
  pose proof (pending_iff s r HR HB) as H. unfold commit_fails.
  destruct (flush_fail s), (r_pending r); try reflexivity.
  - destruct H as [_ H]. discriminate (H eq_refl).
  - destruct H as [H _]. symmetry. apply H. reflexivity.
Qed.

(** every program point of every well-formed script, at any depth.  [inb = true]: the point is directly
    inside a precompile body (entered after a successful OnRunStart); entering a frame does not change
    the state, its elements are steps with [inb = false] *)
Inductive reach (mx : Z) (bl : list addr) (t0 : store) : bool -> sdb -> rstate -> Prop :=
| reach_init : reach mx bl t0 false (init {| repaired := true; maxc := mx; blocked := bl |} t0) (r_init bl t0)
| reach_step inb p s r : reach mx bl t0 inb s r -> wf mx inb p r = true -> reach mx bl t0 inb (run p s) (rrun mx p r)
| reach_frame inb s r : reach mx bl t0 inb s r -> reach mx bl t0 false s r
| reach_enter inb s r : reach mx bl t0 inb s r ->
    (mx <? r_calls r + 1) = false -> r_pending (r_with_calls r (r_calls r + 1)) = false ->
    reach mx bl t0 true (commit_cache (precompile_snapshot s)) (r_flush (r_with_calls r (r_calls r + 1))).

Lemma reach_Inv' mx bl t0 inb s r : reach mx bl t0 inb s r -> Inv mx s r /\ (inb = true -> cache s <> None).
Proof.
  induction 1 as [|inb p s r H [IH1 IH2] Hwf | inb s r H [IH1 IH2] | inb s r H [IH1 IH2] Hlim Hp].
  - split; [apply Inv_init | discriminate].
  - split; [apply (sim_run_aux mx (psize p) p s r inb); auto|].
    intros E. apply run_cache. apply IH2; exact E.
  - split; [exact IH1 | discriminate].
  - pose proof IH1 as (HR&HW&HC&HM&HB). pose proof HW as (_&_&Hrep).
    set (r0 := r_with_calls r (r_calls r + 1)). set (s1 := precompile_snapshot s).
    assert (HR1 : R s1 r0) by (apply R_calls, sim_snapshot; exact HR).
    assert (Hrep1 : repaired (cf s1) = true) by (unfold s1; rewrite snapshot_cf; exact Hrep).
    destruct (sim_flush s1 r0 HR1 Hrep1) as [HRF _].
    split; [|intros _; unfold commit_cache; sdb_simp; discriminate].
    split; [exact HRF|]. split; [apply WFJ_commit_cache, WFJ_snapshot; exact HW|].
    split; [change (calls (commit_cache s1)) with (calls s1); unfold s1; rewrite snapshot_calls, HC; reflexivity|].
    change (cf (commit_cache s1)) with (cf s1). unfold s1. rewrite snapshot_cf. split; [exact HM | exact HB].
Qed.
Lemma reach_Inv mx bl t0 inb s r : reach mx bl t0 inb s r -> Inv mx s r.
Proof. intros H. apply (reach_Inv' _ _ _ _ _ _ H). Qed.

Lemma wf_any_nosend mx inb p r : wf mx inb p r = true -> (exists f t a, p = OBankSend f t a) \/ nosend p = true.
Proof.
  intros H. destruct p; try (right; reflexivity).
  - left; eauto.
  - right. apply (wf_nosend mx (PFrame body reverted) r). exact H.
Qed.

Lemma reach_txs mx bl t0 inb s r : reach mx bl t0 inb s r -> txs s = t0.
Proof.
  induction 1 as [|inb p s r H IH Hwf | | inb s r H IH]; [reflexivity | | assumption |].
  - destruct (reach_Inv _ _ _ _ _ _ H) as (_&HW&_).
    destruct (wf_any_nosend mx inb p r Hwf) as [(f&t&a&->)|Hns].
    + cbn [run]. unfold bank_send. destruct (cache s); [|exact IH]. destruct (_ || _); [exact IH|].
      rewrite !set_balance_txs. exact IH.
    + rewrite (op_ok_txs s (run p s) (run_ok p s Hns) HW). exact IH.
  - change (txs (commit_cache (precompile_snapshot s))) with (txs (precompile_snapshot s)). rewrite snapshot_txs. exact IH.
Qed.

(** Reads see the reference: at every program point GetState returns the reference's slot value and
    GetCommittedState the value of the slot when the transaction started. *)
Theorem reads_see_reference_reach mx bl t0 inb s r a k :
  reach mx bl t0 inb s r ->
  read_vals s a k = match r_accs r a with Some _ => (r_stor r a k, stor t0 a k) | None => (0, 0) end.
Proof.
  intros H. destruct (reach_Inv _ _ _ _ _ _ H) as (HR&_). rewrite (reads_see_reference s r a k HR).
  rewrite (reach_txs _ _ _ _ _ _ H). reflexivity.
Qed.

(** Balance views.  (1) At every program point the reference knows what the bank module holds for
    every account.  (2) Right after OnRunStart that is, for every account, its EVM balance in unibi
    (0 for self-destructed ones); (3) a bank send re-establishes this for both parties; EVM writes made
    by the body in between do not touch the bank. *)
Theorem bank_view_tracked mx bl t0 inb s r a :
  reach mx bl t0 inb s r -> bank_bal (cur_store s) a = r_base r a.
Proof. intros H. destruct (reach_Inv _ _ _ _ _ _ H) as (HR&_). apply (R_base s r HR a). Qed.

Theorem views_agree_after_on_run_start mx bl t0 inb s r a o :
  reach mx bl t0 inb s r ->
  (mx <? r_calls r + 1) = false -> r_pending (r_with_calls r (r_calls r + 1)) = false ->
  let s' := commit_cache (precompile_snapshot s) in
  lookup s' a = Some o -> suicided o = false -> bank_bal (cur_store s') a = to_native (bal o).
Proof.
  intros H Hlim Hp s' Hl Hs.
  pose proof (reach_enter _ _ _ _ _ _ H Hlim Hp) as H'. destruct (reach_Inv _ _ _ _ _ _ H') as (HR&_).
  apply (views_of_clean s' _ HR); [|exact Hl | exact Hs].
  intros x. unfold s', commit_cache, flush_dirt. sdb_simp. destruct (dirt (precompile_snapshot s) x); [right|left]; reflexivity.
Qed.

Theorem views_agree_after_send s c f t amt x :
  cache s = Some c -> (amt <=? 0) || (bank_bal c f <? amt) = false -> x = f \/ x = t ->
  let s' := bank_send s f t amt in
  exists o, lookup s' x = Some o /\ bank_bal (cur_store s') x = to_native (bal o).
Proof.
  intros Hc Hg Hx s'. unfold s'. rewrite (bank_send_sync s c f t amt Hc Hg). unfold sync.
  rewrite !set_balance_cur. destruct (Z.eq_dec x t) as [->|Hne].
  - eexists. split; [apply set_balance_lookup_same|]. simpl. rewrite ?set_balance_cur. symmetry. apply to_native_to_wei.
  - destruct Hx as [-> | ->]; [|contradiction].
    eexists. split; [rewrite set_balance_lookup_other by assumption; apply set_balance_lookup_same|].
    simpl. symmetry. apply to_native_to_wei.
Qed.

(** what an OTouch reads when the views agree *)
Lemma touch_reads_views s a :
  views s -> (forall o, lookup s a = Some o -> suicided o = false) ->
  match out (touch s a) with
  | (a', w, b) :: _ => a' = a /\ b = to_native w
  | [] => False
  end.
Proof.
  intros HV Hs. unfold touch. sdb_simp. rewrite cached_cur. split; [reflexivity|].
  destruct (lookup s a) as [o|] eqn:Hl.
  - apply (HV a o Hl). apply Hs; reflexivity.
  - unfold bank_bal. rewrite (lookup_none_accs s a Hl). reflexivity.
Qed.

(** Refused calls.  A precompile call made when the counter has reached the limit, or whose
    pre-run flush fails (a blocked module account would have to be credited), fails and leaves
    (a refinement of) the state it started from — in particular the part of the flush that was
    already written is undone; what would be committed is unchanged.  Every call counts. *)
Theorem refused_call mx s r body fails :
  Inv mx s r -> (mx < calls s + 1 \/ r_pending (r_with_calls r (calls s + 1)) = true) ->
  let s' := run (PPrecompile body fails) s in
  le s s' /\ calls s' = calls s + 1 /\ store_eq (commit s') (commit s).
Proof.
  intros HI Href s'. pose proof HI as (HR&HW&HC&HM&HB). pose proof HW as (_&_&Hrep).
  assert (Hwf : wf mx false (PPrecompile body fails) r = true).
  { rewrite wf_precompile. rewrite <- HC. destruct (mx <? calls s + 1) eqn:E; [reflexivity|].
    destruct Href as [H|H]; [apply Z.ltb_ge in E; lia | rewrite H; reflexivity]. }
  pose proof (sim_run mx (PPrecompile body fails) s r HI Hwf) as (HR'&(_&_&Hrep')&HC'&_).
  assert (Hr0 : rrun mx (PPrecompile body fails) r = r_with_calls r (calls s + 1)).
  { rewrite rrun_precompile. cbv zeta. simpl r_calls. rewrite <- HC.
    destruct (mx <? calls s + 1) eqn:E; [reflexivity|].
    destruct Href as [H|H]; [apply Z.ltb_ge in E; lia | rewrite H; reflexivity]. }
  rewrite Hr0 in HR', HC'. simpl in HC'. fold s' in HR', HC', Hrep'.
  assert (Hlen : length (journal s') = length (journal s)).
  { unfold s'. rewrite run_precompile. unfold pc_shell. rewrite HM, snapshot_calls.
    set (n := length (journal s)). set (s1 := precompile_snapshot s).
    assert (J1 : journal s1 = snap_entry s :: journal s) by apply snapshot_journal.
    destruct (mx <? calls s + 1) eqn:E.
    - apply unwind_len. rewrite J1. simpl. unfold n. lia.
    - destruct Href as [H|H]; [apply Z.ltb_ge in E; lia|].
      assert (HR1 : R s1 (r_with_calls r (calls s + 1))) by (apply R_calls, sim_snapshot; exact HR).
      assert (HB1 : blocked (cf s1) = r_bl (r_with_calls r (calls s + 1))) by (unfold s1; rewrite snapshot_cf; exact HB).
      pose proof (pending_iff s1 _ HR1 HB1) as [Hp _].
      destruct (flush_fail s1) as [af|]; [|rewrite (Hp eq_refl) in H; discriminate].
      apply unwind_len. change (journal (commit_cache_partial af s1)) with (journal s1). rewrite J1. simpl. unfold n. lia. }
  split; [|split; [exact HC'|]].
  - pose proof (run_ok (PPrecompile body fails) s eq_refl HW) as (_ & HLE & _). fold s' in HLE.
    rewrite <- Hlen in HLE at 1. rewrite unwind_id in HLE. exact HLE.
  - eapply store_eq_trans; [apply (commit_final _ _ HR' Hrep')|].
    apply store_eq_sym. eapply store_eq_trans; [apply (commit_final s r HR Hrep)|].
    split; intros; reflexivity.
Qed.

Theorem call_limit mx s r body fails :
  Inv mx s r -> mx < calls s + 1 ->
  let s' := run (PPrecompile body fails) s in
  le s s' /\ calls s' = calls s + 1 /\ store_eq (commit s') (commit s).
Proof. intros HI H. apply (refused_call mx s r body fails HI). left; exact H. Qed.

(** the counter counts every precompile call that is reached; a refused call's body is not run *)
Theorem calls_monotone p s : calls s <= calls (run p s).
Proof.
  assert (H : forall n p s, (psize p <= n)%nat -> calls s <= calls (run p s)).
  { induction n as [|n IH]; intros q s0 Hn; [destruct q; simpl in Hn; lia|].
    pose proof (run_calls_simple q s0) as Hs.
    assert (Hb : forall l s1, (list_sum (map psize l) <= n)%nat -> calls s1 <= calls (run_body l s1)).
    { induction l as [|x t IHl]; intros s1 Hl; [simpl; lia|]. rewrite run_body_cons. simpl in Hl.
      specialize (IH x s1 ltac:(lia)). specialize (IHl (run x s1) ltac:(lia)). lia. }
    destruct q; try (rewrite Hs; lia).
    - cbn [psize] in Hn. rewrite run_frame. destruct reverted; rewrite ?unwind_calls; apply Hb; lia.
    - cbn [psize] in Hn. rewrite run_precompile. unfold pc_shell.
      destruct (_ <? _); [rewrite unwind_calls, snapshot_calls; lia|].
      destruct (flush_fail _); [rewrite unwind_calls; change (calls (commit_cache_partial a (precompile_snapshot s0))) with (calls (precompile_snapshot s0)); rewrite snapshot_calls; lia|].
      specialize (Hb body (commit_cache (precompile_snapshot s0)) ltac:(lia)).
      change (calls (commit_cache (precompile_snapshot s0))) with (calls (precompile_snapshot s0)) in Hb.
      rewrite snapshot_calls in Hb. destruct fails; rewrite ?unwind_calls; lia. }
  apply (H (psize p)). lia.
Qed.
Theorem every_call_counts body fails s : calls s + 1 <= calls (run (PPrecompile body fails) s).
Proof.
  rewrite run_precompile. unfold pc_shell.
  destruct (_ <? _); [rewrite unwind_calls, snapshot_calls; lia|].
  destruct (flush_fail _); [rewrite unwind_calls; change (calls (commit_cache_partial a (precompile_snapshot s))) with (calls (precompile_snapshot s)); rewrite snapshot_calls; lia|].
  assert (Hb : forall l s1, calls s1 <= calls (run_body l s1)).
  { induction l as [|x t IHl]; intros s1; [simpl; lia|]. rewrite run_body_cons.
    pose proof (calls_monotone x s1). specialize (IHl (run x s1)). lia. }
  specialize (Hb body (commit_cache (precompile_snapshot s))).
  change (calls (commit_cache (precompile_snapshot s))) with (calls (precompile_snapshot s)) in Hb.
  rewrite snapshot_calls in Hb. destruct fails; rewrite ?unwind_calls; lia.
Qed.

(** A reverted frame — whatever it contains: EVM writes, nested frames, precompile calls whose bodies
    move bank coins AND write EVM state (FunToken's ERC20 mint / burn / transfer) — is a no-op for what
    gets committed, and the state after it simulates the same reference state (up to the call
    counter), so every continuation commits the same as if the frame had not been there (as long as the
    call limit is not reached).  This is what the driver that calls the REAL FunToken methods checks:
    the script with its reverted frames erased must commit the same state. *)
Theorem reverted_frame_noop mx s r body :
  Inv mx s r -> wf mx false (PFrame body true) r = true ->
  let s' := run (PFrame body true) s in
  le s s' /\ store_eq (commit s') (commit s) /\ Inv mx s' (r_with_calls r (calls s')).
Proof.
  intros HI Hwf s'. pose proof HI as (HR&HW&_). pose proof HW as (_&_&Hrep).
  pose proof (sim_run mx (PFrame body true) s r HI Hwf) as HI'.
  rewrite rrun_frame in HI'. fold s' in HI'. pose proof HI' as (HR'&(_&_&Hrep')&HC'&_). simpl in HC'.
  assert (Hns : forallb nosend body = true) by (apply (wf_nosend mx (PFrame body true) r Hwf)).
  destruct (reverted_frame_invisible body s Hns HW) as [HL _]. fold s' in HL.
  split; [exact HL|]. split.
  - eapply store_eq_trans; [apply (commit_final _ _ HR' Hrep')|].
    apply store_eq_sym. eapply store_eq_trans; [apply (commit_final s r HR Hrep)|]. split; intros; reflexivity.
  - rewrite HC'. exact HI'.
Qed.
