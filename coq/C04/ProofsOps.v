(** C04 proofs, part 3 (P1): every EVM-side operation of the model is [op_ok]; hence so is every
    script without precompile calls; a whole precompile call (snapshot + flush + bank sends with
    Sync, failing or not) is [op_ok]; hence so is every script, and a reverted frame leaves a
    refinement of the state it started from. *)
From Coq Require Import ZArith List Bool Lia.
Import ListNotations.
Local Open Scope Z_scope.
Require Import Nib.C04.Model Nib.C04.ProofsBase Nib.C04.ProofsUndo.

Lemma le_intro s s' :
  journal s = journal s' -> txs s = txs s' -> cf s = cf s' -> auxeq (aux s) (aux s') ->
  cur_store s = cur_store s' -> (forall a, dle (dirt s a) (dirt s' a)) ->
  (forall a, lookrel s s' a /\ (objs s a <> None -> objs s' a <> None)) -> le s s'.
Proof. intros. repeat split; auto; try apply H2; apply H5. Qed.

Lemma WFJ_ext s s' :
  WFJ s -> journal s' = journal s -> cf s' = cf s ->
  (forall x, objs s x <> None -> objs s' x <> None) -> WFJ s'.
Proof.
  intros (W&O&R) J C D. split; [|split; [rewrite J; exact O | rewrite C; exact R]].
  unfold WF. rewrite J. intros sv sd sc Hin a Ha. apply D. eapply W; eauto.
Qed.

Lemma WFJ_cached s a : WFJ s -> WFJ (cached s a).
Proof.
  intros H. eapply WFJ_ext; [exact H | apply cached_journal | apply cached_cf |].
  intros x. apply objs_cached_mono.
Qed.

Definition plain (e : entry) : Prop :=
  match e with ECreate _ | EPrecompile _ _ _ => False | _ => True end.

Lemma WFJ_push_plain s e : plain e -> WFJ s -> WFJ (push s e).
Proof.
  intros Hp (W&O&R). split; [|split].
  - unfold WF. rewrite push_journal, push_objs. intros sv sd sc [Heq|Hin] a Ha.
    + subst e. contradiction.
    + eapply W; eauto.
  - rewrite push_journal. destruct e; simpl in *; try exact O; contradiction.
  - rewrite push_cf. exact R.
Qed.

Lemma WFJ_set_obj s a o : WFJ s -> WFJ (set_obj s a o).
Proof.
  intros H. eapply WFJ_ext; [exact H | reflexivity | reflexivity |].
  intros x Hx. unfold set_obj; sdb_simp. unfold upd. destruct (Z.eqb x a); [discriminate|exact Hx].
Qed.
Lemma WFJ_with_aux s x : WFJ s -> WFJ (with_aux s x).
Proof. intros H. eapply WFJ_ext; [exact H | reflexivity | reflexivity | auto]. Qed.
Lemma WFJ_with_out s x : WFJ s -> WFJ (with_out s x).
Proof. intros H. eapply WFJ_ext; [exact H | reflexivity | reflexivity | auto]. Qed.

Lemma WFJ_push_create s a : objs s a = None -> WFJ s -> WFJ (push s (ECreate a)).
Proof.
  intros Hn (W&O&R). split; [|split].
  - unfold WF. rewrite push_journal, push_objs. intros sv sd sc [Heq|Hin] x Hx; [discriminate|].
    eapply W; eauto.
  - rewrite push_journal. simpl. split; [|exact O].
    intros sv sd sc Hin. destruct (sc a) eqn:Hs; [|reflexivity].
    exfalso. eapply W; eauto.
  - rewrite push_cf. exact R.
Qed.

Lemma unwind_one s' e j : journal s' = e :: j -> unwind (length j) s' = pop_undo s'.
Proof. intros H. rewrite (unwind_prefix [e] j (length j) s'); [reflexivity | exact H | reflexivity]. Qed.

Lemma dle_dec_inc d a x : dle (d x) (ddec (dinc d a) a x).
Proof.
  unfold ddec, dinc. rewrite upd_same. unfold upd. destruct (Z.eqb_spec x a) as [->|Hne]; [|apply dle_refl].
  destruct (d a) as [c|].
  - replace (c + 1 - 1) with c by lia. destruct (Z.eqb_spec c 0) as [->|Hc]; [right; auto | left; reflexivity].
  - simpl. left; reflexivity.
Qed.

Lemma lookup_none_objs s a : lookup s a = None -> objs s a = None.
Proof. unfold lookup. destruct (objs s a); [discriminate|reflexivity]. Qed.
Lemma lookup_none_accs s a : lookup s a = None -> accs (cur_store s) a = None.
Proof. unfold lookup. destruct (objs s a); [discriminate|]. destruct (accs (cur_store s) a); [discriminate|reflexivity]. Qed.

Lemma le_cached s a : le s (cached s a).
Proof.
  apply le_intro.
  - rewrite cached_journal; reflexivity.
  - rewrite cached_txs; reflexivity.
  - rewrite cached_cf; reflexivity.
  - rewrite cached_aux; apply auxeq_refl.
  - rewrite cached_cur; reflexivity.
  - intros x. rewrite cached_dirt. apply dle_refl.
  - intros x. split.
    + unfold lookrel. rewrite lookup_cached. destruct (lookup s x); [apply ole_refl|exact I].
    + apply objs_cached_mono.
Qed.

Lemma cached_ok s a : op_ok s (cached s a).
Proof. apply op_ok_le; [apply le_cached | apply WFJ_cached]. Qed.

(** ---- getOrNewStateObject ---- *)
Lemma get_or_new_ok s a : op_ok s (get_or_new s a).
Proof.
  unfold get_or_new. destruct (lookup s a) eqn:Hl; [apply cached_ok|].
  pose proof (lookup_none_objs s a Hl) as Ho. pose proof (lookup_none_accs s a Hl) as Hc.
  intros HW. set (s' := set_obj (push s (ECreate a)) a (new_obj 0 0 0)).
  assert (Hj : journal s' = ECreate a :: journal s) by (subst s'; unfold set_obj; sdb_simp; apply push_journal).
  split; [rewrite Hj; simpl; lia|]. split.
  - rewrite (unwind_one s' _ _ Hj). rewrite (pop_undo_cons s' _ _ Hj). cbv zeta. simpl dirtied. cbv iota.
    subst s'. unfold set_obj, del_obj. simpl undo. unfold del_obj. sdb_simp.
    apply le_intro; sdb_simp.
    + reflexivity.
    + rewrite push_txs; reflexivity.
    + rewrite push_cf; reflexivity.
    + rewrite push_aux; apply auxeq_refl.
    + unfold cur_store. sdb_simp. rewrite push_cache, push_txs. reflexivity.
    + intros x. rewrite push_dirt. simpl. apply dle_dec_inc.
    + intros x. split.
      * unfold lookrel, lookup, cur_store. sdb_simp. rewrite ?push_objs, ?push_cache, ?push_txs.
        unfold upd. destruct (Z.eqb_spec x a) as [->|Hne].
        -- rewrite Ho. fold (cur_store s). rewrite Hc. exact I.
        -- fold (cur_store s). destruct (objs s x); [apply ole_refl|]. destruct (accs (cur_store s) x); [apply ole_refl|exact I].
      * rewrite ?push_objs. unfold upd. destruct (Z.eqb_spec x a) as [->|Hne]; [rewrite Ho; intros H; contradiction|auto].
  - subst s'. apply WFJ_set_obj, WFJ_push_create; assumption.
Qed.

Lemma get_or_new_objs s a : objs (get_or_new s a) a = Some (the_obj s a).
Proof.
  unfold get_or_new, the_obj. destruct (lookup s a) eqn:Hl.
  - rewrite objs_cached. exact Hl.
  - unfold set_obj; sdb_simp. apply upd_same.
Qed.
Lemma get_or_new_txs s a : txs (get_or_new s a) = txs s.
Proof. unfold get_or_new. destruct (lookup s a); [apply cached_txs|]. unfold set_obj; sdb_simp. apply push_txs. Qed.
Lemma get_or_new_cur s a : cur_store (get_or_new s a) = cur_store s.
Proof.
  unfold get_or_new. destruct (lookup s a); [apply cached_cur|].
  unfold cur_store, set_obj; sdb_simp. rewrite push_cache, push_txs. reflexivity.
Qed.

Lemma lookup_of_objs s a o : objs s a = Some o -> lookup s a = Some o.
Proof. apply lookup_objs. Qed.

Lemma get_or_new_live s a o : objs s a = Some o -> get_or_new s a = s /\ the_obj s a = o.
Proof.
  intros H. unfold get_or_new, the_obj, cached. rewrite (lookup_objs s a o H), H. auto.
Qed.

(** ---- one journaled field update of a cached object ---- *)
Lemma mut1_ok s a o o' e f :
  objs s a = Some o -> dirtied e = Some a -> plain e ->
  (forall s0, undo e s0 = mut a f s0) ->
  ole (txs s) a o (f o') ->
  op_ok s (set_obj (push s e) a o').
Proof.
  intros Ho Hd Hp Hu Hole HW. set (s' := set_obj (push s e) a o').
  assert (Hj : journal s' = e :: journal s) by (subst s'; unfold set_obj; sdb_simp; apply push_journal).
  split; [rewrite Hj; simpl; lia|]. split.
  - rewrite (unwind_one s' _ _ Hj). rewrite (pop_undo_cons s' _ _ Hj). cbv zeta. rewrite Hd. rewrite Hu.
    set (s1 := with_journal s' (journal s)).
    assert (Hl1 : lookup s1 a = Some o') by (subst s1 s'; rewrite lookup_with_journal; apply lookup_set_same).
    apply le_intro; sdb_simp.
    + rewrite mut_journal. reflexivity.
    + rewrite mut_txs. subst s1 s'. unfold set_obj; sdb_simp. rewrite push_txs. reflexivity.
    + rewrite mut_cf. subst s1 s'. unfold set_obj; sdb_simp. rewrite push_cf. reflexivity.
    + rewrite mut_aux. subst s1 s'. unfold set_obj; sdb_simp. rewrite push_aux. apply auxeq_refl.
    + unfold cur_store at 2. sdb_simp. rewrite mut_cache, mut_txs. subst s1 s'. unfold set_obj; sdb_simp.
      rewrite push_cache, push_txs. reflexivity.
    + intros x. rewrite mut_dirt. subst s1 s'. unfold set_obj; sdb_simp. rewrite push_dirt, Hd. apply dle_dec_inc.
    + intros x. split.
      * unfold lookrel. rewrite lookup_with_dirt.
        destruct (Z.eq_dec x a) as [->|Hne].
        -- rewrite mut_lookup_same, Hl1. simpl. rewrite (lookup_objs s a o Ho). exact Hole.
        -- rewrite mut_lookup_other by assumption. subst s1 s'. rewrite lookup_with_journal, lookup_set_other, lookup_push by assumption.
           destruct (lookup s x); [apply ole_refl|exact I].
      * intros Hx. apply mut_objs_mono. subst s1 s'. unfold set_obj; sdb_simp. rewrite push_objs.
        unfold upd. destruct (Z.eqb x a); [discriminate|exact Hx].
  - subst s'. apply WFJ_set_obj, WFJ_push_plain; assumption.
Qed.

Lemma w_bal_w_bal o b b' : w_bal (w_bal o b) b' = w_bal o b'. Proof. reflexivity. Qed.
Lemma w_nonce_w_nonce o b b' : w_nonce (w_nonce o b) b' = w_nonce o b'. Proof. reflexivity. Qed.
Lemma w_code_w_code o b b' : w_code (w_code o b) b' = w_code o b'. Proof. reflexivity. Qed.

Lemma set_balance_ok s a b : op_ok s (set_balance s a b).
Proof.
  unfold set_balance. eapply op_ok_trans; [apply (get_or_new_ok s a)|].
  eapply (mut1_ok _ a (the_obj s a) _ _ (fun o => w_bal o (bal (the_obj s a)))).
  - apply get_or_new_objs.
  - reflexivity.
  - exact I.
  - reflexivity.
  - rewrite w_bal_w_bal, w_bal_id. apply ole_refl.
Qed.

Lemma set_nonce_ok s a n : op_ok s (set_nonce s a n).
Proof.
  unfold set_nonce. eapply op_ok_trans; [apply (get_or_new_ok s a)|].
  eapply (mut1_ok _ a (the_obj s a) _ _ (fun o => w_nonce o (nonce (the_obj s a)))).
  - apply get_or_new_objs.
  - reflexivity.
  - exact I.
  - reflexivity.
  - rewrite w_nonce_w_nonce, w_nonce_id. apply ole_refl.
Qed.

Lemma set_code_ok s a c : op_ok s (set_code s a c).
Proof.
  unfold set_code. eapply op_ok_trans; [apply (get_or_new_ok s a)|].
  eapply (mut1_ok _ a (the_obj s a) _ _ (fun o => w_code o (code (the_obj s a)))).
  - apply get_or_new_objs.
  - reflexivity.
  - exact I.
  - reflexivity.
  - rewrite w_code_w_code, w_code_id. apply ole_refl.
Qed.

Lemma add_balance_ok s a amt : op_ok s (add_balance s a amt).
Proof. unfold add_balance. destruct (Z.eqb amt 0); [apply get_or_new_ok | apply set_balance_ok]. Qed.

Lemma sub_balance_ok s a amt : op_ok s (sub_balance s a amt).
Proof. unfold sub_balance. destruct (_ <? _); [apply cached_ok | apply add_balance_ok]. Qed.

(** replacing a cached object by a refinement of it *)
Lemma le_set_obj s a o o' : objs s a = Some o -> ole (txs s) a o o' -> le s (set_obj s a o').
Proof.
  intros Ho Hole. apply le_intro; try reflexivity; try apply auxeq_refl.
  - intros x; apply dle_refl.
  - intros x. split.
    + unfold lookrel. destruct (Z.eq_dec x a) as [->|Hne].
      * rewrite lookup_set_same, (lookup_objs s a o Ho). exact Hole.
      * rewrite lookup_set_other by assumption. destruct (lookup s x); [apply ole_refl|exact I].
    + unfold set_obj; sdb_simp. unfold upd. destruct (Z.eqb x a); [discriminate|auto].
Qed.

Lemma ole_cache_origin t a o k : ole t a o (cache_origin t a o k).
Proof.
  unfold cache_origin. destruct (dirty o k) eqn:Hd; [apply ole_refl|].
  destruct (origin o k) eqn:Ho; [apply ole_refl|].
  repeat split; auto. simpl. unfold upd. destruct (Z.eqb_spec k0 k) as [->|Hne]; auto.
Qed.

Lemma cache_origin_defined t a o k : dirty o k = None -> origin (cache_origin t a o k) k <> None.
Proof.
  intros Hd. unfold cache_origin. rewrite Hd. destruct (origin o k) eqn:Ho; [congruence|].
  simpl. rewrite upd_same. discriminate.
Qed.

Lemma set_state_ok s a k v : op_ok s (set_state s a k v).
Proof.
  unfold set_state. eapply op_ok_trans; [apply (get_or_new_ok s a)|].
  set (o := the_obj s a). set (s1 := get_or_new s a).
  assert (Ho : objs s1 a = Some o) by apply get_or_new_objs.
  assert (Ht : txs s1 = txs s) by apply get_or_new_txs.
  pose proof (ole_cache_origin (txs s) a o k) as Hco.
  destruct (Z.eqb (st (txs s) a o k) v).
  - apply op_ok_le; [apply (le_set_obj s1 a o); [exact Ho | rewrite Ht; exact Hco] | apply WFJ_set_obj].
  - eapply (mut1_ok s1 a o _ _ (fun x => w_dirty x k (st (txs s) a o k))); [exact Ho | reflexivity | exact I | reflexivity |].
    rewrite Ht. destruct Hco as (C1&C2&C3&C4&C5).
    split; [exact C1|]. split; [exact C2|]. split; [exact C3|]. split; [exact C4|].
    intros k0. destruct (C5 k0) as [Co Cd]. split; [exact Co|]. simpl. unfold upd.
    destruct (Z.eqb_spec k0 k) as [->|Hne].
    + unfold st. destruct (dirty o k) eqn:Hd; [left; reflexivity|].
      right. split; [reflexivity|]. split; [reflexivity|]. apply cache_origin_defined; exact Hd.
    + exact Cd.
Qed.

Lemma read_state_ok s a k : op_ok s (read_state s a k).
Proof.
  unfold read_state. destruct (lookup s a) as [o|] eqn:Hl; [|apply op_ok_refl].
  eapply op_ok_trans; [apply (cached_ok s a)|].
  apply op_ok_le; [|apply WFJ_set_obj].
  apply (le_set_obj (cached s a) a o); [rewrite objs_cached; exact Hl|].
  rewrite cached_txs. apply ole_cache_origin.
Qed.

Lemma suicide_ok s a : op_ok s (suicide s a).
Proof.
  unfold suicide. destruct (lookup s a) as [o|] eqn:Hl; [|apply op_ok_refl].
  eapply op_ok_trans; [apply (cached_ok s a)|].
  eapply (mut1_ok _ a o _ _ (fun x => w_bal (w_sui x (suicided o)) (bal o))).
  - rewrite objs_cached; exact Hl.
  - reflexivity.
  - exact I.
  - reflexivity.
  - destruct o; apply ole_refl.
Qed.

Lemma cached_none s a : lookup s a = None -> cached s a = s.
Proof.
  intros Hl. unfold cached. rewrite (lookup_none_objs s a Hl), (lookup_none_accs s a Hl). reflexivity.
Qed.

(** CreateAccount on a cached object: resetObjectChange puts the previous object back *)
Lemma reset_ok s a p o1 :
  objs s a = Some p -> op_ok s (set_obj (push s (EReset a p)) a o1).
Proof.
  intros Ho HW. set (s' := set_obj (push s (EReset a p)) a o1).
  assert (Hj : journal s' = EReset a p :: journal s) by reflexivity.
  split; [rewrite Hj; simpl; lia|]. split.
  - rewrite (unwind_one s' _ _ Hj). rewrite (pop_undo_cons s' _ _ Hj). cbv zeta. simpl dirtied. cbv iota.
    simpl undo. subst s'. unfold set_obj, push. simpl dirtied. cbv iota. sdb_simp.
    apply le_intro; sdb_simp; try reflexivity; try apply auxeq_refl.
    + intros x; apply dle_refl.
    + intros x. split.
      * unfold lookrel, lookup, cur_store. sdb_simp. unfold upd. destruct (Z.eqb_spec x a) as [->|Hne].
        -- rewrite Ho. apply ole_refl.
        -- fold (cur_store s). destruct (objs s x); [apply ole_refl|]. destruct (accs (cur_store s) x); [apply ole_refl|exact I].
      * unfold upd. destruct (Z.eqb x a); [discriminate|auto].
  - subst s'. apply WFJ_set_obj, WFJ_push_plain; [exact I|exact HW].
Qed.

Lemma reset2_ok s a p o1 o2 :
  objs s a = Some p -> op_ok s (set_obj (set_obj (push s (EReset a p)) a o1) a o2).
Proof.
  intros Ho HW. set (s' := set_obj (set_obj (push s (EReset a p)) a o1) a o2).
  assert (Hj : journal s' = EReset a p :: journal s) by reflexivity.
  split; [rewrite Hj; simpl; lia|]. split.
  - rewrite (unwind_one s' _ _ Hj). rewrite (pop_undo_cons s' _ _ Hj). cbv zeta. simpl dirtied. cbv iota.
    simpl undo. subst s'. unfold set_obj, push. simpl dirtied. cbv iota. sdb_simp.
    apply le_intro; sdb_simp; try reflexivity; try apply auxeq_refl.
    + intros x; apply dle_refl.
    + intros x. split.
      * unfold lookrel, lookup, cur_store. sdb_simp. unfold upd. destruct (Z.eqb_spec x a) as [->|Hne].
        -- rewrite Ho. apply ole_refl.
        -- fold (cur_store s). destruct (objs s x); [apply ole_refl|]. destruct (accs (cur_store s) x); [apply ole_refl|exact I].
      * unfold upd. destruct (Z.eqb x a); [discriminate|auto].
  - subst s'. apply WFJ_set_obj, WFJ_set_obj, WFJ_push_plain; [exact I|exact HW].
Qed.

Lemma create_account_ok s a : op_ok s (create_account s a).
Proof.
  unfold create_account, create_object. destruct (lookup s a) as [p|] eqn:Hl.
  - eapply op_ok_trans; [apply (cached_ok s a)|].
    apply reset2_ok. rewrite objs_cached; exact Hl.
  - rewrite (cached_none s a Hl). pose proof (get_or_new_ok s a) as H. unfold get_or_new in H. rewrite Hl in H. exact H.
Qed.

Lemma evm_create_ok s a : op_ok s (evm_create s a).
Proof.
  unfold evm_create. destruct (lookup s a) as [o|].
  - destruct (_ || _); [apply cached_ok|].
    eapply op_ok_trans; [apply create_account_ok | apply set_nonce_ok].
  - eapply op_ok_trans; [apply create_account_ok | apply set_nonce_ok].
Qed.

Lemma selfdestruct_ok s a b : op_ok s (selfdestruct s a b).
Proof.
  unfold selfdestruct. destruct (lookup s a) as [o|]; [|apply op_ok_refl].
  eapply op_ok_trans; [apply cached_ok|]. eapply op_ok_trans; [apply add_balance_ok | apply suicide_ok].
Qed.

(** ---- journaled tx data ---- *)
Lemma aux1_ok s e x' (g : aux_t -> aux_t) :
  dirtied e = None -> plain e ->
  (forall s0, undo e s0 = with_aux s0 (g (aux s0))) ->
  auxeq (aux s) (g x') ->
  op_ok s (with_aux (push s e) x').
Proof.
  intros Hd Hp Hu Hx HW. set (s' := with_aux (push s e) x').
  assert (Hj : journal s' = e :: journal s) by (subst s'; sdb_simp; apply push_journal).
  split; [rewrite Hj; simpl; lia|]. split.
  - rewrite (unwind_one s' _ _ Hj). rewrite (pop_undo_cons s' _ _ Hj). cbv zeta. rewrite Hd, Hu.
    subst s'. sdb_simp.
    apply le_intro; sdb_simp; rewrite ?push_txs, ?push_cf; try reflexivity.
    + exact Hx.
    + unfold cur_store; sdb_simp. rewrite push_cache, push_txs. reflexivity.
    + intros x. rewrite push_dirt, Hd. apply dle_refl.
    + intros x. split.
      * unfold lookrel. rewrite lookup_with_aux, lookup_with_journal, lookup_with_aux, lookup_push.
        destruct (lookup s x); [apply ole_refl|exact I].
      * rewrite push_objs. auto.
  - subst s'. apply WFJ_with_aux, WFJ_push_plain; assumption.
Qed.

Lemma add_log_ok s : op_ok s (add_log s).
Proof.
  unfold add_log. apply (aux1_ok s ELog _ (fun x => w_logs x (logs x - 1))); try reflexivity; try exact I.
  repeat split; simpl; auto. lia.
Qed.

Lemma set_refund_ok s g : op_ok s (set_refund s g).
Proof.
  unfold set_refund. apply (aux1_ok s (ERefund (refund (aux s))) _ (fun x => w_refund x (refund (aux s)))); try reflexivity; try exact I.
  repeat split; simpl; auto.
Qed.

Lemma sub_refund_ok s g : op_ok s (sub_refund s g).
Proof. unfold sub_refund. destruct (_ <? _); [apply op_ok_refl | apply set_refund_ok]. Qed.

Lemma access_addr_ok s a : op_ok s (access_addr s a).
Proof.
  unfold access_addr. destruct (al (aux s) a) eqn:Ha; [apply op_ok_refl|].
  apply (aux1_ok s (EAccAddr a) _ (fun x => w_al x (upd (al x) a false))); try reflexivity; try exact I.
  repeat split; simpl; auto. intros x. unfold upd. destruct (Z.eqb_spec x a) as [->|]; auto.
Qed.

Lemma access_slot_ok s a k : op_ok s (access_slot s a k).
Proof.
  unfold access_slot. eapply op_ok_trans; [apply (access_addr_ok s a)|].
  set (s1 := access_addr s a). destruct (als (aux s1) a k) eqn:Ha; [apply op_ok_refl|].
  apply (aux1_ok s1 (EAccSlot a k) _
           (fun x => w_als x (fun a' k' => if Z.eqb a' a && Z.eqb k' k then false else als x a' k'))); try reflexivity; try exact I.
  repeat split; simpl; auto. intros x y.
  destruct (Z.eqb_spec x a) as [->|]; simpl; auto. destruct (Z.eqb_spec y k) as [->|]; simpl; auto.
Qed.

Lemma touch_ok s a : op_ok s (touch s a).
Proof.
  unfold touch. eapply op_ok_trans; [apply (cached_ok s a)|].
  apply op_ok_le; [|apply WFJ_with_out].
  apply le_intro; try reflexivity; try apply auxeq_refl.
  - intros x; apply dle_refl.
  - intros x. split; [|auto]. unfold lookrel. rewrite lookup_with_out. destruct (lookup _ x); [apply ole_refl|exact I].
Qed.

Lemma read_obs_ok s a k : op_ok s (read_obs s a k).
Proof.
  unfold read_obs. eapply op_ok_trans; [apply (read_state_ok s a k)|].
  apply op_ok_le; [|apply WFJ_with_out].
  apply le_intro; try reflexivity; try apply auxeq_refl.
  - intros x; apply dle_refl.
  - intros x. split; [|auto]. unfold lookrel. rewrite lookup_with_out. destruct (lookup _ x); [apply ole_refl|exact I].
Qed.

(** ======================= the precompile call ======================= *)

(** the PrecompileCalled entry whose cached-object set is [sc] is in the journal *)
Definition PIn (sc : addr -> bool) (j : list entry) : Prop := exists sv sd, In (EPrecompile sv sd sc) j.

(** unwinding entries that sit ABOVE that entry is monotone for the body-mode relation (stores may
    differ): objects in [sc] are cached on both sides, createObject entries above the snapshot concern
    addresses outside [sc], nested snapshots only evict objects that they did not see *)
Lemma rel_unwind_body sc es : forall s s' j,
  rel false sc s s' -> WFJ s -> journal s = es ++ j -> PIn sc j ->
  rel false sc (unwind_k (length es) s) (unwind_k (length es) s').
Proof.
  induction es as [|e es IH]; intros s s' j HR HW Hj HP; simpl; [exact HR|].
  simpl in Hj. pose proof HW as (Hwf & Hord & Hrep). destruct HP as (sv & sd & Hin).
  assert (H1 : rel false sc (pop_undo s) (pop_undo s')).
  { eapply rel_pop_undo; eauto. rewrite Hj in Hord.
    destruct e; simpl in *; auto.
    - right. destruct Hord as [Hc _]. apply (Hc sv sd sc). apply in_or_app. right; exact Hin.
    - intros a _ Hs. eapply Hwf; [rewrite Hj; left; reflexivity | exact Hs]. }
  eapply IH; [exact H1 | apply WFJ_pop_undo; exact HW | apply (pop_undo_journal s e (es ++ j) Hj) | exists sv, sd; exact Hin].
Qed.

Definition domsub (sc : addr -> bool) (s : sdb) : Prop := forall a, sc a = true -> objs s a <> None.

Lemma domsub_of_WF sc s : WFJ s -> PIn sc (journal s) -> domsub sc s.
Proof. intros (W&_) (sv&sd&Hin) a Ha. eapply W; eauto. Qed.

(** body-mode op_ok (inside a precompile body, above its PrecompileCalled entry): only prepends
    entries; unwinding them gives a body-mode refinement *)
Definition bop_ok (sc : addr -> bool) (s s' : sdb) : Prop :=
  WFJ s -> PIn sc (journal s) ->
  exists es, journal s' = es ++ journal s /\
             rel false sc s (unwind_k (length es) s') /\ WFJ s'.

Lemma bop_ok_refl sc s : bop_ok sc s s.
Proof. intros HW HP. exists []. split; [reflexivity|]. split; [apply rel_refl|assumption]. Qed.

Lemma PIn_app sc es j : PIn sc j -> PIn sc (es ++ j).
Proof. intros (sv&sd&H). exists sv, sd. apply in_or_app. right; exact H. Qed.

Lemma bop_ok_trans sc s s1 s2 : bop_ok sc s s1 -> bop_ok sc s1 s2 -> bop_ok sc s s2.
Proof.
  intros H1 H2 HW HP. destruct (H1 HW HP) as (es1 & J1 & R1 & W1).
  assert (HP1 : PIn sc (journal s1)) by (rewrite J1; apply PIn_app; exact HP).
  destruct (H2 W1 HP1) as (es2 & J2 & R2 & W2).
  exists (es2 ++ es1). split; [rewrite J2, J1, app_assoc; reflexivity|].
  split; [|exact W2].
  rewrite app_length, unwind_k_add.
  eapply rel_trans; [exact R1|].
  eapply rel_unwind_body; [exact R2 | exact W1 | exact J1 | exact HP].
Qed.

(** every full op_ok step is a body-mode step *)
Lemma op_ok_bop sc s s' : op_ok s s' -> bop_ok sc s s'.
Proof.
  intros H HW HP. destruct (op_ok_suffix s s' H HW) as [es J]. destruct (H HW) as (L & HL & HW').
  exists es. split; [exact J|]. split; [|exact HW'].
  apply rel_weaken. rewrite <- (unwind_prefix es (journal s) (length (journal s)) s' J eq_refl). exact HL.
Qed.

(** SetBalanceWei on an account that exists: exactly one EBalance entry *)
Lemma set_balance_journal s a b o :
  lookup s a = Some o -> journal (set_balance s a b) = EBalance a (bal o) :: journal s.
Proof.
  intros Hl. unfold set_balance, get_or_new, the_obj. rewrite Hl.
  unfold set_obj; sdb_simp. rewrite push_journal, cached_journal. reflexivity.
Qed.

Lemma WFJ_with_cache s c : WFJ s -> WFJ (with_cache s c).
Proof. intros H. eapply WFJ_ext; [exact H | reflexivity | reflexivity | auto]. Qed.

Lemma rel_body_with_cache sc s c : domsub sc s -> rel false sc s (with_cache s c).
Proof.
  intros HD. repeat split; try reflexivity; try apply auxeq_refl; try discriminate; auto.
  unfold lookrel, lookup. sdb_simp. pose proof (HD a H) as Hc.
  destruct (objs s a); [apply ole_refl|contradiction].
Qed.

Lemma op_ok_domsub sc s s' : op_ok s s' -> WFJ s -> domsub sc s ->
  (forall a, objs s a <> None -> objs s' a <> None) -> domsub sc s'.
Proof. intros _ _ HD Hm a Ha. apply Hm, HD, Ha. Qed.

Lemma set_balance_objs_mono s a b x : objs s x <> None -> objs (set_balance s a b) x <> None.
Proof.
  intros H. unfold set_balance, set_obj; sdb_simp. unfold upd. destruct (Z.eqb x a); [discriminate|].
  rewrite push_objs. unfold get_or_new. destruct (lookup s a).
  - apply objs_cached_mono; exact H.
  - unfold set_obj; sdb_simp. unfold upd. destruct (Z.eqb x a); [discriminate|]. rewrite push_objs. exact H.
Qed.

Lemma bank_send_bop sc s f t amt : bop_ok sc s (bank_send s f t amt).
Proof.
  unfold bank_send. destruct (cache s) as [c|] eqn:Hc; [|apply bop_ok_refl].
  destruct (_ || _) eqn:Hg; [apply bop_ok_refl|].
  intros HW HP. pose proof (domsub_of_WF sc s HW HP) as HD.
  set (c1 := bank_move c f t amt).
  set (sA := with_cache s (Some c1)).
  set (bf := to_wei (bank_bal c1 f)). set (bt := to_wei (bank_bal c1 t)).
  set (sB := set_balance sA f bf). set (sC := set_balance sB t bt).
  assert (HWA : WFJ sA) by (apply WFJ_with_cache; exact HW).
  (* both parties exist in the cache store after the move *)
  assert (Hf : exists o, lookup sA f = Some o).
  { unfold lookup. subst sA. sdb_simp. destruct (objs s f); [eauto|]. unfold cur_store; sdb_simp.
    subst c1. unfold bank_move. simpl. unfold upd at 1. destruct (Z.eqb f t); [eauto|]. rewrite upd_same. eauto. }
  destruct Hf as [of Hf].
  assert (Ht : exists o, lookup sB t = Some o).
  { subst sB. unfold set_balance. destruct (Z.eq_dec t f) as [->|Hne].
    - rewrite lookup_set_same. eauto.
    - rewrite lookup_set_other, lookup_push by assumption. unfold get_or_new. rewrite Hf, lookup_cached.
      unfold lookup. subst sA. sdb_simp. destruct (objs s t); [eauto|]. unfold cur_store; sdb_simp.
      subst c1. unfold bank_move. simpl. rewrite upd_same. eauto. }
  destruct Ht as [ot Ht].
  pose proof (set_balance_ok sA f bf) as OKB. fold sB in OKB.
  pose proof (set_balance_ok sB t bt) as OKC. fold sC in OKC.
  pose proof (op_ok_trans _ _ _ OKB OKC HWA) as (L & HL & HWC).
  assert (JB : journal sB = EBalance f (bal of) :: journal s) by (subst sB; rewrite (set_balance_journal sA f bf of Hf); reflexivity).
  assert (JC : journal sC = [EBalance t (bal ot); EBalance f (bal of)] ++ journal s).
  { subst sC. rewrite (set_balance_journal sB t bt ot Ht), JB. reflexivity. }
  exists [EBalance t (bal ot); EBalance f (bal of)].
  split; [exact JC|]. split; [|exact HWC].
  eapply rel_trans; [apply (rel_body_with_cache sc s (Some c1) HD)|]. fold sA.
  apply rel_weaken.
  replace (unwind_k (length [EBalance t (bal ot); EBalance f (bal of)]) sC) with (unwind (length (journal sA)) sC); [exact HL|].
  apply (unwind_prefix _ (journal s)); [exact JC | reflexivity].
Qed.

Lemma run_sends_bop sc sends : forall s, bop_ok sc s (run_sends sends s).
Proof.
  induction sends as [|x r IH]; intros s; [apply bop_ok_refl|].
  unfold run_sends. simpl. eapply bop_ok_trans; [apply bank_send_bop|]. apply IH.
Qed.

(** ---- snapshot + flush ---- *)
Definition snap_sc (s : sdb) : addr -> bool := fun a => match objs s a with Some _ => true | None => false end.
Definition with_cache0 (s : sdb) : sdb := match cache s with Some _ => s | None => with_cache s (Some (txs s)) end.
Definition snap_entry (s : sdb) : entry := EPrecompile (cur_store s) (dirt s) (snap_sc s).

Lemma with_cache0_cur s : cur_store (with_cache0 s) = cur_store s.
Proof. unfold with_cache0, cur_store. destruct (cache s) eqn:H; [rewrite H; reflexivity|reflexivity]. Qed.
Lemma with_cache0_objs s : objs (with_cache0 s) = objs s.
Proof. unfold with_cache0. destruct (cache s); reflexivity. Qed.
Lemma with_cache0_dirt s : dirt (with_cache0 s) = dirt s.
Proof. unfold with_cache0. destruct (cache s); reflexivity. Qed.
Lemma with_cache0_journal s : journal (with_cache0 s) = journal s.
Proof. unfold with_cache0. destruct (cache s); reflexivity. Qed.
Lemma with_cache0_txs s : txs (with_cache0 s) = txs s.
Proof. unfold with_cache0. destruct (cache s); reflexivity. Qed.
Lemma with_cache0_cf s : cf (with_cache0 s) = cf s.
Proof. unfold with_cache0. destruct (cache s); reflexivity. Qed.
Lemma with_cache0_aux s : aux (with_cache0 s) = aux s.
Proof. unfold with_cache0. destruct (cache s); reflexivity. Qed.
Lemma with_cache0_calls s : calls (with_cache0 s) = calls s.
Proof. unfold with_cache0. destruct (cache s); reflexivity. Qed.

Lemma precompile_snapshot_eq s :
  precompile_snapshot s = with_calls (push (with_cache0 s) (snap_entry s)) (calls s + 1).
Proof.
  unfold precompile_snapshot. fold (with_cache0 s). unfold snap_entry, snap_sc.
  rewrite with_cache0_cur, with_cache0_dirt, with_cache0_objs, with_cache0_calls. reflexivity.
Qed.

Lemma snapshot_journal s : journal (precompile_snapshot s) = snap_entry s :: journal s.
Proof. rewrite precompile_snapshot_eq. sdb_simp. rewrite push_journal, with_cache0_journal. reflexivity. Qed.
Lemma snapshot_objs s : objs (precompile_snapshot s) = objs s.
Proof. rewrite precompile_snapshot_eq. sdb_simp. rewrite push_objs, with_cache0_objs. reflexivity. Qed.
Lemma snapshot_dirt s : dirt (precompile_snapshot s) = dirt s.
Proof. rewrite precompile_snapshot_eq. sdb_simp. rewrite push_dirt. simpl. apply with_cache0_dirt. Qed.
Lemma snapshot_txs s : txs (precompile_snapshot s) = txs s.
Proof. rewrite precompile_snapshot_eq. sdb_simp. rewrite push_txs. apply with_cache0_txs. Qed.
Lemma snapshot_cf s : cf (precompile_snapshot s) = cf s.
Proof. rewrite precompile_snapshot_eq. sdb_simp. rewrite push_cf. apply with_cache0_cf. Qed.
Lemma snapshot_aux s : aux (precompile_snapshot s) = aux s.
Proof. rewrite precompile_snapshot_eq. sdb_simp. rewrite push_aux. apply with_cache0_aux. Qed.
Lemma snapshot_cur s : cur_store (precompile_snapshot s) = cur_store s.
Proof.
  rewrite precompile_snapshot_eq. unfold cur_store at 1. sdb_simp. rewrite push_cache, push_txs.
  apply with_cache0_cur.
Qed.
Lemma snapshot_calls s : calls (precompile_snapshot s) = calls s + 1.
Proof. rewrite precompile_snapshot_eq. reflexivity. Qed.
Lemma snapshot_lookup s a : lookup (precompile_snapshot s) a = lookup s a.
Proof. unfold lookup. rewrite snapshot_objs, snapshot_cur. reflexivity. Qed.

Lemma WFJ_snapshot s : WFJ s -> WFJ (precompile_snapshot s).
Proof.
  intros (W&O&R). split; [|split].
  - unfold WF. rewrite snapshot_journal, snapshot_objs. intros sv sd sc [Heq|Hin] a Ha.
    + inversion Heq; subst. unfold snap_sc in Ha. destruct (objs s a); [discriminate|discriminate].
    + eapply W; eauto.
  - rewrite snapshot_journal. simpl. split; [|exact O].
    intros sv sd sc' Hin a Ha. unfold snap_sc. pose proof (W sv sd sc' Hin a Ha) as Hc.
    destruct (objs s a); [reflexivity|contradiction].
  - rewrite snapshot_cf. exact R.
Qed.

Lemma flush_objs_keep s x o : repaired (cf s) = true -> objs s x = Some o -> flush_objs s x = Some o.
Proof.
  intros Hr Ho. unfold flush_objs. destruct (dirt s x); [|exact Ho].
  rewrite (lookup_objs s x o Ho), Hr. reflexivity.
Qed.

Lemma commit_cache_journal s : journal (commit_cache s) = journal s. Proof. reflexivity. Qed.
Lemma commit_cache_txs s : txs (commit_cache s) = txs s. Proof. reflexivity. Qed.
Lemma commit_cache_cf s : cf (commit_cache s) = cf s. Proof. reflexivity. Qed.
Lemma commit_cache_aux s : aux (commit_cache s) = aux s. Proof. reflexivity. Qed.
Lemma commit_cache_calls s : calls (commit_cache s) = calls s. Proof. reflexivity. Qed.
Lemma commit_cache_objs s : objs (commit_cache s) = flush_objs s. Proof. reflexivity. Qed.

Lemma WFJ_commit_cache s : WFJ s -> WFJ (commit_cache s).
Proof.
  intros H. pose proof H as (_&_&R). eapply WFJ_ext; [exact H | reflexivity | reflexivity |].
  intros x Hx. rewrite commit_cache_objs. destruct (objs s x) as [o|] eqn:Ho; [|contradiction].
  rewrite (flush_objs_keep s x o R Ho). discriminate.
Qed.

(** popping the PrecompileCalled entry from anything that refines (in body mode) a state [sb]
    which still has the objects of [s] gives back a refinement of [s] *)
Lemma pop_snapshot_le s sb s2 :
  WFJ s ->
  journal sb = snap_entry s :: journal s -> txs sb = txs s -> cf sb = cf s -> auxeq (aux s) (aux sb) ->
  (forall x o, objs s x = Some o -> objs sb x = Some o) ->
  rel false (snap_sc s) sb s2 ->
  le s (pop_undo s2).
Proof.
  intros (W&O&R) Jb Tb Cb Xb Ob (J&T&C&X&Oc&_).
  assert (J2 : journal s2 = snap_entry s :: journal s) by congruence.
  rewrite (pop_undo_cons s2 _ _ J2). cbv zeta. simpl dirtied. cbv iota.
  unfold snap_entry. simpl undo. sdb_simp. rewrite <- C, Cb, R.
  apply le_intro; sdb_simp.
  - reflexivity.
  - congruence.
  - congruence.
  - eapply auxeq_trans; eauto.
  - unfold cur_store at 2. sdb_simp. reflexivity.
  - intros x. apply dle_refl.
  - intros x. unfold lookrel, lookup, cur_store. sdb_simp. fold (cur_store s).
    destruct (objs s x) as [o|] eqn:Ho.
    + assert (Hsc : snap_sc s x = true) by (unfold snap_sc; rewrite Ho; reflexivity).
      rewrite Hsc.
      destruct (Oc x Hsc) as [L D]. pose proof (Ob x o Ho) as Hb.
      assert (Hn : objs s2 x <> None) by (apply D; rewrite Hb; discriminate).
      unfold lookrel, lookup in L. rewrite Hb in L. destruct (objs s2 x) as [o2|]; [|contradiction].
      split; [rewrite <- Tb; exact L | intros _; discriminate].
    + assert (Hsc : snap_sc s x = false) by (unfold snap_sc; rewrite Ho; reflexivity).
      rewrite Hsc.
      split; [|intros H; contradiction]. destruct (accs (cur_store s) x); [apply ole_refl|exact I].
Qed.

Lemma pc_shell_ok s F fails :
  (forall s0, bop_ok (snap_sc s) s0 (F s0)) -> op_ok s (pc_shell s F fails).
Proof.
  intros HF HW. pose proof HW as (_&_&Hrep).
  set (n := length (journal s)).
  set (s1 := precompile_snapshot s).
  assert (J1 : journal s1 = snap_entry s :: journal s) by apply snapshot_journal.
  assert (HW1 : WFJ s1) by (apply WFJ_snapshot; exact HW).
  (* the common core: for any [s2] that is a body-mode refinement of a base keeping the objects *)
  assert (Hcore : forall sb s2 es,
             journal sb = snap_entry s :: journal s -> txs sb = txs s -> cf sb = cf s -> auxeq (aux s) (aux sb) ->
             (forall x o, objs s x = Some o -> objs sb x = Some o) ->
             journal s2 = es ++ journal sb -> rel false (snap_sc s) sb (unwind_k (length es) s2) ->
             le s (unwind n s2)).
  { intros sb s2 es Jb Tb Cb Xb Ob J2 HR.
    replace (unwind n s2) with (pop_undo (unwind_k (length es) s2)).
    - eapply pop_snapshot_le; eauto.
    - rewrite (unwind_prefix (es ++ [snap_entry s]) (journal s) n s2); [|rewrite J2, Jb, <- app_assoc; reflexivity|reflexivity].
      rewrite app_length, unwind_k_add. reflexivity. }
  assert (Hlim : le s (unwind n s1)).
  { apply (Hcore s1 s1 []); [exact J1 | | | | | reflexivity | apply rel_refl].
    - apply snapshot_txs.
    - apply snapshot_cf.
    - unfold s1. rewrite snapshot_aux. apply auxeq_refl.
    - intros x o Ho. unfold s1. rewrite snapshot_objs. exact Ho. }
  unfold pc_shell. fold n s1.
  assert (Hrev : forall sX, (n <= length (journal sX))%nat -> le s (unwind n sX) -> WFJ sX ->
                 (length (journal s) <= length (journal (unwind n sX)))%nat /\
                 le s (unwind (length (journal s)) (unwind n sX)) /\ WFJ (unwind n sX)).
  { intros sX Hlen HL HWX. pose proof (unwind_len n sX Hlen) as Hl. fold n.
    split; [lia|]. split; [|apply WFJ_unwind; exact HWX].
    rewrite <- Hl at 1. rewrite unwind_id. exact HL. }
  destruct (maxc (cf s) <? calls s1).
  - apply Hrev; [rewrite J1; simpl; unfold n; lia | exact Hlim | exact HW1].
  - destruct (flush_fail s1) as [af|].
    { (* the pre-run flush fails: its prefix is undone by the journal entry *)
      set (sP := commit_cache_partial af s1).
      assert (Hrep1 : repaired (cf s1) = true) by (unfold s1; rewrite snapshot_cf; exact Hrep).
      assert (Hkeep : forall x o, objs s1 x = Some o -> objs sP x = Some o).
      { intros x o Ho. unfold sP, commit_cache_partial. sdb_simp.
        destruct (x <? af); [apply flush_objs_keep; assumption | exact Ho]. }
      assert (HWP : WFJ sP).
      { eapply WFJ_ext; [exact HW1 | reflexivity | reflexivity |].
        intros x Hx. destruct (objs s1 x) as [o|] eqn:Ho; [|contradiction]. rewrite (Hkeep x o Ho). discriminate. }
      apply Hrev; [change (journal sP) with (journal s1); rewrite J1; simpl; unfold n; lia | | exact HWP].
      apply (Hcore sP sP []); [exact J1 | | | | | reflexivity | apply rel_refl].
      - change (txs sP) with (txs s1). apply snapshot_txs.
      - change (cf sP) with (cf s1). apply snapshot_cf.
      - change (aux sP) with (aux s1). unfold s1. rewrite snapshot_aux. apply auxeq_refl.
      - intros x o Ho. apply Hkeep. unfold s1. rewrite snapshot_objs. exact Ho. }
    set (sF := commit_cache s1).
    assert (HWF : WFJ sF) by (apply WFJ_commit_cache; exact HW1).
    assert (HPF : PIn (snap_sc s) (journal sF)).
    { change (journal sF) with (journal s1). rewrite J1. exists (cur_store s), (dirt s). left. reflexivity. }
    destruct (HF sF HWF HPF) as (es & J2 & R2 & W2).
    set (s2 := F sF) in *.
    assert (HL2 : le s (unwind n s2)).
    { apply (Hcore sF s2 es); [| | | | | exact J2 | exact R2].
      - change (journal sF) with (journal s1). exact J1.
      - change (txs sF) with (txs s1). apply snapshot_txs.
      - change (cf sF) with (cf s1). apply snapshot_cf.
      - change (aux sF) with (aux s1). unfold s1. rewrite snapshot_aux. apply auxeq_refl.
      - intros x o Ho. change (objs sF) with (flush_objs s1). apply flush_objs_keep.
        + unfold s1. rewrite snapshot_cf. exact Hrep.
        + unfold s1. rewrite snapshot_objs. exact Ho. }
    assert (Hlen2 : (n <= length (journal s2))%nat).
    { rewrite J2. change (journal sF) with (journal s1). rewrite J1, app_length. simpl. unfold n. lia. }
    destruct fails.
    + apply Hrev; assumption.
    + split; [exact Hlen2|]. split; [exact HL2 | exact W2].
Qed.


Lemma precompile_call_ok s sends fails : op_ok s (precompile_call s sends fails).
Proof. apply pc_shell_ok. intros s0. apply run_sends_bop. Qed.

(** ======================= all scripts ======================= *)
Fixpoint psize (p : prog) : nat :=
  match p with
  | PFrame body _ => S (list_sum (map psize body))
  | PPrecompile body _ => S (list_sum (map psize body))
  | _ => 1%nat
  end.

(** bank sends occur only as elements of precompile bodies (possibly nested deeper) *)
Fixpoint nosend (p : prog) : bool :=
  match p with
  | OBankSend _ _ _ => false
  | PFrame body _ => forallb nosend body
  | PPrecompile _ _ => true
  | _ => true
  end.

Lemma run_frame body rv s :
  run (PFrame body rv) s = if rv then unwind (length (journal s)) (run_body body s) else run_body body s.
Proof. reflexivity. Qed.
Lemma run_precompile body fails s : run (PPrecompile body fails) s = pc_shell s (run_body body) fails.
Proof. reflexivity. Qed.
Lemma run_body_cons p t s : run_body (p :: t) s = run_body t (run p s).
Proof. reflexivity. Qed.
Lemma run_body_nil s : run_body [] s = s. Proof. reflexivity. Qed.

Lemma inc_state_ok s a k d : op_ok s (inc_state s a k d).
Proof. apply set_state_ok. Qed.

(** every script is a body-mode step; scripts whose bank sends are inside precompile bodies are
    full steps *)
Lemma run_both n : forall p s, (psize p <= n)%nat ->
  (forall sc, bop_ok sc s (run p s)) /\ (nosend p = true -> op_ok s (run p s)).
Proof.
  induction n as [|n IH]; intros p s Hn.
  - destruct p; simpl in Hn; lia.
  - assert (Hsimple : forall s', run p s = s' -> op_ok s s' ->
              (forall sc, bop_ok sc s (run p s)) /\ (nosend p = true -> op_ok s (run p s))).
    { intros s' E H. rewrite E. split; [intros sc; apply op_ok_bop; exact H | intros _; exact H]. }
    assert (Hbodyb : forall l s0 sc, (list_sum (map psize l) <= n)%nat -> bop_ok sc s0 (run_body l s0)).
    { induction l as [|x t IHl]; intros s0 sc Hl; [apply bop_ok_refl|].
      rewrite run_body_cons. simpl in Hl.
      apply (bop_ok_trans sc s0 (run x s0)); [apply (IH x); lia | apply IHl; lia]. }
    destruct p; try (apply (Hsimple _ eq_refl); cbn [run]; first
      [ apply add_balance_ok | apply sub_balance_ok | apply set_nonce_ok | apply set_code_ok | apply set_state_ok
      | apply selfdestruct_ok | apply evm_create_ok | apply add_log_ok | apply set_refund_ok | apply sub_refund_ok
      | apply access_addr_ok | apply access_slot_ok | apply touch_ok | apply read_obs_ok | apply inc_state_ok ]).
    + (* OBankSend *)
      split; [intros sc; cbn [run]; apply bank_send_bop | intros H; discriminate].
    + (* PFrame *)
      cbn [psize] in Hn. rewrite run_frame. split.
      * intros sc. assert (Hb : bop_ok sc s (run_body body s)) by (apply Hbodyb; lia).
        destruct reverted; [|exact Hb].
        intros HW HP. destruct (Hb HW HP) as (es & J & HR & HW').
        exists []. split; [|split].
        -- simpl. unfold unwind. rewrite unwind_k_journal, J, app_length.
           replace (length es + length (journal s) - length (journal s))%nat with (length es) by lia.
           rewrite skipn_app, skipn_all, Nat.sub_diag. reflexivity.
        -- simpl. rewrite (unwind_prefix es (journal s) (length (journal s)) _ J eq_refl). exact HR.
        -- apply WFJ_unwind; exact HW'.
      * intros Hns. cbn [nosend] in Hns. rewrite forallb_forall in Hns.
        assert (Hbody : forall l s0, (list_sum (map psize l) <= n)%nat -> (forall x, In x l -> nosend x = true) ->
                  op_ok s0 (run_body l s0)).
        { induction l as [|x t IHl]; intros s0 Hl Hx; [apply op_ok_refl|].
          rewrite run_body_cons. simpl in Hl.
          apply (op_ok_trans s0 (run x s0)).
          - apply (IH x); [lia | apply Hx; left; reflexivity].
          - apply IHl; [lia | intros y Hy; apply Hx; right; exact Hy]. }
        assert (Hb : op_ok s (run_body body s)) by (apply Hbody; [lia | exact Hns]).
        destruct reverted; [|exact Hb].
        intros HW. destruct (Hb HW) as (L & HE & HW').
        pose proof (unwind_len _ _ L) as Hl.
        split; [lia|]. split; [|apply WFJ_unwind; exact HW'].
        rewrite <- Hl at 1. rewrite unwind_id. exact HE.
    + (* PPrecompile *)
      cbn [psize] in Hn. rewrite run_precompile.
      assert (H : op_ok s (pc_shell s (run_body body) fails)).
      { apply pc_shell_ok. intros s0. apply Hbodyb. lia. }
      split; [intros sc; apply op_ok_bop; exact H | intros _; exact H].
Qed.

Theorem run_ok p s : nosend p = true -> op_ok s (run p s).
Proof. apply (run_both (psize p) p s). lia. Qed.

Lemma run_body_ok body s : forallb nosend body = true -> op_ok s (run_body body s).
Proof. intros H. pose proof (run_ok (PFrame body false) s H) as H1. rewrite run_frame in H1. exact H1. Qed.

(** (P1) A reverted frame leaves a refinement of the state it started from. *)
Theorem reverted_frame_invisible body s :
  forallb nosend body = true -> WFJ s -> le s (run (PFrame body true) s) /\ WFJ (run (PFrame body true) s).
Proof.
  intros Hns HW. destruct (run_body_ok body s Hns HW) as (L & HE & HW').
  rewrite run_frame. split; [exact HE | apply WFJ_unwind; exact HW'].
Qed.

Lemma WFJ_init c t : repaired c = true -> WFJ (init c t).
Proof. intros H. split; [|split]; simpl; auto. intros sv sd sc []. Qed.
