(** C04 proofs, part 5 (P3/P4): every forward operation keeps the simulation relation in
    lock-step with the reference. *)
From Coq Require Import ZArith List Bool Lia.
Import ListNotations.
Local Open Scope Z_scope.
Require Import Nib.C04.Model Nib.C04.ProofsBase Nib.C04.ProofsUndo Nib.C04.ProofsOps Nib.C04.ProofsInv.

(** pointwise equality of reference states (the ghost [r_wr] may only grow) *)
Definition req (r r' : rstate) : Prop :=
  (forall a, r_accs r a = r_accs r' a) /\ (forall a k, r_stor r a k = r_stor r' a k) /\
  auxeq (r_aux r) (r_aux r') /\ (forall a, r_wr r' a = false -> r_wr r a = false).

Lemma req_refl r : req r r.
Proof. repeat split; auto. Qed.
Lemma req_trans r1 r2 r3 : req r1 r2 -> req r2 r3 -> req r1 r3.
Proof.
  intros (A&B&C&D) (A'&B'&C'&D'). split; [intros; congruence|]. split; [intros; congruence|].
  split; [eapply auxeq_trans; eauto|]. auto.
Qed.

Lemma R_req s r r' : R s r -> req r r' -> R s r'.
Proof.
  intros HR (A&B&C&D). constructor.
  - eapply auxeq_trans; [apply HR | exact C].
  - apply HR.
  - intros a. rewrite <- A. apply HR.
  - intros a k. rewrite <- B. apply HR.
  - apply HR.
  - apply HR.
  - apply HR.
  - intros a Hw Hs. unfold r_get in Hs. rewrite <- A in Hs. apply (R_wr s r HR a); auto.
Qed.

Lemma R_le s s' r : R s r -> le s s' -> R s' r.
Proof. intros HR HL. eapply R_req; [apply (R_mono s s' r (r_calls r) HR HL)|]. repeat split; auto. Qed.

Lemma r_set_same r a x : r_accs (r_set r a x) a = Some x.
Proof. unfold r_set; simpl. apply upd_same. Qed.
Lemma r_set_other r a x b : b <> a -> r_accs (r_set r a x) b = r_accs r b.
Proof. intros H. unfold r_set; simpl. apply upd_other; assumption. Qed.

Lemma r_set_off r a y x : x <> a ->
  r_accs (r_set r a y) x = r_accs r x /\ (forall k, r_stor (r_set r a y) x k = r_stor r x k) /\
  r_wr (r_set r a y) x = r_wr r x.
Proof. intros H. split; [apply r_set_other; assumption|]. split; reflexivity. Qed.

(** obj_good / trivial_dirty only depend on the storage fields *)
Lemma obj_good_scalar t cur a o o' :
  origin o' = origin o -> dirty o' = dirty o -> (suicided o' = false -> suicided o = false) ->
  obj_good t cur a o -> obj_good t cur a o'.
Proof.
  intros Ho Hd Hs (G1&G2&G3). unfold obj_good, comm. rewrite Ho, Hd. split; [|split; assumption].
  intros H. apply G1. auto.
Qed.

(** ---- getOrNewStateObject ---- *)
Lemma sim_get_or_new s r a : R s r -> R (get_or_new s a) (r_set r a (r_get r a)).
Proof.
  intros HR. unfold get_or_new. destruct (lookup s a) as [o|] eqn:Hl.
  - eapply R_req; [apply (R_le s (cached s a) r HR (le_cached s a))|].
    pose proof (R_acc s r HR a) as Ha. rewrite Hl in Ha.
    split; [|repeat split; auto].
    intros x. unfold r_set; simpl. unfold upd. destruct (Z.eqb_spec x a) as [->|]; [|reflexivity].
    unfold r_get. destruct (r_accs r a); [reflexivity|contradiction].
  - set (s' := set_obj (push s (ECreate a)) a (new_obj 0 0 0)).
    assert (T : txs s' = txs s) by (subst s'; unfold set_obj; sdb_simp; apply push_txs).
    assert (Cu : cur_store s' = cur_store s) by (subst s'; unfold cur_store, set_obj; sdb_simp; rewrite push_cache, push_txs; reflexivity).
    pose proof (R_acc s r HR a) as Ha. rewrite Hl in Ha.
    assert (Hra : r_get r a = {| rb := 0; rn := 0; rc := 0; rs := false |}) by (unfold r_get; destruct (r_accs r a); [contradiction|reflexivity]).
    apply (R_step s s' r _ HR T).
    + subst s'. unfold set_obj; sdb_simp. rewrite push_aux. apply HR.
    + intros x. destruct (Z.eq_dec x a) as [->|Hne].
      * right. unfold updd. exists (new_obj 0 0 0), (r_get r a). rewrite T, Cu.
        assert (Hd : dirt s' a = Some (match dirt s a with Some c => c + 1 | None => 1 end)).
        { subst s'. unfold set_obj; sdb_simp. rewrite push_dirt. simpl. unfold dinc. apply upd_same. }
        pose proof (R_cnt s r HR a) as Hc.
        split; [subst s'; apply lookup_set_same|]. split; [apply r_set_same|].
        split; [rewrite Hra; repeat split|].
        split; [intros c0 Hc0; rewrite Hd in Hc0; inversion Hc0; destruct (dirt s a) as [c|]; [specialize (Hc c eq_refl)|]; lia|].
        split; [intros [E|E]; rewrite Hd in E; inversion E; destruct (dirt s a) as [c|]; [specialize (Hc c eq_refl)|]; lia|].
        split; [intros k; simpl; rewrite (R_sto s r HR a k), Hl; unfold st, comm; simpl; apply (R_absent s r HR a Hl)|].
        split.
        -- pose proof (the_obj_good s r a HR) as G. unfold the_obj in G. rewrite Hl in G. exact G.
        -- intros Hw Hs. simpl in Hw. destruct (R_wr s r HR a Hw Hs) as [W1 _]. split; [exact W1|].
           intros k v Hv. discriminate.
      * left. unfold unch. rewrite Cu.
        split; [subst s'; rewrite lookup_set_other, lookup_push by assumption; reflexivity|].
        split; [subst s'; unfold set_obj; sdb_simp; rewrite push_dirt; simpl; unfold dinc; apply upd_other; assumption|].
        destruct (r_set_off r a (r_get r a) x Hne) as (O1&O2&O3). repeat split; auto.
Qed.

(** ---- scalar setters: balance, nonce, code ---- *)
Lemma sim_scalar s r a e (f : obj -> obj) (g : racct -> racct) :
  R s r -> dirtied e = Some a ->
  (forall o, origin (f o) = origin o /\ dirty (f o) = dirty o /\ suicided (f o) = suicided o) ->
  (forall x, rs (g x) = rs x) ->
  (forall o x, omatch o x -> omatch (f o) (g x)) ->
  R (set_obj (push (get_or_new s a) e) a (f (the_obj s a))) (r_set r a (g (r_get r a))).
Proof.
  intros HR Hd Hf Hg Hm. destruct (Hf (the_obj s a)) as (F1&F2&F3).
  apply (mutator_R s r _ a e _ (g (r_get r a)) HR Hd).
  - reflexivity.
  - intros x Hx. apply r_set_off; exact Hx.
  - apply r_set_same.
  - apply Hm, the_obj_match; exact HR.
  - intros k. simpl. rewrite (the_obj_sto s r a k HR). unfold st, comm. rewrite F1, F2. reflexivity.
  - apply (obj_good_scalar _ _ _ (the_obj s a)); auto; [congruence | apply (the_obj_good s r a HR)].
  - simpl. rewrite Hg. intros Hw Hs. destruct (the_obj_wr s r a HR Hw Hs) as [W1 W2]. split; [exact W1|].
    unfold trivial_dirty, comm. rewrite F1, F2. exact W2.
Qed.

Lemma sim_set_balance s r a b : R s r -> R (set_balance s a b) (r_set r a (rw_b (r_get r a) b)).
Proof.
  intros HR. unfold set_balance.
  apply (sim_scalar s r a (EBalance a (bal (the_obj s a))) (fun o => w_bal o b) (fun x => rw_b x b) HR); auto.
  intros o x (A&B&C&D). repeat split; auto.
Qed.

Lemma sim_set_nonce s r a n : R s r -> R (set_nonce s a n) (r_set r a (rw_n (r_get r a) n)).
Proof.
  intros HR. unfold set_nonce.
  apply (sim_scalar s r a (ENonce a (nonce (the_obj s a))) (fun o => w_nonce o n) (fun x => rw_n x n) HR); auto.
  intros o x (A&B&C&D). repeat split; auto.
Qed.

Lemma sim_set_code s r a c : R s r -> R (set_code s a c) (r_set r a (rw_c (r_get r a) c)).
Proof.
  intros HR. unfold set_code.
  apply (sim_scalar s r a (ECode a (code (the_obj s a))) (fun o => w_code o c) (fun x => rw_c x c) HR); auto.
  intros o x (A&B&C&D). repeat split; auto.
Qed.

Lemma sim_add_balance s r a amt : R s r -> R (add_balance s a amt) (r_add r a amt).
Proof.
  intros HR. unfold add_balance, r_add. destruct (Z.eqb_spec amt 0) as [->|Hne].
  - eapply R_req; [apply sim_get_or_new; exact HR|].
    split; [|repeat split; auto]. intros x. unfold r_set; simpl. unfold upd.
    destruct (Z.eqb x a); [|reflexivity]. f_equal. destruct (r_get r a); unfold rw_b; simpl. f_equal. lia.
  - pose proof (the_obj_match s r a HR) as (Hb&_). rewrite Hb. apply sim_set_balance; exact HR.
Qed.

Lemma sim_cached s r a : R s r -> R (cached s a) r.
Proof. intros HR. apply (R_le s _ r HR (le_cached s a)). Qed.

Lemma sim_sub_balance s r a amt :
  R s r -> R (sub_balance s a amt) (if rb (r_get r a) <? amt then r else r_add r a (- amt)).
Proof.
  intros HR. unfold sub_balance. pose proof (the_obj_match s r a HR) as (Hb&_). rewrite Hb.
  destruct (_ <? _); [apply sim_cached | apply sim_add_balance]; exact HR.
Qed.

(** ---- SetState ---- *)
Definition r_sstore (r : rstate) (a : addr) (k : key) (v : word) : rstate :=
  {| r_accs := r_accs (r_set r a (r_get r a));
     r_stor := fun a' k' => if Z.eqb a' a && Z.eqb k' k then v else r_stor r a' k';
     r_aux := r_aux r; r_wr := upd (r_wr r) a true; r_calls := r_calls r |}.

Lemma st_cache_origin t a o k k' : st t a (cache_origin t a o k) k' = st t a o k'.
Proof. apply ole_st, ole_cache_origin. Qed.

Lemma obj_good_cache_origin t cur a o k : obj_good t cur a o -> obj_good t cur a (cache_origin t a o k).
Proof.
  intros (G1&G2&G3). unfold cache_origin. destruct (dirty o k) eqn:Hd; [repeat split; assumption|].
  destruct (origin o k) eqn:Ho; [repeat split; assumption|].
  split; [|split].
  - simpl. intros Hs k' Hd'. rewrite <- (G1 Hs k' Hd'). unfold comm. simpl. unfold upd.
    destruct (Z.eqb_spec k' k) as [->|]; [rewrite Ho; reflexivity|reflexivity].
  - simpl. intros k' v. unfold upd. destruct (Z.eqb_spec k' k) as [->|]; [intros H; inversion H; reflexivity|apply G2].
  - simpl. intros k' Hd'. unfold upd. destruct (Z.eqb_spec k' k) as [->|]; [discriminate|apply G3; exact Hd'].
Qed.

Lemma sim_set_state s r a k v : R s r -> R (set_state s a k v) (r_sstore r a k v).
Proof.
  intros HR. unfold set_state.
  set (o := the_obj s a). set (s1 := get_or_new s a). set (o1 := cache_origin (txs s) a o k).
  pose proof (the_obj_good s r a HR) as G. fold o in G.
  pose proof (obj_good_cache_origin _ _ a o k G) as G1. fold o1 in G1.
  destruct (Z.eqb_spec (st (txs s) a o k) v) as [Hv|Hv].
  - assert (HR1 : R s1 (r_set r a (r_get r a))) by (apply sim_get_or_new; exact HR).
    assert (Ho : objs s1 a = Some o) by apply get_or_new_objs.
    assert (Ht : txs s1 = txs s) by apply get_or_new_txs.
    eapply R_req; [apply (R_le s1 _ _ HR1 (le_set_obj s1 a o o1 Ho ltac:(rewrite Ht; apply ole_cache_origin)))|].
    split; [reflexivity|]. split; [|split; [apply auxeq_refl|]].
    + intros x y. simpl. destruct (Z.eqb_spec x a) as [->|]; simpl; [|reflexivity].
      destruct (Z.eqb_spec y k) as [->|]; simpl; [|reflexivity].
      rewrite (the_obj_sto s r a k HR). exact Hv.
    + intros x. simpl. unfold upd. destruct (Z.eqb x a); [discriminate|auto].
  - apply (mutator_R s r (r_sstore r a k v) a (EStorage a k (st (txs s) a o k)) (w_dirty o1 k v) (r_get r a) HR eq_refl).
    + reflexivity.
    + intros x Hx. simpl. split; [apply r_set_other; exact Hx|]. split.
      * intros y. destruct (Z.eqb_spec x a); [contradiction|reflexivity].
      * apply upd_other; exact Hx.
    + simpl. apply upd_same.
    + pose proof (the_obj_match s r a HR) as M. fold o in M. destruct M as (A&B&C&D).
      unfold o1, cache_origin. destruct (dirty o k); [repeat split; assumption|].
      destruct (origin o k); repeat split; assumption.
    + intros y. simpl. rewrite Z.eqb_refl. simpl. unfold st at 1. simpl. unfold upd.
      destruct (Z.eqb_spec y k) as [->|Hne]; [reflexivity|].
      change (r_stor r a y = st (txs s) a o1 y).
      unfold o1. rewrite st_cache_origin. apply (the_obj_sto s r a y HR).
    + destruct G1 as (H1&H2&H3). split; [|split].
      * simpl. intros Hs y. unfold upd. destruct (Z.eqb_spec y k) as [->|]; [discriminate|]. intros Hd.
        apply (H1 Hs y Hd).
      * exact H2.
      * simpl. intros y. unfold upd. destruct (Z.eqb_spec y k) as [->|]; [|apply H3].
        intros _. destruct (dirty o k) eqn:Hd.
        -- unfold o1, cache_origin. rewrite Hd. destruct G as (_&_&G3). apply G3. congruence.
        -- apply cache_origin_defined; exact Hd.
    + simpl. rewrite upd_same. discriminate.
Qed.

Lemma sim_read_state s r a k : R s r -> R (read_state s a k) r.
Proof.
  intros HR. pose proof (read_state_ok s a k) as H.
  (* read_state only refines: derive le directly *)
  unfold read_state in *. destruct (lookup s a) as [o|] eqn:Hl; [|exact HR].
  assert (HR1 : R (cached s a) r) by (apply sim_cached; exact HR).
  apply (R_le _ _ r HR1). apply (le_set_obj (cached s a) a o); [rewrite objs_cached; exact Hl|].
  rewrite cached_txs. apply ole_cache_origin.
Qed.

Lemma sim_touch s r a : R s r -> R (touch s a) r.
Proof.
  intros HR. unfold touch. assert (HR1 : R (cached s a) r) by (apply sim_cached; exact HR).
  apply (R_le _ _ r HR1).
  apply le_intro; try reflexivity; try apply auxeq_refl.
  - intros x; apply dle_refl.
  - intros x. split; [|auto]. unfold lookrel. rewrite lookup_with_out. destruct (lookup _ x); [apply ole_refl|exact I].
Qed.

(** ---- Suicide / opSelfdestruct ---- *)
Definition r_suicide (r : rstate) (a : addr) : rstate :=
  r_set r a {| rb := 0; rn := rn (r_get r a); rc := rc (r_get r a); rs := true |}.

Lemma get_or_new_some s a o : lookup s a = Some o -> get_or_new s a = cached s a /\ the_obj s a = o.
Proof. intros H. unfold get_or_new, the_obj. rewrite H. auto. Qed.

Lemma sim_suicide s r a o : R s r -> lookup s a = Some o -> R (suicide s a) (r_suicide r a).
Proof.
  intros HR Hl. unfold suicide. rewrite Hl. destruct (get_or_new_some s a o Hl) as [E1 E2]. rewrite <- E1.
  pose proof (the_obj_match s r a HR) as M. rewrite E2 in M. destruct M as (A&B&C&D).
  pose proof (the_obj_good s r a HR) as G. rewrite E2 in G. destruct G as (G1&G2&G3).
  apply (mutator_R s r (r_suicide r a) a (ESuicide a (suicided o) (bal o)) (w_bal (w_sui o true) 0) {| rb := 0; rn := rn (r_get r a); rc := rc (r_get r a); rs := true |} HR eq_refl).
  - reflexivity.
  - intros x Hx. apply r_set_off; exact Hx.
  - apply r_set_same.
  - repeat split; simpl; auto.
  - intros k. simpl. pose proof (the_obj_sto s r a k HR) as H. rewrite E2 in H. exact H.
  - split; [simpl; discriminate|]. split; [exact G2 | exact G3].
  - simpl. discriminate.
Qed.

Lemma sim_selfdestruct mx s r a b : R s r -> R (selfdestruct s a b) (rrun mx (OSuicide a b) r).
Proof.
  intros HR. unfold selfdestruct. simpl. pose proof (R_acc s r HR a) as Ha.
  destruct (lookup s a) as [o|] eqn:Hl, (r_accs r a) as [x|] eqn:Hx; try contradiction; [|exact HR].
  destruct Ha as (Hb&_). rewrite Hb.
  assert (HR1 : R (add_balance (cached s a) b (rb x)) (r_add r b (rb x))) by (apply sim_add_balance, sim_cached; exact HR).
  assert (Hl1 : exists o1, lookup (add_balance (cached s a) b (rb x)) a = Some o1).
  { pose proof (R_acc _ _ HR1 a) as H. unfold r_add in H.
    destruct (lookup (add_balance (cached s a) b (rb x)) a); [eauto|].
    destruct (Z.eq_dec a b) as [->|Hne]; [rewrite r_set_same in H; contradiction|].
    rewrite r_set_other, Hx in H by assumption. contradiction. }
  destruct Hl1 as [o1 Hl1]. apply (sim_suicide _ _ a o1 HR1 Hl1).
Qed.

(** ---- CreateAccount / evm.create ---- *)
Lemma create_account_none s a : lookup s a = None -> create_account s a = get_or_new s a.
Proof.
  intros Hl. unfold create_account, create_object, get_or_new. rewrite Hl, (cached_none s a Hl). reflexivity.
Qed.

Lemma sim_reset s r a p :
  R s r -> lookup s a = Some p -> nonce p = 0 -> code p = 0 -> suicided p = false -> r_wr r a = false ->
  R (create_account s a) r.
Proof.
  intros HR Hl Hn Hc Hs Hw. unfold create_account, create_object. rewrite Hl.
  set (o' := w_bal (new_obj 0 0 0) (bal p)).
  set (s' := set_obj (set_obj (push (cached s a) (EReset a p)) a (new_obj 0 0 0)) a o').
  assert (T : txs s' = txs s) by (subst s'; unfold set_obj; sdb_simp; rewrite ?push_txs; apply cached_txs).
  assert (Cu : cur_store s' = cur_store s) by (subst s'; rewrite !cur_store_set_obj, push_cur; apply cached_cur).
  pose proof (R_acc s r HR a) as Ha. rewrite Hl in Ha. destruct (r_accs r a) as [x|] eqn:Hx; [|contradiction].
  destruct Ha as (A&B&C&D).
  assert (Hsx : rs (r_get r a) = false) by (unfold r_get; rewrite Hx; congruence).
  destruct (R_wr s r HR a Hw Hsx) as [W1 W2]. specialize (W2 p Hl).
  destruct (R_good s r HR a p Hl) as (G1&G2&G3).
  assert (Hst : forall k, st (txs s) a p k = stor (txs s) a k).
  { intros k. unfold st. destruct (dirty p k) as [v|] eqn:Hd.
    - rewrite (W2 k v Hd). unfold comm. destruct (origin p k) eqn:Ho; [apply (G2 k w Ho)|reflexivity].
    - unfold comm. destruct (origin p k) eqn:Ho; [apply (G2 k w Ho)|reflexivity]. }
  apply (R_step s s' r r HR T).
  - subst s'. unfold set_obj; sdb_simp. rewrite ?push_aux, cached_aux. apply HR.
  - intros y. destruct (Z.eq_dec y a) as [->|Hne].
    + right. unfold updd. exists o', x. rewrite T, Cu.
      assert (Hd : dirt s' a = dirt s a) by (subst s'; unfold set_obj; sdb_simp; rewrite ?push_dirt; simpl; rewrite cached_dirt; reflexivity).
      split; [subst s'; apply lookup_set_same|]. split; [exact Hx|].
      split; [subst o'; repeat split; simpl; congruence|].
      split; [intros c0 Hc0; rewrite Hd in Hc0; apply (R_cnt s r HR a c0 Hc0)|].
      split.
      { intros Hcl. rewrite Hd in Hcl. pose proof (R_written s r HR a p Hl Hcl) as Hwr.
        unfold obj_written in *. rewrite Hs in Hwr. subst o'. simpl. destruct Hwr as [Hw1 Hw2]. split.
        - rewrite Hw1. unfold acc_of_obj. simpl. rewrite Hn, Hc. reflexivity.
        - intros k. unfold st, comm. simpl. symmetry. apply W1. }
      split; [intros k; rewrite (R_sto s r HR a k), Hl, Hst; reflexivity|].
      split.
      { subst o'. split; [|split]; simpl; try discriminate; [|intros k Hk; contradiction].
        intros _ k _. unfold comm. simpl. symmetry. apply W1. }
      intros _ _. split; [exact W1|]. intros k v Hv. discriminate.
    + left. unfold unch. rewrite Cu.
      split; [subst s'; rewrite !lookup_set_other by assumption; rewrite lookup_push; apply lookup_cached|].
      split; [subst s'; unfold set_obj; sdb_simp; rewrite ?push_dirt; simpl; apply (f_equal (fun f => f y) (cached_dirt s a))|].
      repeat split; auto.
Qed.

Lemma sim_evm_create mx s r a : R s r -> wf_create r a = true -> R (evm_create s a) (rrun mx (OCreate a) r).
Proof.
  intros HR Hwf. unfold evm_create. simpl. unfold wf_create in Hwf. pose proof (R_acc s r HR a) as Ha.
  destruct (lookup s a) as [o|] eqn:Hl, (r_accs r a) as [x|] eqn:Hx; try contradiction.
  - destruct Ha as (A&B&C&D). rewrite B, C.
    destruct (negb (rn x =? 0) || negb (rc x =? 0)) eqn:Hcol; [apply sim_cached; exact HR|].
    apply orb_false_iff in Hcol as [Hn Hc]. apply negb_false_iff, Z.eqb_eq in Hn. apply negb_false_iff, Z.eqb_eq in Hc.
    apply andb_true_iff in Hwf as [Hs Hw]. apply negb_true_iff in Hs. apply negb_true_iff in Hw.
    assert (HR1 : R (create_account s a) r) by (apply (sim_reset s r a o HR Hl); congruence).
    eapply R_req; [apply (sim_set_nonce _ _ a 1 HR1)|].
    split; [|repeat split; auto]. intros y. unfold r_set; simpl. unfold upd. destruct (Z.eqb y a); [|reflexivity].
    unfold r_get. rewrite Hx. unfold rw_n. simpl. rewrite Hc, Hs. reflexivity.
  - rewrite (create_account_none s a Hl).
    eapply R_req; [apply (sim_set_nonce _ _ a 1 (sim_get_or_new s r a HR))|].
    split; [|repeat split; auto]. intros y. unfold r_set; simpl. unfold upd. destruct (Z.eqb_spec y a) as [->|]; [|reflexivity].
    unfold r_get at 1. simpl. rewrite Z.eqb_refl. unfold r_get. rewrite Hx. reflexivity.
Qed.

(** ---- journaled tx data ---- *)
Lemma sim_aux s r e x' r' :
  R s r -> dirtied e = None -> auxeq x' (r_aux r') ->
  (forall a, r_accs r' a = r_accs r a) -> (forall a k, r_stor r' a k = r_stor r a k) -> (forall a, r_wr r' a = r_wr r a) ->
  R (with_aux (push s e) x') r'.
Proof.
  intros HR Hd Hx A B C. apply (R_step s _ r r' HR).
  - sdb_simp. apply push_txs.
  - exact Hx.
  - intros y. left. unfold unch. rewrite lookup_with_aux, lookup_push. sdb_simp. rewrite push_dirt, Hd.
    unfold cur_store. sdb_simp. rewrite push_cache, push_txs. repeat split; auto.
Qed.

Lemma sim_add_log mx s r : R s r -> R (add_log s) (rrun mx OAddLog r).
Proof.
  intros HR. unfold add_log. simpl. apply (sim_aux s r ELog _ _ HR eq_refl); auto.
  destruct (R_aux s r HR) as (A&B&C&D). repeat split; simpl; auto. congruence.
Qed.

Lemma sim_set_refund s r g :
  R s r -> R (set_refund s g) (r_with_aux r (w_refund (r_aux r) g)).
Proof.
  intros HR. unfold set_refund. apply (sim_aux s r (ERefund (refund (aux s))) _ _ HR eq_refl); auto.
  destruct (R_aux s r HR) as (A&B&C&D). repeat split; simpl; auto.
Qed.

Lemma sim_access_addr s r a : R s r -> R (access_addr s a) (r_access_addr r a).
Proof.
  intros HR. unfold access_addr, r_access_addr. destruct (R_aux s r HR) as (A&B&C&D).
  destruct (al (aux s) a) eqn:Ha.
  - eapply R_req; [exact HR|]. repeat split; simpl; auto.
    intros x. unfold upd. destruct (Z.eqb_spec x a) as [->|]; [|reflexivity].
    transitivity (al (aux s) a); [symmetry; apply C | exact Ha].
  - apply (sim_aux s r (EAccAddr a) _ _ HR eq_refl); auto.
    repeat split; simpl; auto. intros x. unfold upd. destruct (Z.eqb x a); auto.
Qed.

Lemma sim_access_slot mx s r a k : R s r -> R (access_slot s a k) (rrun mx (OAccessSlot a k) r).
Proof.
  intros HR. unfold access_slot. simpl.
  pose proof (sim_access_addr s r a HR) as HR1. set (s1 := access_addr s a) in *. set (r1 := r_access_addr r a) in *.
  destruct (R_aux s1 r1 HR1) as (A&B&C&D).
  destruct (als (aux s1) a k) eqn:Ha.
  - eapply R_req; [exact HR1|]. repeat split; simpl; auto.
    intros x y. destruct (Z.eqb_spec x a) as [->|]; simpl; [|reflexivity].
    destruct (Z.eqb_spec y k) as [->|]; simpl; [|reflexivity].
    transitivity (als (aux s1) a k); [symmetry; apply D | exact Ha].
  - apply (sim_aux s1 r1 (EAccSlot a k) _ _ HR1 eq_refl); auto.
    split; [exact A|]. split; [exact B|]. split; [exact C|]. simpl. intros x y. destruct (Z.eqb x a && Z.eqb y k); [reflexivity | apply D].
Qed.
