(** C04 proofs, part 5 (P3/P4): every forward operation keeps the simulation relation in
    lock-step with the reference. *)
From Coq Require Import ZArith List Bool Lia.
Import ListNotations.
Local Open Scope Z_scope.
Require Import Nib.C04.Model Nib.C04.ProofsBase Nib.C04.ProofsUndo Nib.C04.ProofsOps Nib.C04.ProofsInv.

(** pointwise equality of reference states (the ghost [r_wr] may only grow) *)
Definition req (r r' : rstate) : Prop :=
  (forall a, r_accs r a = r_accs r' a) /\ (forall a k, r_stor r a k = r_stor r' a k) /\
  auxeq (r_aux r) (r_aux r') /\ (forall a, r_wr r' a = false -> r_wr r a = false) /\
  (forall a, r_base r a = r_base r' a).

Lemma req_refl r : req r r.
Proof. repeat split; auto. Qed.
Lemma req_trans r1 r2 r3 : req r1 r2 -> req r2 r3 -> req r1 r3.
Proof.
  intros (A&B&C&D&E) (A'&B'&C'&D'&E'). split; [intros; congruence|]. split; [intros; congruence|].
  split; [eapply auxeq_trans; eauto|]. split; [auto | intros; congruence].
Qed.

Lemma R_req s r r' : R s r -> req r r' -> R s r'.
Proof.
  intros HR (A&B&C&D&E). split; [eapply auxeq_trans; [apply (R_aux s r HR) | exact C]|].
  intros a. constructor.
  - apply (R_cnt s r HR a).
  - apply (R_dl s r HR a).
  - rewrite <- A. apply (R_acc s r HR a).
  - intros k. rewrite <- B. apply (R_sto s r HR a k).
  - apply (R_absent s r HR a).
  - apply (R_written s r HR a).
  - apply (R_good s r HR a).
  - intros Hw Hs. unfold r_get in Hs. rewrite <- A in Hs. apply (R_wr s r HR a); auto.
  - rewrite <- E. apply (R_base s r HR a).
Qed.

Lemma R_le s s' r : R s r -> le s s' -> R s' r.
Proof. intros HR HL. eapply R_req; [apply (R_mono s s' r (r_calls r) HR HL)|]. repeat split; auto. Qed.

Lemma r_set_same r a x : r_accs (r_set r a x) a = Some x.
Proof. unfold r_set; simpl. apply upd_same. Qed.
Lemma r_set_other r a x b : b <> a -> r_accs (r_set r a x) b = r_accs r b.
Proof. intros H. unfold r_set; simpl. apply upd_other; assumption. Qed.

Lemma r_set_off r a y x : x <> a ->
  r_accs (r_set r a y) x = r_accs r x /\ (forall k, r_stor (r_set r a y) x k = r_stor r x k) /\
  r_wr (r_set r a y) x = r_wr r x.
Proof. intros H. split; [apply r_set_other; assumption|]. split; reflexivity. Qed.
Lemma r_set_base r a y x : r_base (r_set r a y) x = r_base r x. Proof. reflexivity. Qed.

(** obj_good / trivial_dirty only depend on the storage fields *)
Lemma obj_good_scalar t cur a o o' :
  origin o' = origin o -> dirty o' = dirty o -> (suicided o' = false -> suicided o = false) ->
  obj_good t cur a o -> obj_good t cur a o'.
Proof.
  intros Ho Hd Hs (G1&G2&G3). unfold obj_good, comm. rewrite Ho, Hd. split; [|split; assumption].
  intros H. apply G1. auto.
Qed.

(** ---- getOrNewStateObject ---- *)
Lemma sim_get_or_new s r a : R s r -> R (get_or_new s a) (r_set r a (r_get r a)).
Proof.
  intros HR. unfold get_or_new. destruct (lookup s a) as [o|] eqn:Hl.
  - eapply R_req; [apply (R_le s (cached s a) r HR (le_cached s a))|].
    pose proof (R_acc s r HR a) as Ha. rewrite Hl in Ha.
    split; [|repeat split; auto].
    intros x. unfold r_set; simpl. unfold upd. destruct (Z.eqb_spec x a) as [->|]; [|reflexivity].
    unfold r_get. destruct (r_accs r a); [reflexivity|contradiction].
  - set (s' := set_obj (push s (ECreate a)) a (new_obj 0 0 0)).
    assert (T : txs s' = txs s) by (subst s'; unfold set_obj; sdb_simp; apply push_txs).
    assert (Cu : cur_store s' = cur_store s) by (subst s'; unfold cur_store, set_obj; sdb_simp; rewrite push_cache, push_txs; reflexivity).
    pose proof (R_acc s r HR a) as Ha. rewrite Hl in Ha.
    assert (Hra : r_get r a = {| rb := 0; rn := 0; rc := 0; rs := false |}) by (unfold r_get; destruct (r_accs r a); [contradiction|reflexivity]).
    assert (CF : cf s' = cf s) by (subst s'; unfold set_obj; sdb_simp; apply push_cf).
    apply (R_step s s' r _ HR T CF).
    + subst s'. unfold set_obj; sdb_simp. rewrite push_aux. apply HR.
    + intros x. destruct (Z.eq_dec x a) as [->|Hne].
      * right. unfold updd. exists (new_obj 0 0 0), (r_get r a). rewrite T, Cu.
        assert (Hd : dirt s' a = Some (match dirt s a with Some c => c + 1 | None => 1 end)).
        { subst s'. unfold set_obj; sdb_simp. rewrite push_dirt. simpl. unfold dinc. apply upd_same. }
        pose proof (R_cnt s r HR a) as Hc.
        split; [subst s'; apply lookup_set_same|]. split; [apply r_set_same|].
        split; [rewrite Hra; repeat split|].
        split; [intros c0 Hc0; rewrite Hd in Hc0; inversion Hc0; destruct (dirt s a) as [c|]; [specialize (Hc c eq_refl)|]; lia|].
        split; [intros [E|E]; rewrite Hd in E; inversion E; destruct (dirt s a) as [c|]; [specialize (Hc c eq_refl)|]; lia|].
        split; [intros k; simpl; rewrite (R_sto s r HR a k), Hl; unfold st, comm; simpl; apply (R_absent s r HR a Hl)|].
        split.
        -- pose proof (the_obj_good s r a HR) as G. unfold the_obj in G. rewrite Hl in G. exact G.
        -- split.
           ++ intros Hw Hs. simpl in Hw. destruct (R_wr s r HR a Hw Hs) as [W1 _]. split; [exact W1|].
              intros k v Hv. discriminate.
           ++ simpl. apply (R_base s r HR a).
      * left. unfold unch. rewrite Cu.
        split; [subst s'; rewrite lookup_set_other, lookup_push by assumption; reflexivity|].
        split; [subst s'; unfold set_obj; sdb_simp; rewrite push_dirt; simpl; unfold dinc; apply upd_other; assumption|].
        destruct (r_set_off r a (r_get r a) x Hne) as (O1&O2&O3). repeat split; auto.
Qed.

(** ---- scalar setters: balance, nonce, code ---- *)
Lemma sim_scalar s r a e (f : obj -> obj) (g : racct -> racct) :
  R s r -> dirtied e = Some a ->
  (forall o, origin (f o) = origin o /\ dirty (f o) = dirty o /\ suicided (f o) = suicided o) ->
  (forall x, rs (g x) = rs x) ->
  (forall o x, omatch o x -> omatch (f o) (g x)) ->
  R (set_obj (push (get_or_new s a) e) a (f (the_obj s a))) (r_set r a (g (r_get r a))).
Proof.
  intros HR Hd Hf Hg Hm. destruct (Hf (the_obj s a)) as (F1&F2&F3).
  apply (mutator_R s r _ a e _ (g (r_get r a)) HR Hd).
  - reflexivity.
  - reflexivity.
  - intros x Hx. apply r_set_off; exact Hx.
  - apply r_set_same.
  - apply Hm, the_obj_match; exact HR.
  - intros k. simpl. rewrite (the_obj_sto s r a k HR). unfold st, comm. rewrite F1, F2. reflexivity.
  - apply (obj_good_scalar _ _ _ (the_obj s a)); auto; [congruence | apply (the_obj_good s r a HR)].
  - simpl. rewrite Hg. intros Hw Hs. destruct (the_obj_wr s r a HR Hw Hs) as [W1 W2]. split; [exact W1|].
    unfold trivial_dirty, comm. rewrite F1, F2. exact W2.
Qed.

Lemma sim_set_balance s r a b : R s r -> R (set_balance s a b) (r_set r a (rw_b (r_get r a) b)).
Proof.
  intros HR. unfold set_balance.
  apply (sim_scalar s r a (EBalance a (bal (the_obj s a))) (fun o => w_bal o b) (fun x => rw_b x b) HR); auto.
  intros o x (A&B&C&D). repeat split; auto.
Qed.

Lemma sim_set_nonce s r a n : R s r -> R (set_nonce s a n) (r_set r a (rw_n (r_get r a) n)).
Proof.
  intros HR. unfold set_nonce.
  apply (sim_scalar s r a (ENonce a (nonce (the_obj s a))) (fun o => w_nonce o n) (fun x => rw_n x n) HR); auto.
  intros o x (A&B&C&D). repeat split; auto.
Qed.

Lemma sim_set_code s r a c : R s r -> R (set_code s a c) (r_set r a (rw_c (r_get r a) c)).
Proof.
  intros HR. unfold set_code.
  apply (sim_scalar s r a (ECode a (code (the_obj s a))) (fun o => w_code o c) (fun x => rw_c x c) HR); auto.
  intros o x (A&B&C&D). repeat split; auto.
Qed.

Lemma sim_add_balance s r a amt : R s r -> R (add_balance s a amt) (r_add r a amt).
Proof.
  intros HR. unfold add_balance, r_add. destruct (Z.eqb_spec amt 0) as [->|Hne].
  - eapply R_req; [apply sim_get_or_new; exact HR|].
    split; [|repeat split; auto]. intros x. unfold r_set; simpl. unfold upd.
    destruct (Z.eqb x a); [|reflexivity]. f_equal. destruct (r_get r a); unfold rw_b; simpl. f_equal. lia.
  - pose proof (the_obj_match s r a HR) as (Hb&_). rewrite Hb. apply sim_set_balance; exact HR.
Qed.

Lemma sim_cached s r a : R s r -> R (cached s a) r.
Proof. intros HR. apply (R_le s _ r HR (le_cached s a)). Qed.

Lemma sim_sub_balance s r a amt :
  R s r -> R (sub_balance s a amt) (if rb (r_get r a) <? amt then r else r_add r a (- amt)).
Proof.
  intros HR. unfold sub_balance. pose proof (the_obj_match s r a HR) as (Hb&_). rewrite Hb.
  destruct (_ <? _); [apply sim_cached | apply sim_add_balance]; exact HR.
Qed.

(** ---- SetState ---- *)
Definition r_sstore (r : rstate) (a : addr) (k : key) (v : word) : rstate :=
  {| r_accs := r_accs (r_set r a (r_get r a));
     r_stor := fun a' k' => if Z.eqb a' a && Z.eqb k' k then v else r_stor r a' k';
     r_aux := r_aux r; r_wr := upd (r_wr r) a true; r_calls := r_calls r;
     r_base := r_base r; r_bl := r_bl r |}.

Lemma st_cache_origin t a o k k' : st t a (cache_origin t a o k) k' = st t a o k'.
Proof. apply ole_st, ole_cache_origin. Qed.

Lemma obj_good_cache_origin t cur a o k : obj_good t cur a o -> obj_good t cur a (cache_origin t a o k).
Proof.
  intros (G1&G2&G3). unfold cache_origin. destruct (dirty o k) eqn:Hd; [repeat split; assumption|].
  destruct (origin o k) eqn:Ho; [repeat split; assumption|].
  split; [|split].
  - simpl. intros Hs k' Hd'. rewrite <- (G1 Hs k' Hd'). unfold comm. simpl. unfold upd.
    destruct (Z.eqb_spec k' k) as [->|]; [rewrite Ho; reflexivity|reflexivity].
  - simpl. intros k' v. unfold upd. destruct (Z.eqb_spec k' k) as [->|]; [intros H; inversion H; reflexivity|apply G2].
  - simpl. intros k' Hd'. unfold upd. destruct (Z.eqb_spec k' k) as [->|]; [discriminate|apply G3; exact Hd'].
Qed.

Lemma sim_set_state s r a k v : R s r -> R (set_state s a k v) (r_sstore r a k v).
Proof.
  intros HR. unfold set_state.
  set (o := the_obj s a). set (s1 := get_or_new s a). set (o1 := cache_origin (txs s) a o k).
  pose proof (the_obj_good s r a HR) as G. fold o in G.
  pose proof (obj_good_cache_origin _ _ a o k G) as G1. fold o1 in G1.
  destruct (Z.eqb_spec (st (txs s) a o k) v) as [Hv|Hv].
  - assert (HR1 : R s1 (r_set r a (r_get r a))) by (apply sim_get_or_new; exact HR).
    assert (Ho : objs s1 a = Some o) by apply get_or_new_objs.
    assert (Ht : txs s1 = txs s) by apply get_or_new_txs.
    eapply R_req; [apply (R_le s1 _ _ HR1 (le_set_obj s1 a o o1 Ho ltac:(rewrite Ht; apply ole_cache_origin)))|].
    split; [reflexivity|]. split; [|split; [apply auxeq_refl|]].
    + intros x y. simpl. destruct (Z.eqb_spec x a) as [->|]; simpl; [|reflexivity].
      destruct (Z.eqb_spec y k) as [->|]; simpl; [|reflexivity].
      rewrite (the_obj_sto s r a k HR). exact Hv.
    + split; [|reflexivity]. intros x. simpl. unfold upd. destruct (Z.eqb x a); [discriminate|auto].
  - apply (mutator_R s r (r_sstore r a k v) a (EStorage a k (st (txs s) a o k)) (w_dirty o1 k v) (r_get r a) HR eq_refl).
    + reflexivity.
    + reflexivity.
    + intros x Hx. simpl. split; [apply r_set_other; exact Hx|]. split.
      * intros y. destruct (Z.eqb_spec x a); [contradiction|reflexivity].
      * apply upd_other; exact Hx.
    + simpl. apply upd_same.
    + pose proof (the_obj_match s r a HR) as M. fold o in M. destruct M as (A&B&C&D).
      unfold o1, cache_origin. destruct (dirty o k); [repeat split; assumption|].
      destruct (origin o k); repeat split; assumption.
    + intros y. simpl. rewrite Z.eqb_refl. simpl. unfold st at 1. simpl. unfold upd.
      destruct (Z.eqb_spec y k) as [->|Hne]; [reflexivity|].
      change (r_stor r a y = st (txs s) a o1 y).
      unfold o1. rewrite st_cache_origin. apply (the_obj_sto s r a y HR).
    + destruct G1 as (H1&H2&H3). split; [|split].
      * simpl. intros Hs y. unfold upd. destruct (Z.eqb_spec y k) as [->|]; [discriminate|]. intros Hd.
        apply (H1 Hs y Hd).
      * exact H2.
      * simpl. intros y. unfold upd. destruct (Z.eqb_spec y k) as [->|]; [|apply H3].
        intros _. destruct (dirty o k) eqn:Hd.
        -- unfold o1, cache_origin. rewrite Hd. destruct G as (_&_&G3). apply G3. congruence.
        -- apply cache_origin_defined; exact Hd.
    + simpl. rewrite upd_same. discriminate.
Qed.

Lemma sim_read_state s r a k : R s r -> R (read_state s a k) r.
Proof.
  intros HR. pose proof (read_state_ok s a k) as H.
  (* read_state only refines: derive le directly *)
  unfold read_state in *. destruct (lookup s a) as [o|] eqn:Hl; [|exact HR].
  assert (HR1 : R (cached s a) r) by (apply sim_cached; exact HR).
  apply (R_le _ _ r HR1). apply (le_set_obj (cached s a) a o); [rewrite objs_cached; exact Hl|].
  rewrite cached_txs. apply ole_cache_origin.
Qed.

Lemma sim_read_obs s r a k : R s r -> R (read_obs s a k) r.
Proof.
  intros HR. unfold read_obs. pose proof (sim_read_state s r a k HR) as HR1.
  apply (R_le _ _ r HR1).
  apply le_intro; try reflexivity; try apply auxeq_refl.
  - intros x; apply dle_refl.
  - intros x. split; [|auto]. unfold lookrel. rewrite lookup_with_out. destruct (lookup _ x); [apply ole_refl|exact I].
Qed.

(** what the two reads return is what the reference holds / what the tx started with *)
Lemma reads_see_reference s r a k :
  R s r -> read_vals s a k =
           match r_accs r a with Some _ => (r_stor r a k, stor (txs s) a k) | None => (0, 0) end.
Proof.
  intros HR. unfold read_vals. pose proof (R_acc s r HR a) as Ha. pose proof (R_sto s r HR a k) as Hs.
  destruct (lookup s a) as [o|] eqn:Hl, (r_accs r a); try contradiction; [|reflexivity].
  rewrite Hs. f_equal. destruct (R_good s r HR a o Hl) as (_&G2&_). unfold comm.
  destruct (origin o k) as [w|] eqn:Ho; [apply (G2 k w Ho)|reflexivity].
Qed.

Lemma sim_touch s r a : R s r -> R (touch s a) r.
Proof.
  intros HR. unfold touch. assert (HR1 : R (cached s a) r) by (apply sim_cached; exact HR).
  apply (R_le _ _ r HR1).
  apply le_intro; try reflexivity; try apply auxeq_refl.
  - intros x; apply dle_refl.
  - intros x. split; [|auto]. unfold lookrel. rewrite lookup_with_out. destruct (lookup _ x); [apply ole_refl|exact I].
Qed.

(** ---- Suicide / opSelfdestruct ---- *)
Definition r_suicide (r : rstate) (a : addr) : rstate :=
  r_set r a {| rb := 0; rn := rn (r_get r a); rc := rc (r_get r a); rs := true |}.

Lemma get_or_new_some s a o : lookup s a = Some o -> get_or_new s a = cached s a /\ the_obj s a = o.
Proof. intros H. unfold get_or_new, the_obj. rewrite H. auto. Qed.

Lemma sim_suicide s r a o : R s r -> lookup s a = Some o -> R (suicide s a) (r_suicide r a).
Proof.
  intros HR Hl. unfold suicide. rewrite Hl. destruct (get_or_new_some s a o Hl) as [E1 E2]. rewrite <- E1.
  pose proof (the_obj_match s r a HR) as M. rewrite E2 in M. destruct M as (A&B&C&D).
  pose proof (the_obj_good s r a HR) as G. rewrite E2 in G. destruct G as (G1&G2&G3).
  apply (mutator_R s r (r_suicide r a) a (ESuicide a (suicided o) (bal o)) (w_bal (w_sui o true) 0) {| rb := 0; rn := rn (r_get r a); rc := rc (r_get r a); rs := true |} HR eq_refl).
  - reflexivity.
  - reflexivity.
  - intros x Hx. apply r_set_off; exact Hx.
  - apply r_set_same.
  - repeat split; simpl; auto.
  - intros k. simpl. pose proof (the_obj_sto s r a k HR) as H. rewrite E2 in H. exact H.
  - split; [simpl; discriminate|]. split; [exact G2 | exact G3].
  - simpl. discriminate.
Qed.

Lemma sim_selfdestruct mx s r a b : R s r -> R (selfdestruct s a b) (rrun mx (OSuicide a b) r).
Proof.
  intros HR. unfold selfdestruct. simpl. pose proof (R_acc s r HR a) as Ha.
  destruct (lookup s a) as [o|] eqn:Hl, (r_accs r a) as [x|] eqn:Hx; try contradiction; [|exact HR].
  destruct Ha as (Hb&_). rewrite Hb.
  assert (HR1 : R (add_balance (cached s a) b (rb x)) (r_add r b (rb x))) by (apply sim_add_balance, sim_cached; exact HR).
  assert (Hl1 : exists o1, lookup (add_balance (cached s a) b (rb x)) a = Some o1).
  { pose proof (R_acc _ _ HR1 a) as H. unfold r_add in H.
    destruct (lookup (add_balance (cached s a) b (rb x)) a); [eauto|].
    destruct (Z.eq_dec a b) as [->|Hne]; [rewrite r_set_same in H; contradiction|].
    rewrite r_set_other, Hx in H by assumption. contradiction. }
  destruct Hl1 as [o1 Hl1]. apply (sim_suicide _ _ a o1 HR1 Hl1).
Qed.

(** ---- CreateAccount / evm.create ---- *)
Lemma create_account_none s a : lookup s a = None -> create_account s a = get_or_new s a.
Proof.
  intros Hl. unfold create_account, create_object, get_or_new. rewrite Hl, (cached_none s a Hl). reflexivity.
Qed.

Lemma sim_reset s r a p :
  R s r -> lookup s a = Some p -> nonce p = 0 -> code p = 0 -> suicided p = false -> r_wr r a = false ->
  R (create_account s a) r.
Proof.
  intros HR Hl Hn Hc Hs Hw. unfold create_account, create_object. rewrite Hl.
  set (o' := w_bal (new_obj 0 0 0) (bal p)).
  set (s' := set_obj (set_obj (push (cached s a) (EReset a p)) a (new_obj 0 0 0)) a o').
  assert (T : txs s' = txs s) by (subst s'; unfold set_obj; sdb_simp; rewrite ?push_txs; apply cached_txs).
  assert (Cu : cur_store s' = cur_store s) by (subst s'; rewrite !cur_store_set_obj, push_cur; apply cached_cur).
  pose proof (R_acc s r HR a) as Ha. rewrite Hl in Ha. destruct (r_accs r a) as [x|] eqn:Hx; [|contradiction].
  destruct Ha as (A&B&C&D).
  assert (Hsx : rs (r_get r a) = false) by (unfold r_get; rewrite Hx; congruence).
  destruct (R_wr s r HR a Hw Hsx) as [W1 W2]. specialize (W2 p Hl).
  destruct (R_good s r HR a p Hl) as (G1&G2&G3).
  assert (Hst : forall k, st (txs s) a p k = stor (txs s) a k).
  { intros k. unfold st. destruct (dirty p k) as [v|] eqn:Hd.
    - rewrite (W2 k v Hd). unfold comm. destruct (origin p k) eqn:Ho; [apply (G2 k w Ho)|reflexivity].
    - unfold comm. destruct (origin p k) eqn:Ho; [apply (G2 k w Ho)|reflexivity]. }
  assert (CF : cf s' = cf s) by (subst s'; unfold set_obj; sdb_simp; rewrite ?push_cf; apply cached_cf).
  apply (R_step s s' r r HR T CF).
  - subst s'. unfold set_obj; sdb_simp. rewrite ?push_aux, cached_aux. apply HR.
  - intros y. destruct (Z.eq_dec y a) as [->|Hne].
    + right. unfold updd. exists o', x. rewrite T, Cu.
      assert (Hd : dirt s' a = dirt s a) by (subst s'; unfold set_obj; sdb_simp; rewrite ?push_dirt; simpl; rewrite cached_dirt; reflexivity).
      split; [subst s'; apply lookup_set_same|]. split; [exact Hx|].
      split; [subst o'; repeat split; simpl; congruence|].
      split; [intros c0 Hc0; rewrite Hd in Hc0; apply (R_cnt s r HR a c0 Hc0)|].
      split.
      { intros Hcl. rewrite Hd in Hcl. pose proof (R_written s r HR a p Hl Hcl) as Hwr.
        unfold obj_written in *. rewrite Hs in Hwr. subst o'. simpl. destruct Hwr as [Hw1 Hw2]. split.
        - rewrite Hw1. unfold acc_of_obj. simpl. rewrite Hn, Hc. reflexivity.
        - intros k. unfold st, comm. simpl. symmetry. apply W1. }
      split; [intros k; rewrite (R_sto s r HR a k), Hl, Hst; reflexivity|].
      split.
      { subst o'. split; [|split]; simpl; try discriminate; [|intros k Hk; contradiction].
        intros _ k _. unfold comm. simpl. symmetry. apply W1. }
      split; [intros _ _; split; [exact W1|]; intros k v Hv; discriminate|].
      apply (R_base s r HR a).
    + left. unfold unch. rewrite Cu.
      split; [subst s'; rewrite !lookup_set_other by assumption; rewrite lookup_push; apply lookup_cached|].
      split; [subst s'; unfold set_obj; sdb_simp; rewrite ?push_dirt; simpl; apply (f_equal (fun f => f y) (cached_dirt s a))|].
      repeat split; auto.
Qed.

Lemma sim_evm_create mx s r a : R s r -> wf_create r a = true -> R (evm_create s a) (rrun mx (OCreate a) r).
Proof.
  intros HR Hwf. unfold evm_create. simpl. unfold wf_create in Hwf. pose proof (R_acc s r HR a) as Ha.
  destruct (lookup s a) as [o|] eqn:Hl, (r_accs r a) as [x|] eqn:Hx; try contradiction.
  - destruct Ha as (A&B&C&D). rewrite B, C.
    destruct (negb (rn x =? 0) || negb (rc x =? 0)) eqn:Hcol; [apply sim_cached; exact HR|].
    apply orb_false_iff in Hcol as [Hn Hc]. apply negb_false_iff, Z.eqb_eq in Hn. apply negb_false_iff, Z.eqb_eq in Hc.
    apply andb_true_iff in Hwf as [Hs Hw]. apply negb_true_iff in Hs. apply negb_true_iff in Hw.
    assert (HR1 : R (create_account s a) r) by (apply (sim_reset s r a o HR Hl); congruence).
    eapply R_req; [apply (sim_set_nonce _ _ a 1 HR1)|].
    split; [|repeat split; auto]. intros y. unfold r_set; simpl. unfold upd. destruct (Z.eqb y a); [|reflexivity].
    unfold r_get. rewrite Hx. unfold rw_n. simpl. rewrite Hc, Hs. reflexivity.
  - rewrite (create_account_none s a Hl).
    eapply R_req; [apply (sim_set_nonce _ _ a 1 (sim_get_or_new s r a HR))|].
    split; [|repeat split; auto]. intros y. unfold r_set; simpl. unfold upd. destruct (Z.eqb_spec y a) as [->|]; [|reflexivity].
    unfold r_get at 1. simpl. rewrite Z.eqb_refl. unfold r_get. rewrite Hx. reflexivity.
Qed.

(** ---- journaled tx data ---- *)
Lemma sim_aux s r e x' r' :
  R s r -> dirtied e = None -> auxeq x' (r_aux r') ->
  (forall a, r_accs r' a = r_accs r a) -> (forall a k, r_stor r' a k = r_stor r a k) -> (forall a, r_wr r' a = r_wr r a) ->
  (forall a, r_base r' a = r_base r a) ->
  R (with_aux (push s e) x') r'.
Proof.
  intros HR Hd Hx A B C Bs. apply (R_step s _ r r' HR).
  - sdb_simp. apply push_txs.
  - sdb_simp. apply push_cf.
  - exact Hx.
  - intros y. left. unfold unch. rewrite lookup_with_aux, lookup_push. sdb_simp. rewrite push_dirt, Hd.
    unfold cur_store. sdb_simp. rewrite push_cache, push_txs. repeat split; auto.
Qed.

Lemma sim_add_log mx s r : R s r -> R (add_log s) (rrun mx OAddLog r).
Proof.
  intros HR. unfold add_log. simpl. apply (sim_aux s r ELog _ _ HR eq_refl); auto.
  destruct (R_aux s r HR) as (A&B&C&D). repeat split; simpl; auto. congruence.
Qed.

Lemma sim_set_refund s r g :
  R s r -> R (set_refund s g) (r_with_aux r (w_refund (r_aux r) g)).
Proof.
  intros HR. unfold set_refund. apply (sim_aux s r (ERefund (refund (aux s))) _ _ HR eq_refl); auto.
  destruct (R_aux s r HR) as (A&B&C&D). repeat split; simpl; auto.
Qed.

Lemma sim_access_addr s r a : R s r -> R (access_addr s a) (r_access_addr r a).
Proof.
  intros HR. unfold access_addr, r_access_addr. destruct (R_aux s r HR) as (A&B&C&D).
  destruct (al (aux s) a) eqn:Ha.
  - eapply R_req; [exact HR|]. repeat split; simpl; auto.
    intros x. unfold upd. destruct (Z.eqb_spec x a) as [->|]; [|reflexivity].
    transitivity (al (aux s) a); [symmetry; apply C | exact Ha].
  - apply (sim_aux s r (EAccAddr a) _ _ HR eq_refl); auto.
    repeat split; simpl; auto. intros x. unfold upd. destruct (Z.eqb x a); auto.
Qed.

Lemma sim_access_slot mx s r a k : R s r -> R (access_slot s a k) (rrun mx (OAccessSlot a k) r).
Proof.
  intros HR. unfold access_slot. simpl.
  pose proof (sim_access_addr s r a HR) as HR1. set (s1 := access_addr s a) in *. set (r1 := r_access_addr r a) in *.
  destruct (R_aux s1 r1 HR1) as (A&B&C&D).
  destruct (als (aux s1) a k) eqn:Ha.
  - eapply R_req; [exact HR1|]. repeat split; simpl; auto.
    intros x y. destruct (Z.eqb_spec x a) as [->|]; simpl; [|reflexivity].
    destruct (Z.eqb_spec y k) as [->|]; simpl; [|reflexivity].
    transitivity (als (aux s1) a k); [symmetry; apply D | exact Ha].
  - apply (sim_aux s1 r1 (EAccSlot a k) _ _ HR1 eq_refl); auto.
    split; [exact A|]. split; [exact B|]. split; [exact C|]. simpl. intros x y. destruct (Z.eqb x a && Z.eqb y k); [reflexivity | apply D].
Qed.

(** ======================= precompile call: snapshot, flush, bank sends ======================= *)
Lemma sim_snapshot s r : R s r -> R (precompile_snapshot s) r.
Proof.
  intros HR. apply (R_step s _ r r HR).
  - apply snapshot_txs.
  - apply snapshot_cf.
  - rewrite snapshot_aux. apply (R_aux s r HR).
  - intros x. left. unfold unch. rewrite snapshot_lookup, snapshot_dirt, snapshot_cur. repeat split; auto.
Qed.

Lemma flush_lookup s a : repaired (cf s) = true -> lookup (commit_cache s) a = lookup s a.
Proof.
  intros Hr. unfold lookup at 1. unfold commit_cache, cur_store. sdb_simp. fold (cur_store s).
  unfold flush_objs, flush_store. simpl. rewrite Hr.
  destruct (dirt s a) eqn:Hd.
  - destruct (lookup s a) eqn:Hl; [reflexivity|]. exact (eq_sym Hl) || (symmetry; exact Hl) || idtac.
    unfold lookup in Hl. destruct (objs s a); [discriminate|]. destruct (accs (cur_store s) a); [discriminate|reflexivity].
  - unfold lookup. destruct (objs s a); reflexivity.
Qed.

Definition all_clean (s : sdb) : Prop := forall a, clean (dirt s a).

(** the two balance views agree (for accounts that have not self-destructed) *)
Definition views (s : sdb) : Prop :=
  forall a o, lookup s a = Some o -> suicided o = false -> bank_bal (cur_store s) a = to_native (bal o).

Lemma views_of_clean s r : R s r -> all_clean s -> views s.
Proof.
  intros HR Hc a o Hl Hs. pose proof (R_written s r HR a o Hl (Hc a)) as Hw.
  unfold obj_written in Hw. rewrite Hs in Hw. destruct Hw as [Hw _]. unfold bank_bal. rewrite Hw. reflexivity.
Qed.

Lemma sim_flush s r : R s r -> repaired (cf s) = true -> R (commit_cache s) (r_flush r) /\ all_clean (commit_cache s).
Proof.
  intros HR Hr. split.
  - set (s' := commit_cache s).
    assert (Hcur : cur_store s' = flush_store false s (cur_store s)).
    { unfold s', commit_cache, cur_store. sdb_simp. rewrite Hr. reflexivity. }
    split; [apply (R_aux s r HR)|].
    intros x. pose proof (R_acc s r HR x) as Ha.
    destruct (lookup s x) as [o|] eqn:Hl.
    + (* the account is now written, whether it was dirty or clean *)
      destruct (r_accs r x) as [y|] eqn:Hy; [|contradiction].
      destruct (R_good s r HR x o Hl) as (G1&G2&G3).
      apply Rat_gen. unfold updd. exists o, y. change (txs s') with (txs s). change (cf s') with (cf s). rewrite Hcur.
      assert (Hd' : clean (dirt s' x)).
      { unfold s', commit_cache, flush_dirt; sdb_simp. destruct (dirt s x); [right|left]; reflexivity. }
      assert (Hst : forall k, suicided o = false -> stor (flush_store false s (cur_store s)) x k = st (txs s) x o k).
      { intros k Hs. unfold flush_store. simpl. rewrite Hl, Hs. destruct (dirt s x) eqn:Hd.
        - unfold st. destruct (dirty o k) eqn:Hk; [reflexivity|]. symmetry. apply G1; assumption.
        - pose proof (R_written s r HR x o Hl (or_introl Hd)) as Hw. unfold obj_written in Hw. rewrite Hs in Hw.
          symmetry. apply Hw. }
      assert (Hacc : accs (flush_store false s (cur_store s)) x = if suicided o then None else Some (acc_of_obj o)).
      { unfold flush_store. simpl. rewrite Hl. destruct (dirt s x) eqn:Hd; [destruct (suicided o); reflexivity|].
        pose proof (R_written s r HR x o Hl (or_introl Hd)) as Hw. unfold obj_written in Hw.
        destruct (suicided o); apply Hw. }
      assert (Hst0 : suicided o = true -> forall k, stor (flush_store false s (cur_store s)) x k = 0).
      { intros Hs k. unfold flush_store. simpl. rewrite Hl, Hs. destruct (dirt s x) eqn:Hd; [reflexivity|].
        pose proof (R_written s r HR x o Hl (or_introl Hd)) as Hw. unfold obj_written in Hw. rewrite Hs in Hw. apply Hw. }
      split; [unfold s'; rewrite flush_lookup by assumption; exact Hl|]. split; [exact Hy|]. split; [exact Ha|].
      split; [intros c0 Hc0; destruct Hd' as [E|E]; rewrite E in Hc0; inversion Hc0; lia|].
      split.
      { intros _. unfold obj_written. rewrite Hacc. destruct (suicided o) eqn:Hs.
        - split; [reflexivity | apply Hst0; reflexivity].
        - split; [reflexivity|]. intros k. symmetry. apply Hst; reflexivity. }
      split; [intros k; simpl; rewrite (R_sto s r HR x k), Hl; reflexivity|].
      split.
      { split; [|split; assumption]. intros Hs k Hk. rewrite (Hst k Hs). unfold st. rewrite Hk. reflexivity. }
      split.
      { intros Hw Hs. simpl in Hw. assert (Hs' : rs (r_get r x) = false) by (unfold r_get; rewrite Hy; exact Hs).
        destruct (R_wr s r HR x Hw Hs') as [W1 W2]. specialize (W2 o Hl). split; [|exact W2].
        intros k. destruct Ha as (_&_&_&Hsu). rewrite (Hst k ltac:(congruence)). unfold st.
        destruct (dirty o k) as [v|] eqn:Hk.
        * rewrite (W2 k v Hk). unfold comm. destruct (origin o k) eqn:Ho; [apply (G2 k w Ho)|reflexivity].
        * unfold comm. destruct (origin o k) eqn:Ho; [apply (G2 k w Ho)|reflexivity]. }
      simpl. rewrite Hy. unfold bank_bal. rewrite Hacc. destruct Ha as (Hb&_&_&Hsu). rewrite <- Hsu, <- Hb.
      destruct (suicided o); reflexivity.
    + destruct (r_accs r x) as [y|] eqn:Hy; [contradiction|].
      assert (Hdn : dirt s x = None).
      { destruct (dirt s x) eqn:Hd; [|reflexivity]. exfalso. apply (R_dl s r HR x); congruence. }
      destruct HR as [_ HR']. apply (Rat_unchB s s' r (r_flush r) x (HR' x) eq_refl).
      * unfold s'. apply flush_lookup; exact Hr.
      * unfold s', commit_cache, flush_dirt; sdb_simp. rewrite Hdn. reflexivity.
      * rewrite Hcur. unfold flush_store; simpl. rewrite Hdn. reflexivity.
      * intros k. rewrite Hcur. unfold flush_store; simpl. rewrite Hdn. reflexivity.
      * reflexivity.
      * reflexivity.
      * reflexivity.
      * simpl. rewrite Hy. rewrite Hcur. unfold bank_bal, flush_store. simpl. rewrite Hdn.
        rewrite (lookup_none_accs s x Hl). reflexivity.
  - intros a. unfold commit_cache, flush_dirt. sdb_simp. destruct (dirt s a); [right|left]; reflexivity.
Qed.

(** ---- bank SendCoins + SyncStateDBWithAccount ---- *)
Lemma to_native_to_wei z : to_native (to_wei z) = z.
Proof. unfold to_native, to_wei, wei_per_unibi. apply Z.div_mul. lia. Qed.

(** SetBalanceWei(a, NativeToWei(bank balance)) on the current state *)
Definition sync (s : sdb) (a : addr) : sdb := set_balance s a (to_wei (bank_bal (cur_store s) a)).

Lemma set_balance_cur s a b : cur_store (set_balance s a b) = cur_store s.
Proof. unfold set_balance. rewrite cur_store_set_obj, push_cur. apply get_or_new_cur. Qed.
Lemma set_balance_txs s a b : txs (set_balance s a b) = txs s.
Proof. unfold set_balance, set_obj; sdb_simp. rewrite push_txs. apply get_or_new_txs. Qed.
Lemma set_balance_cf s a b : cf (set_balance s a b) = cf s.
Proof. unfold set_balance, set_obj; sdb_simp. rewrite push_cf. apply get_or_new_cf. Qed.
Lemma set_balance_aux s a b : aux (set_balance s a b) = aux s.
Proof. unfold set_balance, set_obj; sdb_simp. rewrite push_aux. apply get_or_new_aux. Qed.
Lemma set_balance_lookup_other s a b x : x <> a -> lookup (set_balance s a b) x = lookup s x.
Proof.
  intros H. unfold set_balance. rewrite lookup_set_other, lookup_push by assumption.
  apply get_or_new_lookup_other; assumption.
Qed.
Lemma set_balance_lookup_same s a b : lookup (set_balance s a b) a = Some (w_bal (the_obj s a) b).
Proof. unfold set_balance. apply lookup_set_same. Qed.
Lemma set_balance_dirt_other s a b x : x <> a -> dirt (set_balance s a b) x = dirt s x.
Proof.
  intros H. unfold set_balance, set_obj; sdb_simp. rewrite push_dirt. simpl. unfold dinc.
  rewrite upd_other by assumption. apply get_or_new_dirt_other; assumption.
Qed.
Lemma set_balance_dirt_same s a b :
  (forall c, dirt s a = Some c -> 0 <= c) -> exists c, dirt (set_balance s a b) a = Some c /\ 0 < c.
Proof.
  intros Hc. unfold set_balance, set_obj; sdb_simp. rewrite push_dirt. simpl. unfold dinc. rewrite upd_same.
  pose proof (get_or_new_dirt_same s a Hc) as H.
  destruct (dirt (get_or_new s a) a) as [c|]; eexists; split; try reflexivity; lia.
Qed.

(** what must hold at [a] for a sync of [a] to establish [Rat] there *)
Definition presync (s : sdb) (r' : rstate) (a : addr) : Prop :=
  exists o y', lookup s a = Some o /\ r_accs r' a = Some y' /\
    rb y' = to_wei (bank_bal (cur_store s) a) /\ nonce o = rn y' /\ code o = rc y' /\ suicided o = rs y' /\
    (forall c, dirt s a = Some c -> 0 <= c) /\
    (forall k, r_stor r' a k = st (txs s) a o k) /\
    obj_good (txs s) (cur_store s) a o /\
    (r_wr r' a = false -> rs y' = false ->
       (forall k, stor (cur_store s) a k = stor (txs s) a k) /\ trivial_dirty (txs s) a o) /\
    (bank_bal (cur_store s) a = r_base r' a).

Lemma sync_gen s r' a : presync s r' a -> Rat (sync s a) r' a.
Proof.
  intros (o&y'&L&A&B&N&C&S&Hc&St&G&W&Bl). apply Rat_gen. unfold updd, sync.
  exists (w_bal o (to_wei (bank_bal (cur_store s) a))), y'.
  rewrite set_balance_txs, set_balance_cur, set_balance_lookup_same. unfold the_obj. rewrite L.
  destruct (set_balance_dirt_same s a (to_wei (bank_bal (cur_store s) a)) Hc) as (c&Hd&Hp).
  split; [reflexivity|]. split; [exact A|]. split; [repeat split; simpl; congruence|].
  split; [intros c0 Hc0; rewrite Hd in Hc0; inversion Hc0; lia|].
  split; [intros [E|E]; rewrite Hd in E; inversion E; lia|].
  split; [exact St|]. split; [exact G|]. split; [exact W | exact Bl].
Qed.

Lemma sync_unch s r' a x : x <> a -> Rat s r' x -> Rat (sync s a) r' x.
Proof.
  intros Hx HA. apply (Rat_unch s _ r' r' x HA); [apply set_balance_txs | apply set_balance_cf |].
  unfold unch, sync. rewrite set_balance_cur, set_balance_lookup_other, set_balance_dirt_other by assumption.
  repeat split; auto.
Qed.

Lemma presync_unch s r' a x : x <> a -> presync s r' x -> presync (sync s a) r' x.
Proof.
  intros Hx (o&y'&L&A&B&N&C&S&Hc&St&G&W&Bl). exists o, y'. unfold sync.
  rewrite set_balance_txs, set_balance_cur, set_balance_lookup_other, set_balance_dirt_other by assumption.
  split; [exact L|]. split; [exact A|]. split; [exact B|]. split; [exact N|]. split; [exact C|]. split; [exact S|].
  split; [exact Hc|]. split; [exact St|]. split; [exact G|]. split; [exact W | exact Bl].
Qed.

Lemma presync_of_Rat s r' a o y' :
  Rat s r' a -> lookup s a = Some o -> r_accs r' a = Some y' ->
  rb y' = to_wei (bank_bal (cur_store s) a) -> presync s r' a.
Proof.
  intros HA L A B. exists o, y'. pose proof (A_acc s r' a HA) as M. rewrite L, A in M. destruct M as (M1&M2&M3&M4).
  split; [exact L|]. split; [exact A|]. split; [exact B|]. split; [exact M2|]. split; [exact M3|]. split; [exact M4|].
  split; [apply (A_cnt s r' a HA)|].
  split; [intros k; rewrite (A_sto s r' a HA k), L; reflexivity|].
  split; [apply (A_good s r' a HA o L)|]. split; [|apply (A_base s r' a HA)].
  intros Hw Hs. assert (Hs' : rs (r_get r' a) = false) by (unfold r_get; rewrite A; exact Hs).
  destruct (A_wr s r' a HA Hw Hs') as [W1 W2]. split; [exact W1 | apply W2; exact L].
Qed.

Definition nonce_of (c : store) (x : addr) : Z := match accs c x with Some a => a_nonce a | None => 0 end.
Definition code_of (c : store) (x : addr) : Z := match accs c x with Some a => a_code a | None => 0 end.

Lemma bm_stor c f t amt : stor (bank_move c f t amt) = stor c. Proof. reflexivity. Qed.
Lemma bm_other c f t amt x : x <> f -> x <> t -> accs (bank_move c f t amt) x = accs c x.
Proof. intros H1 H2. unfold bank_move. simpl. rewrite !upd_other by assumption. reflexivity. Qed.

Lemma bm_acc c f t amt x : x = f \/ x = t ->
  accs (bank_move c f t amt) x =
    Some {| a_bal := bank_bal c x - (if x =? f then amt else 0) + (if x =? t then amt else 0);
            a_nonce := nonce_of c x; a_code := code_of c x |}.
Proof.
  intros Hx. unfold bank_move, bank_bal, nonce_of, code_of. simpl.
  destruct (Z.eqb_spec x t) as [->|Hnt].
  - rewrite upd_same. unfold upd. destruct (Z.eqb_spec t f) as [->|Hne].
    + destruct (accs c f); simpl; f_equal; f_equal; lia.
    + destruct (accs c t); simpl; f_equal; f_equal; lia.
  - destruct Hx as [-> | ->]; [|contradiction]. rewrite upd_other by assumption. rewrite upd_same.
    rewrite Z.eqb_refl. destruct (accs c f); simpl; f_equal; f_equal; lia.
Qed.

Lemma bm_bal c f t amt x :
  bank_bal (bank_move c f t amt) x = bank_bal c x - (if x =? f then amt else 0) + (if x =? t then amt else 0).
Proof.
  destruct (Z.eq_dec x f) as [Hf|Hf]; [|destruct (Z.eq_dec x t) as [Ht|Ht]].
  - unfold bank_bal at 1. rewrite bm_acc by (left; assumption). reflexivity.
  - unfold bank_bal at 1. rewrite bm_acc by (right; assumption). reflexivity.
  - unfold bank_bal at 1. rewrite bm_other by assumption. fold (bank_bal c x).
    destruct (Z.eqb_spec x f); [contradiction|]. destruct (Z.eqb_spec x t); [contradiction|]. lia.
Qed.

(** the state after the bank moved the coins, before the syncs: what a sync of [x] will find *)
Lemma presync_moved s r r' c f t amt x y' :
  R s r -> cache s = Some c -> x = f \/ x = t ->
  rs (r_get r x) = false ->
  r_accs r' x = Some y' ->
  rb y' = to_wei (bank_bal (bank_move c f t amt) x) -> rn y' = rn (r_get r x) -> rc y' = rc (r_get r x) ->
  rs y' = false ->
  (forall k, r_stor r' x k = r_stor r x k) -> r_wr r' x = r_wr r x ->
  bank_bal (bank_move c f t amt) x = r_base r' x ->
  presync (with_cache s (Some (bank_move c f t amt))) r' x.
Proof.
  intros HR Hc Hx Hsx A B N C S St Wr Bb.
  set (c1 := bank_move c f t amt). set (sA := with_cache s (Some c1)).
  assert (Hcur : cur_store s = c) by (unfold cur_store; rewrite Hc; reflexivity).
  pose proof (R_acc s r HR x) as Ha.
  assert (Hl : exists o', lookup sA x = Some o' /\
            nonce o' = rn (r_get r x) /\ code o' = rc (r_get r x) /\ suicided o' = false /\
            (forall k, r_stor r x k = st (txs s) x o' k) /\ obj_good (txs s) c x o' /\
            (r_wr r x = false -> (forall k, stor c x k = stor (txs s) x k) /\ trivial_dirty (txs s) x o')).
  { unfold lookup at 1. subst sA. sdb_simp. unfold cur_store at 1. sdb_simp.
    destruct (objs s x) as [o|] eqn:Ho.
    - pose proof (lookup_objs s x o Ho) as Hl. rewrite Hl in Ha.
      destruct (r_accs r x) as [y|] eqn:Hy; [|contradiction]. destruct Ha as (A1&A2&A3&A4).
      assert (Hg : r_get r x = y) by (unfold r_get; rewrite Hy; reflexivity).
      exists o. split; [reflexivity|]. rewrite Hg. split; [exact A2|]. split; [exact A3|].
      split; [rewrite Hg in Hsx; congruence|].
      split; [intros k; rewrite (R_sto s r HR x k), Hl; reflexivity|].
      split; [rewrite <- Hcur; apply (R_good s r HR x o Hl)|].
      intros Hw. rewrite <- Hcur.
      destruct (R_wr s r HR x Hw Hsx) as [W1 W2]. split; [exact W1 | apply W2; exact Hl].
    - fold c1. unfold c1. rewrite (bm_acc c f t amt x Hx). eexists. split; [reflexivity|].
      unfold lookup in Ha. rewrite Ho, Hcur in Ha.
      assert (Hsto : forall k, r_stor r x k = stor (txs s) x k).
      { intros k. rewrite (R_sto s r HR x k). unfold lookup. rewrite Ho, Hcur.
        destruct (accs c x) eqn:Hacc; [reflexivity|]. rewrite <- Hcur. apply (R_absent s r HR x).
        unfold lookup. rewrite Ho, Hcur, Hacc. reflexivity. }
      assert (Hsc : forall k, stor c x k = stor (txs s) x k).
      { intros k. destruct (accs c x) eqn:Hacc.
        - assert (Hl : lookup s x = Some (load_obj a)) by (unfold lookup; rewrite Ho, Hcur, Hacc; reflexivity).
          destruct (R_good s r HR x _ Hl) as (G1&_&_). rewrite <- Hcur. symmetry. apply (G1 eq_refl k eq_refl).
        - rewrite <- Hcur. apply (R_absent s r HR x). unfold lookup. rewrite Ho, Hcur, Hacc. reflexivity. }
      unfold nonce_of, code_of, r_get. simpl.
      destruct (accs c x) as [a0|], (r_accs r x) as [y|]; try contradiction.
      + destruct Ha as (A1&A2&A3&A4). simpl in *.
        split; [exact A2|]. split; [exact A3|]. split; [reflexivity|].
        split; [exact Hsto|]. split; [|intros _; split; [exact Hsc | intros k v Hv; discriminate]].
        split; [|split]; simpl; try discriminate; [|intros k Hk; contradiction].
        intros _ k _. unfold comm. simpl. symmetry. apply Hsc.
      + simpl. split; [reflexivity|]. split; [reflexivity|]. split; [reflexivity|].
        split; [exact Hsto|]. split; [|intros _; split; [exact Hsc | intros k v Hv; discriminate]].
        split; [|split]; simpl; try discriminate; [|intros k Hk; contradiction].
        intros _ k _. unfold comm. simpl. symmetry. apply Hsc. }
  destruct Hl as (o'&L&N'&C'&S'&St'&G'&W').
  exists o', y'. change (txs sA) with (txs s). change (cur_store sA) with c1. change (dirt sA) with (dirt s).
  split; [exact L|]. split; [exact A|]. split; [exact B|]. split; [congruence|]. split; [congruence|]. split; [congruence|].
  split; [apply (R_cnt s r HR x)|].
  split; [intros k; rewrite St; apply St'|].
  split; [exact G'|]. split; [|exact Bb].
  intros Hw _. rewrite Wr in Hw. apply W'; exact Hw.
Qed.

Lemma r_get_set_same r a x : r_get (r_set r a x) a = x.
Proof. unfold r_get. rewrite r_set_same. reflexivity. Qed.
Lemma r_get_set_other r a x b : b <> a -> r_get (r_set r a x) b = r_get r b.
Proof. intros H. unfold r_get. rewrite r_set_other by assumption. reflexivity. Qed.

Lemma r_setb_same r a x b : r_accs (r_setb r a x b) a = Some x.
Proof. unfold r_setb; simpl. apply upd_same. Qed.
Lemma r_setb_other r a x b y : y <> a -> r_accs (r_setb r a x b) y = r_accs r y.
Proof. intros H. unfold r_setb; simpl. apply upd_other; assumption. Qed.
Lemma r_get_setb_same r a x b : r_get (r_setb r a x b) a = x.
Proof. unfold r_get. rewrite r_setb_same. reflexivity. Qed.
Lemma r_get_setb_other r a x b y : y <> a -> r_get (r_setb r a x b) y = r_get r y.
Proof. intros H. unfold r_get. rewrite r_setb_other by assumption. reflexivity. Qed.
Lemma r_base_setb_same r a x b : r_base (r_setb r a x b) a = b.
Proof. unfold r_setb; simpl. apply upd_same. Qed.
Lemma r_base_setb_other r a x b y : y <> a -> r_base (r_setb r a x b) y = r_base r y.
Proof. intros H. unfold r_setb; simpl. apply upd_other; assumption. Qed.

Lemma bank_send_sync s c f t amt :
  cache s = Some c -> (amt <=? 0) || (bank_bal c f <? amt) = false ->
  bank_send s f t amt = sync (sync (with_cache s (Some (bank_move c f t amt))) f) t.
Proof.
  intros Hc Hg. unfold bank_send, sync. rewrite Hc, Hg. rewrite set_balance_cur. reflexivity.
Qed.

Lemma lookup_moved_other s c c1 x :
  cache s = Some c -> accs c1 x = accs c x -> lookup (with_cache s (Some c1)) x = lookup s x.
Proof.
  intros Hc H. unfold lookup, cur_store. sdb_simp. rewrite Hc, H. reflexivity.
Qed.

Lemma is_bl_false r a : is_bl r a = false -> ~ In a (r_bl r).
Proof.
  unfold is_bl. intros H Hin. assert (existsb (Z.eqb a) (r_bl r) = true); [|congruence].
  apply existsb_exists. exists a. split; [exact Hin | apply Z.eqb_refl].
Qed.

(** a bank send with its two syncs keeps the simulation; the reference moves the BANK's balances
    ([r_base]) and sets the EVM balances of both parties to them *)
Lemma sim_bank_send s r f t amt :
  R s r -> cache s <> None -> wf_send r (f, t, amt) = true ->
  R (bank_send s f t amt) (r_send r f t amt).
Proof.
  intros HR Hcn Hwf. destruct (cache s) as [c|] eqn:Hc; [|contradiction]. clear Hcn.
  unfold wf_send in Hwf. simpl in Hwf. apply andb_true_iff in Hwf as [Hwf _].
  apply andb_true_iff in Hwf as [Hwf _]. apply andb_true_iff in Hwf as [Hsf Hst].
  apply negb_true_iff in Hsf. apply negb_true_iff in Hst.
  assert (Hcur : cur_store s = c) by (unfold cur_store; rewrite Hc; reflexivity).
  assert (Bv : forall x, bank_bal c x = r_base r x) by (intros x; rewrite <- Hcur; apply (R_base s r HR x)).
  unfold r_send. rewrite <- (Bv f).
  destruct ((amt <=? 0) || (bank_bal c f <? amt)) eqn:Hg.
  { unfold bank_send. rewrite Hc, Hg. exact HR. }
  rewrite (bank_send_sync s c f t amt Hc Hg).
  set (c1 := bank_move c f t amt). set (sA := with_cache s (Some c1)).
  set (yf := rw_b (r_get r f) (to_wei (bank_bal c f - amt))).
  set (r1 := r_setb r f yf (bank_bal c f - amt)).
  set (yt := rw_b (r_get r1 t) (to_wei (r_base r1 t + amt))).
  set (r' := r_setb r1 t yt (r_base r1 t + amt)).
  assert (Hb1t : r_base r1 t + amt = bank_bal c1 t).
  { unfold c1. rewrite bm_bal, Z.eqb_refl. unfold r1. destruct (Z.eqb_spec t f) as [E|Hne].
    - rewrite E, r_base_setb_same. lia.
    - rewrite (r_base_setb_other r f yf (bank_bal c f - amt) t Hne). rewrite <- (Bv t). lia. }
  assert (Ht' : r_accs r' t = Some yt) by apply r_setb_same.
  assert (Hbt : bank_bal c1 t = r_base r' t) by (unfold r'; rewrite r_base_setb_same; symmetry; exact Hb1t).
  assert (Hyt : rb yt = to_wei (bank_bal c1 t) /\ rn yt = rn (r_get r t) /\ rc yt = rc (r_get r t) /\ rs yt = false).
  { unfold yt. rewrite Hb1t. unfold r1. destruct (Z.eq_dec t f) as [E|Hne].
    - rewrite E, r_get_setb_same. unfold yf. simpl. repeat split; auto.
    - rewrite r_get_setb_other by assumption. simpl. repeat split; auto. }
  destruct Hyt as (Yt1&Yt2&Yt3&Yt4).
  assert (PSt : t <> f -> presync sA r' t).
  { intros Hne. apply (presync_moved s r r' c f t amt t yt HR Hc (or_intror eq_refl) Hst Ht' Yt1 Yt2 Yt3 Yt4); try reflexivity.
    exact Hbt. }
  assert (Hf' : exists y, r_accs r' f = Some y /\ rb y = to_wei (bank_bal c1 f) /\ rn y = rn (r_get r f) /\
                          rc y = rc (r_get r f) /\ rs y = false /\ bank_bal c1 f = r_base r' f).
  { destruct (Z.eq_dec f t) as [E|Hne].
    - exists yt. rewrite E at 1. split; [exact Ht'|]. rewrite E. repeat split; assumption.
    - exists yf. split; [unfold r'; rewrite r_setb_other by assumption; apply r_setb_same|].
      assert (Hbf : bank_bal c1 f = bank_bal c f - amt).
      { unfold c1. rewrite bm_bal, Z.eqb_refl. destruct (Z.eqb_spec f t); [contradiction|]. lia. }
      rewrite Hbf. split; [reflexivity|]. split; [reflexivity|]. split; [reflexivity|]. split; [exact Hsf|].
      unfold r'. rewrite r_base_setb_other by assumption. unfold r1. rewrite r_base_setb_same. reflexivity. }
  destruct Hf' as (y&Hy&Y1&Y2&Y3&Y4&Y5).
  assert (PSf : presync sA r' f).
  { apply (presync_moved s r r' c f t amt f y HR Hc (or_introl eq_refl) Hsf Hy Y1 Y2 Y3 Y4); try reflexivity. exact Y5. }
  assert (RAf : Rat (sync sA f) r' f) by (apply sync_gen; exact PSf).
  assert (PSt' : presync (sync sA f) r' t).
  { destruct (Z.eq_dec t f) as [E|Hne].
    - rewrite E. unfold sync at 1. eapply presync_of_Rat; [exact RAf | apply set_balance_lookup_same | exact Hy |].
      unfold sync. rewrite set_balance_cur. exact Y1.
    - apply presync_unch; [exact Hne | apply PSt; exact Hne]. }
  assert (Hoth : forall x, x <> f -> x <> t -> accs c1 x = accs c x) by (intros; apply bm_other; assumption).
  split.
  - unfold sync. rewrite !set_balance_aux. apply (R_aux s r HR).
  - intros x. destruct (Z.eq_dec x t) as [->|Hxt]; [apply sync_gen; exact PSt'|].
    apply sync_unch; [exact Hxt|].
    destruct (Z.eq_dec x f) as [->|Hxf]; [exact RAf|].
    apply sync_unch; [exact Hxf|].
    destruct HR as [_ HR']. apply (Rat_unch s sA r r' x (HR' x) eq_refl eq_refl).
    unfold unch. change (cur_store sA) with c1. rewrite Hcur, (Hoth x Hxf Hxt).
    split; [apply (lookup_moved_other s c c1 x Hc (Hoth x Hxf Hxt))|].
    split; [reflexivity|]. split; [reflexivity|]. split; [reflexivity|].
    unfold r', r1. split; [rewrite !r_setb_other by assumption; reflexivity|]. split; [reflexivity|].
    split; [reflexivity|]. rewrite !r_base_setb_other by assumption. reflexivity.
Qed.

(** ERC20-style storage update *)
Lemma sim_inc_state mx s r a k d : R s r -> R (inc_state s a k d) (rrun mx (OIncState a k d) r).
Proof.
  intros HR. unfold inc_state. rewrite <- (the_obj_sto s r a k HR).
  apply (sim_set_state s r a k (r_stor r a k + d) HR).
Qed.
