(** C04 proofs, part 5 (P3/P4): every forward operation keeps the simulation relation in
    lock-step with the reference. *)
From Coq Require Import ZArith List Bool Lia.
Import ListNotations.
Local Open Scope Z_scope.
Require Import Nib.C04.Model Nib.C04.ProofsBase Nib.C04.ProofsUndo Nib.C04.ProofsOps Nib.C04.ProofsInv.

(** pointwise equality of reference states (the ghost [r_wr] may only grow) *)
Definition req (r r' : rstate) : Prop :=
  (forall a, r_accs r a = r_accs r' a) /\ (forall a k, r_stor r a k = r_stor r' a k) /\
  auxeq (r_aux r) (r_aux r') /\ (forall a, r_wr r' a = false -> r_wr r a = false).

Lemma req_refl r : req r r.
Proof. repeat split; auto. Qed.
Lemma req_trans r1 r2 r3 : req r1 r2 -> req r2 r3 -> req r1 r3.
Proof.
  intros (A&B&C&D) (A'&B'&C'&D'). split; [intros; congruence|]. split; [intros; congruence|].
  split; [eapply auxeq_trans; eauto|]. auto.
Qed.

Lemma R_req s r r' : R s r -> req r r' -> R s r'.
Proof.
  intros HR (A&B&C&D). constructor.
  - eapply auxeq_trans; [apply HR | exact C].
  - apply HR.
  - intros a. rewrite <- A. apply HR.
  - intros a k. rewrite <- B. apply HR.
  - apply HR.
  - apply HR.
  - apply HR.
  - intros a Hw Hs. unfold r_get in Hs. rewrite <- A in Hs. apply (R_wr s r HR a); auto.
Qed.

Lemma R_le s s' r : R s r -> le s s' -> R s' r.
Proof. intros HR HL. eapply R_req; [apply (R_mono s s' r (r_calls r) HR HL)|]. repeat split; auto. Qed.

Lemma r_set_same r a x : r_accs (r_set r a x) a = Some x.
Proof. unfold r_set; simpl. apply upd_same. Qed.
Lemma r_set_other r a x b : b <> a -> r_accs (r_set r a x) b = r_accs r b.
Proof. intros H. unfold r_set; simpl. apply upd_other; assumption. Qed.

Lemma r_set_off r a y x : x <> a ->
  r_accs (r_set r a y) x = r_accs r x /\ (forall k, r_stor (r_set r a y) x k = r_stor r x k) /\
  r_wr (r_set r a y) x = r_wr r x.
Proof. intros H. split; [apply r_set_other; assumption|]. split; reflexivity. Qed.

(** obj_good / trivial_dirty only depend on the storage fields *)
Lemma obj_good_scalar t cur a o o' :
  origin o' = origin o -> dirty o' = dirty o -> (suicided o' = false -> suicided o = false) ->
  obj_good t cur a o -> obj_good t cur a o'.
Proof.
  intros Ho Hd Hs (G1&G2&G3). unfold obj_good, comm. rewrite Ho, Hd. split; [|split; assumption].
  intros H. apply G1. auto.
Qed.

(** ---- getOrNewStateObject ---- *)
Lemma sim_get_or_new s r a : R s r -> R (get_or_new s a) (r_set r a (r_get r a)).
Proof.
  intros HR. unfold get_or_new. destruct (lookup s a) as [o|] eqn:Hl.
  - eapply R_req; [apply (R_le s (cached s a) r HR (le_cached s a))|].
    pose proof (R_acc s r HR a) as Ha. rewrite Hl in Ha.
    split; [|repeat split; auto].
    intros x. unfold r_set; simpl. unfold upd. destruct (Z.eqb_spec x a) as [->|]; [|reflexivity].
    unfold r_get. destruct (r_accs r a); [reflexivity|contradiction].
  - set (s' := set_obj (push s (ECreate a)) a (new_obj 0 0 0)).
    assert (T : txs s' = txs s) by (subst s'; unfold set_obj; sdb_simp; apply push_txs).
    assert (Cu : cur_store s' = cur_store s) by (subst s'; unfold cur_store, set_obj; sdb_simp; rewrite push_cache, push_txs; reflexivity).
    pose proof (R_acc s r HR a) as Ha. rewrite Hl in Ha.
    assert (Hra : r_get r a = {| rb := 0; rn := 0; rc := 0; rs := false |}) by (unfold r_get; destruct (r_accs r a); [contradiction|reflexivity]).
    apply (R_step s s' r _ HR T).
    + subst s'. unfold set_obj; sdb_simp. rewrite push_aux. apply HR.
    + intros x. destruct (Z.eq_dec x a) as [->|Hne].
      * right. unfold updd. exists (new_obj 0 0 0), (r_get r a). rewrite T, Cu.
        assert (Hd : dirt s' a = Some (match dirt s a with Some c => c + 1 | None => 1 end)).
        { subst s'. unfold set_obj; sdb_simp. rewrite push_dirt. simpl. unfold dinc. apply upd_same. }
        pose proof (R_cnt s r HR a) as Hc.
        split; [subst s'; apply lookup_set_same|]. split; [apply r_set_same|].
        split; [rewrite Hra; repeat split|].
        split; [intros c0 Hc0; rewrite Hd in Hc0; inversion Hc0; destruct (dirt s a) as [c|]; [specialize (Hc c eq_refl)|]; lia|].
        split; [intros [E|E]; rewrite Hd in E; inversion E; destruct (dirt s a) as [c|]; [specialize (Hc c eq_refl)|]; lia|].
        split; [intros k; simpl; rewrite (R_sto s r HR a k), Hl; unfold st, comm; simpl; apply (R_absent s r HR a Hl)|].
        split.
        -- pose proof (the_obj_good s r a HR) as G. unfold the_obj in G. rewrite Hl in G. exact G.
        -- intros Hw Hs. simpl in Hw. destruct (R_wr s r HR a Hw Hs) as [W1 _]. split; [exact W1|].
           intros k v Hv. discriminate.
      * left. unfold unch. rewrite Cu.
        split; [subst s'; rewrite lookup_set_other, lookup_push by assumption; reflexivity|].
        split; [subst s'; unfold set_obj; sdb_simp; rewrite push_dirt; simpl; unfold dinc; apply upd_other; assumption|].
        destruct (r_set_off r a (r_get r a) x Hne) as (O1&O2&O3). repeat split; auto.
Qed.

(** ---- scalar setters: balance, nonce, code ---- *)
Lemma sim_scalar s r a e (f : obj -> obj) (g : racct -> racct) :
  R s r -> dirtied e = Some a ->
  (forall o, origin (f o) = origin o /\ dirty (f o) = dirty o /\ suicided (f o) = suicided o) ->
  (forall x, rs (g x) = rs x) ->
  (forall o x, omatch o x -> omatch (f o) (g x)) ->
  R (set_obj (push (get_or_new s a) e) a (f (the_obj s a))) (r_set r a (g (r_get r a))).
Proof.
  intros HR Hd Hf Hg Hm. destruct (Hf (the_obj s a)) as (F1&F2&F3).
  apply (mutator_R s r _ a e _ (g (r_get r a)) HR Hd).
  - reflexivity.
  - intros x Hx. apply r_set_off; exact Hx.
  - apply r_set_same.
  - apply Hm, the_obj_match; exact HR.
  - intros k. simpl. rewrite (the_obj_sto s r a k HR). unfold st, comm. rewrite F1, F2. reflexivity.
  - apply (obj_good_scalar _ _ _ (the_obj s a)); auto; [congruence | apply (the_obj_good s r a HR)].
  - simpl. rewrite Hg. intros Hw Hs. destruct (the_obj_wr s r a HR Hw Hs) as [W1 W2]. split; [exact W1|].
    unfold trivial_dirty, comm. rewrite F1, F2. exact W2.
Qed.

Lemma sim_set_balance s r a b : R s r -> R (set_balance s a b) (r_set r a (rw_b (r_get r a) b)).
Proof.
  intros HR. unfold set_balance.
  apply (sim_scalar s r a (EBalance a (bal (the_obj s a))) (fun o => w_bal o b) (fun x => rw_b x b) HR); auto.
  intros o x (A&B&C&D). repeat split; auto.
Qed.

Lemma sim_set_nonce s r a n : R s r -> R (set_nonce s a n) (r_set r a (rw_n (r_get r a) n)).
Proof.
  intros HR. unfold set_nonce.
  apply (sim_scalar s r a (ENonce a (nonce (the_obj s a))) (fun o => w_nonce o n) (fun x => rw_n x n) HR); auto.
  intros o x (A&B&C&D). repeat split; auto.
Qed.

Lemma sim_set_code s r a c : R s r -> R (set_code s a c) (r_set r a (rw_c (r_get r a) c)).
Proof.
  intros HR. unfold set_code.
  apply (sim_scalar s r a (ECode a (code (the_obj s a))) (fun o => w_code o c) (fun x => rw_c x c) HR); auto.
  intros o x (A&B&C&D). repeat split; auto.
Qed.

Lemma sim_add_balance s r a amt : R s r -> R (add_balance s a amt) (r_add r a amt).
Proof.
  intros HR. unfold add_balance, r_add. destruct (Z.eqb_spec amt 0) as [->|Hne].
  - eapply R_req; [apply sim_get_or_new; exact HR|].
    split; [|repeat split; auto]. intros x. unfold r_set; simpl. unfold upd.
    destruct (Z.eqb x a); [|reflexivity]. f_equal. destruct (r_get r a); unfold rw_b; simpl. f_equal. lia.
  - pose proof (the_obj_match s r a HR) as (Hb&_). rewrite Hb. apply sim_set_balance; exact HR.
Qed.

Lemma sim_cached s r a : R s r -> R (cached s a) r.
Proof. intros HR. apply (R_le s _ r HR (le_cached s a)). Qed.

Lemma sim_sub_balance s r a amt :
  R s r -> R (sub_balance s a amt) (if rb (r_get r a) <? amt then r else r_add r a (- amt)).
Proof.
  intros HR. unfold sub_balance. pose proof (the_obj_match s r a HR) as (Hb&_). rewrite Hb.
  destruct (_ <? _); [apply sim_cached | apply sim_add_balance]; exact HR.
Qed.

(** ---- SetState ---- *)
Definition r_sstore (r : rstate) (a : addr) (k : key) (v : word) : rstate :=
  {| r_accs := r_accs (r_set r a (r_get r a));
     r_stor := fun a' k' => if Z.eqb a' a && Z.eqb k' k then v else r_stor r a' k';
     r_aux := r_aux r; r_wr := upd (r_wr r) a true; r_calls := r_calls r |}.

Lemma st_cache_origin t a o k k' : st t a (cache_origin t a o k) k' = st t a o k'.
Proof. apply ole_st, ole_cache_origin. Qed.

Lemma obj_good_cache_origin t cur a o k : obj_good t cur a o -> obj_good t cur a (cache_origin t a o k).
Proof.
  intros (G1&G2&G3). unfold cache_origin. destruct (dirty o k) eqn:Hd; [repeat split; assumption|].
  destruct (origin o k) eqn:Ho; [repeat split; assumption|].
  split; [|split].
  - simpl. intros Hs k' Hd'. rewrite <- (G1 Hs k' Hd'). unfold comm. simpl. unfold upd.
    destruct (Z.eqb_spec k' k) as [->|]; [rewrite Ho; reflexivity|reflexivity].
  - simpl. intros k' v. unfold upd. destruct (Z.eqb_spec k' k) as [->|]; [intros H; inversion H; reflexivity|apply G2].
  - simpl. intros k' Hd'. unfold upd. destruct (Z.eqb_spec k' k) as [->|]; [discriminate|apply G3; exact Hd'].
Qed.

Lemma sim_set_state s r a k v : R s r -> R (set_state s a k v) (r_sstore r a k v).
Proof.
  intros HR. unfold set_state.
  set (o := the_obj s a). set (s1 := get_or_new s a). set (o1 := cache_origin (txs s) a o k).
  pose proof (the_obj_good s r a HR) as G. fold o in G.
  pose proof (obj_good_cache_origin _ _ a o k G) as G1. fold o1 in G1.
  destruct (Z.eqb_spec (st (txs s) a o k) v) as [Hv|Hv].
  - assert (HR1 : R s1 (r_set r a (r_get r a))) by (apply sim_get_or_new; exact HR).
    assert (Ho : objs s1 a = Some o) by apply get_or_new_objs.
    assert (Ht : txs s1 = txs s) by apply get_or_new_txs.
    eapply R_req; [apply (R_le s1 _ _ HR1 (le_set_obj s1 a o o1 Ho ltac:(rewrite Ht; apply ole_cache_origin)))|].
    split; [reflexivity|]. split; [|split; [apply auxeq_refl|]].
    + intros x y. simpl. destruct (Z.eqb_spec x a) as [->|]; simpl; [|reflexivity].
      destruct (Z.eqb_spec y k) as [->|]; simpl; [|reflexivity].
      rewrite (the_obj_sto s r a k HR). exact Hv.
    + intros x. simpl. unfold upd. destruct (Z.eqb x a); [discriminate|auto].
  - apply (mutator_R s r (r_sstore r a k v) a (EStorage a k (st (txs s) a o k)) (w_dirty o1 k v) (r_get r a) HR eq_refl).
    + reflexivity.
    + intros x Hx. simpl. split; [apply r_set_other; exact Hx|]. split.
      * intros y. destruct (Z.eqb_spec x a); [contradiction|reflexivity].
      * apply upd_other; exact Hx.
    + simpl. apply upd_same.
    + pose proof (the_obj_match s r a HR) as M. fold o in M. destruct M as (A&B&C&D).
      unfold o1, cache_origin. destruct (dirty o k); [repeat split; assumption|].
      destruct (origin o k); repeat split; assumption.
    + intros y. simpl. rewrite Z.eqb_refl. simpl. unfold st at 1. simpl. unfold upd.
      destruct (Z.eqb_spec y k) as [->|Hne]; [reflexivity|].
      change (r_stor r a y = st (txs s) a o1 y).
      unfold o1. rewrite st_cache_origin. apply (the_obj_sto s r a y HR).
    + destruct G1 as (H1&H2&H3). split; [|split].
      * simpl. intros Hs y. unfold upd. destruct (Z.eqb_spec y k) as [->|]; [discriminate|]. intros Hd.
        apply (H1 Hs y Hd).
      * exact H2.
      * simpl. intros y. unfold upd. destruct (Z.eqb_spec y k) as [->|]; [|apply H3].
        intros _. destruct (dirty o k) eqn:Hd.
        -- unfold o1, cache_origin. rewrite Hd. destruct G as (_&_&G3). apply G3. congruence.
        -- apply cache_origin_defined; exact Hd.
    + simpl. rewrite upd_same. discriminate.
Qed.

Lemma sim_read_state s r a k : R s r -> R (read_state s a k) r.
Proof.
  intros HR. pose proof (read_state_ok s a k) as H.
  (* read_state only refines: derive le directly *)
  unfold read_state in *. destruct (lookup s a) as [o|] eqn:Hl; [|exact HR].
  assert (HR1 : R (cached s a) r) by (apply sim_cached; exact HR).
  apply (R_le _ _ r HR1). apply (le_set_obj (cached s a) a o); [rewrite objs_cached; exact Hl|].
  rewrite cached_txs. apply ole_cache_origin.
Qed.

Lemma sim_touch s r a : R s r -> R (touch s a) r.
Proof.
  intros HR. unfold touch. assert (HR1 : R (cached s a) r) by (apply sim_cached; exact HR).
  apply (R_le _ _ r HR1).
  apply le_intro; try reflexivity; try apply auxeq_refl.
  - intros x; apply dle_refl.
  - intros x. split; [|auto]. unfold lookrel. rewrite lookup_with_out. destruct (lookup _ x); [apply ole_refl|exact I].
Qed.
