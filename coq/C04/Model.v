(** C04 — executable model of x/evm/statedb (journal + dirty tracking + state-object cache) on top
    of the two store layers (evmTxCtx store, optional cacheCtx branch written by precompiles),
    next to the copy-on-frame reference semantics.  NO PROOFS in this file.

    The model follows the code of /repo HEAD (repair "v4", commit 72672e0):
      - [PrecompileCalled] snapshots the cache multistore, the dirty counts and the set of cached
        state objects; its Revert puts all three back (objects cached later are evicted);
      - the intermediate commit ([CommitCacheCtx], final=false) writes every dirty slot through,
        never touches OriginStorage and keeps self-destructed objects cached.
    The behaviour before that commit is kept behind [repaired := false].

    Maps are total functions; the commit is written pointwise (one equation per address / slot)
    which is equivalent to Go's loops over sortedDirties / DirtyStorage.SortedKeys because the
    writes of distinct addresses and slots commute. *)
From Coq Require Import ZArith List Bool.
Import ListNotations.
Local Open Scope Z_scope.

Definition addr := Z.
Definition key := Z.
Definition word := Z.

Definition upd {V} (m : Z -> V) (k : Z) (v : V) : Z -> V :=
  fun k' => if Z.eqb k' k then v else m k'.

Definition wei_per_unibi : Z := 1000000000000.
Definition to_native (w : Z) : Z := w / wei_per_unibi.
Definition to_wei (n : Z) : Z := n * wei_per_unibi.

(** ---- the backing stores (auth account + bank unibi balance + evm contract storage) ---- *)
Record acct := { a_bal : Z (* unibi *); a_nonce : Z; a_code : Z (* code id, 0 = none *) }.
Record store := { accs : addr -> option acct; stor : addr -> key -> word }.

Definition bank_bal (t : store) (a : addr) : Z :=
  match accs t a with Some x => a_bal x | None => 0 end.

(** ---- state objects ---- *)
Record obj := {
  bal : Z (* wei *); nonce : Z; code : Z; suicided : bool;
  origin : key -> option word;   (* OriginStorage *)
  dirty : key -> option word     (* DirtyStorage *)
}.

Definition new_obj (b n c : Z) : obj :=
  {| bal := b; nonce := n; code := c; suicided := false; origin := fun _ => None; dirty := fun _ => None |}.
Definition load_obj (x : acct) : obj := new_obj (to_wei (a_bal x)) (a_nonce x) (a_code x).

Definition w_bal (o : obj) b :=
  {| bal := b; nonce := nonce o; code := code o; suicided := suicided o; origin := origin o; dirty := dirty o |}.
Definition w_nonce (o : obj) n :=
  {| bal := bal o; nonce := n; code := code o; suicided := suicided o; origin := origin o; dirty := dirty o |}.
Definition w_code (o : obj) c :=
  {| bal := bal o; nonce := nonce o; code := c; suicided := suicided o; origin := origin o; dirty := dirty o |}.
Definition w_sui (o : obj) b :=
  {| bal := bal o; nonce := nonce o; code := code o; suicided := b; origin := origin o; dirty := dirty o |}.
Definition w_dirty (o : obj) k v :=
  {| bal := bal o; nonce := nonce o; code := code o; suicided := suicided o; origin := origin o;
     dirty := upd (dirty o) k (Some v) |}.
Definition w_origin (o : obj) k v :=
  {| bal := bal o; nonce := nonce o; code := code o; suicided := suicided o;
     origin := upd (origin o) k (Some v); dirty := dirty o |}.
Definition w_origin_all (o : obj) f :=
  {| bal := bal o; nonce := nonce o; code := code o; suicided := suicided o; origin := f; dirty := dirty o |}.

(** ---- journal ---- *)
Inductive entry :=
| ECreate (a : addr)
| EReset (a : addr) (prev : obj)
| ESuicide (a : addr) (prev : bool) (prevbal : Z)
| EBalance (a : addr) (prev : Z)
| ENonce (a : addr) (prev : Z)
| ECode (a : addr) (prev : Z)
| EStorage (a : addr) (k : key) (prev : word)
| ERefund (prev : Z)
| ELog
| EAccAddr (a : addr)
| EAccSlot (a : addr) (k : key)
| EPrecompile (saved : store) (sdirt : addr -> option Z) (scached : addr -> bool).

Definition dirtied (e : entry) : option addr :=
  match e with
  | ECreate a | ESuicide a _ _ | EBalance a _ | ENonce a _ | ECode a _ | EStorage a _ _ => Some a
  | _ => None
  end.

(** non-store transaction state that is journaled: logs, refund counter, access list *)
Record aux_t := { logs : Z; refund : Z; al : addr -> bool; als : addr -> key -> bool }.

Record cfg := { repaired : bool; maxc : Z (* maxMultistoreCacheCount *);
                blocked : list addr (* module accounts the bank refuses to credit *) }.

(** one observation of the two balance views: (address, StateDB.GetBalance wei, bank unibi on the current ctx) *)
Definition obs := (Z * Z * Z)%type.

Record sdb := {
  objs : addr -> option obj;          (* stateObjects *)
  journal : list entry;               (* newest first *)
  dirt : addr -> option Z;            (* journal.dirties *)
  txs : store;                        (* evmTxCtx *)
  cache : option store;               (* cacheCtx, once a precompile has been called *)
  aux : aux_t;
  calls : Z;                          (* multistoreCacheCount: not journaled *)
  out : list obs;                     (* observations emitted so far, newest first; never read *)
  cf : cfg
}.

Definition cur_store (s : sdb) : store := match cache s with Some c => c | None => txs s end.

Definition with_objs (s : sdb) f :=
  {| objs := f; journal := journal s; dirt := dirt s; txs := txs s; cache := cache s; aux := aux s;
     calls := calls s; out := out s; cf := cf s |}.
Definition with_journal (s : sdb) j :=
  {| objs := objs s; journal := j; dirt := dirt s; txs := txs s; cache := cache s; aux := aux s;
     calls := calls s; out := out s; cf := cf s |}.
Definition with_dirt (s : sdb) d :=
  {| objs := objs s; journal := journal s; dirt := d; txs := txs s; cache := cache s; aux := aux s;
     calls := calls s; out := out s; cf := cf s |}.
Definition with_cache (s : sdb) c :=
  {| objs := objs s; journal := journal s; dirt := dirt s; txs := txs s; cache := c; aux := aux s;
     calls := calls s; out := out s; cf := cf s |}.
Definition with_aux (s : sdb) x :=
  {| objs := objs s; journal := journal s; dirt := dirt s; txs := txs s; cache := cache s; aux := x;
     calls := calls s; out := out s; cf := cf s |}.
Definition with_calls (s : sdb) n :=
  {| objs := objs s; journal := journal s; dirt := dirt s; txs := txs s; cache := cache s; aux := aux s;
     calls := n; out := out s; cf := cf s |}.
Definition with_out (s : sdb) o :=
  {| objs := objs s; journal := journal s; dirt := dirt s; txs := txs s; cache := cache s; aux := aux s;
     calls := calls s; out := o; cf := cf s |}.

Definition set_obj (s : sdb) (a : addr) (o : obj) : sdb := with_objs s (upd (objs s) a (Some o)).
Definition del_obj (s : sdb) (a : addr) : sdb := with_objs s (upd (objs s) a None).

(** getStateObject: the cached object, else load from the current context and cache it *)
Definition lookup (s : sdb) (a : addr) : option obj :=
  match objs s a with
  | Some o => Some o
  | None => match accs (cur_store s) a with Some x => Some (load_obj x) | None => None end
  end.
Definition cached (s : sdb) (a : addr) : sdb :=
  match objs s a with
  | Some _ => s
  | None => match accs (cur_store s) a with Some x => set_obj s a (load_obj x) | None => s end
  end.

Definition dinc (d : addr -> option Z) (a : addr) : addr -> option Z :=
  upd d a (Some (match d a with Some c => c + 1 | None => 1 end)).
Definition ddec (d : addr -> option Z) (a : addr) : addr -> option Z :=
  let c := match d a with Some c => c - 1 | None => -1 end in
  upd d a (if Z.eqb c 0 then None else Some c).

(** journal.append *)
Definition push (s : sdb) (e : entry) : sdb :=
  let s1 := with_journal s (e :: journal s) in
  match dirtied e with Some a => with_dirt s1 (dinc (dirt s) a) | None => s1 end.

(** createObject *)
Definition create_object (s : sdb) (a : addr) : sdb :=
  let s1 := cached s a in
  match lookup s a with
  | None => set_obj (push s1 (ECreate a)) a (new_obj 0 0 0)
  | Some p => set_obj (push s1 (EReset a p)) a (new_obj 0 0 0)
  end.

(** getOrNewStateObject: the state afterwards, and the object *)
Definition get_or_new (s : sdb) (a : addr) : sdb :=
  match lookup s a with
  | Some _ => cached s a
  | None => set_obj (push s (ECreate a)) a (new_obj 0 0 0)
  end.
Definition the_obj (s : sdb) (a : addr) : obj :=
  match lookup s a with Some o => o | None => new_obj 0 0 0 end.

(** committed state is read from the tx context (evmTxCtx), as in Go *)
Definition comm (t : store) (a : addr) (o : obj) (k : key) : word :=
  match origin o k with Some v => v | None => stor t a k end.
Definition st (t : store) (a : addr) (o : obj) (k : key) : word :=
  match dirty o k with Some v => v | None => comm t a o k end.

(** ---- vm.StateDB setters ---- *)
Definition set_balance (s : sdb) (a : addr) (b : Z) : sdb :=
  let o := the_obj s a in
  set_obj (push (get_or_new s a) (EBalance a (bal o))) a (w_bal o b).
Definition add_balance (s : sdb) (a : addr) (amt : Z) : sdb :=
  if Z.eqb amt 0 then get_or_new s a else set_balance s a (bal (the_obj s a) + amt).
Definition set_nonce (s : sdb) (a : addr) (n : Z) : sdb :=
  let o := the_obj s a in
  set_obj (push (get_or_new s a) (ENonce a (nonce o))) a (w_nonce o n).
Definition set_code (s : sdb) (a : addr) (c : Z) : sdb :=
  let o := the_obj s a in
  set_obj (push (get_or_new s a) (ECode a (code o))) a (w_code o c).

(** GetState on an object caches the committed value in OriginStorage unless the slot is dirty *)
Definition cache_origin (t : store) (a : addr) (o : obj) (k : key) : obj :=
  match dirty o k with
  | Some _ => o
  | None => match origin o k with Some _ => o | None => w_origin o k (stor t a k) end
  end.
Definition set_state (s : sdb) (a : addr) (k : key) (v : word) : sdb :=
  let o := the_obj s a in
  let s1 := get_or_new s a in
  let prev := st (txs s) a o k in
  let o1 := cache_origin (txs s) a o k in
  if Z.eqb prev v then set_obj s1 a o1
  else set_obj (push s1 (EStorage a k prev)) a (w_dirty o1 k v).
(** a read: StateDB.GetState (then GetCommittedState); caches object and committed slot *)
Definition read_state (s : sdb) (a : addr) (k : key) : sdb :=
  match lookup s a with
  | None => s
  | Some o => set_obj (cached s a) a (cache_origin (txs s) a o k)
  end.
(** … and what the two reads return *)
Definition read_vals (s : sdb) (a : addr) (k : key) : Z * Z :=
  match lookup s a with
  | None => (0, 0)
  | Some o => (st (txs s) a o k, comm (txs s) a o k)
  end.
(** a read observation is tagged by a negative first component *)
Definition read_tag (a : addr) (k : key) : Z := - (a * 100 + k).

Definition suicide (s : sdb) (a : addr) : sdb :=
  match lookup s a with
  | None => s
  | Some o => set_obj (push (cached s a) (ESuicide a (suicided o) (bal o))) a (w_bal (w_sui o true) 0)
  end.

(** CreateAccount: the balance of an existing object is carried over (not journaled) *)
Definition create_account (s : sdb) (a : addr) : sdb :=
  match lookup s a with
  | None => create_object s a
  | Some p => set_obj (create_object s a) a (w_bal (new_obj 0 0 0) (bal p))
  end.

Definition w_logs (x : aux_t) n := {| logs := n; refund := refund x; al := al x; als := als x |}.
Definition w_refund (x : aux_t) n := {| logs := logs x; refund := n; al := al x; als := als x |}.
Definition w_al (x : aux_t) f := {| logs := logs x; refund := refund x; al := f; als := als x |}.
Definition w_als (x : aux_t) f := {| logs := logs x; refund := refund x; al := al x; als := f |}.

Definition add_log (s : sdb) : sdb := with_aux (push s ELog) (w_logs (aux s) (logs (aux s) + 1)).
Definition set_refund (s : sdb) (g : Z) : sdb := with_aux (push s (ERefund (refund (aux s)))) (w_refund (aux s) g).
Definition access_addr (s : sdb) (a : addr) : sdb :=
  if al (aux s) a then s else with_aux (push s (EAccAddr a)) (w_al (aux s) (upd (al (aux s)) a true)).
Definition access_slot (s : sdb) (a : addr) (k : key) : sdb :=
  let s1 := access_addr s a in
  if als (aux s1) a k then s1
  else with_aux (push s1 (EAccSlot a k))
                (w_als (aux s1) (fun a' k' => if Z.eqb a' a && Z.eqb k' k then true else als (aux s1) a' k')).

(** ---- journal revert ---- *)
Definition undo (e : entry) (s : sdb) : sdb :=
  match e with
  | ECreate a => del_obj s a
  | EReset a p => set_obj s a p
  | ESuicide a ps pb =>
      match lookup s a with Some o => set_obj (cached s a) a (w_bal (w_sui o ps) pb) | None => s end
  | EBalance a pb => match lookup s a with Some o => set_obj (cached s a) a (w_bal o pb) | None => s end
  | ENonce a pn => match lookup s a with Some o => set_obj (cached s a) a (w_nonce o pn) | None => s end
  | ECode a pc => match lookup s a with Some o => set_obj (cached s a) a (w_code o pc) | None => s end
  | EStorage a k pv => match lookup s a with Some o => set_obj (cached s a) a (w_dirty o k pv) | None => s end
  | ERefund p => with_aux s (w_refund (aux s) p)
  | ELog => with_aux s (w_logs (aux s) (logs (aux s) - 1))
  | EAccAddr a => with_aux s (w_al (aux s) (upd (al (aux s)) a false))
  | EAccSlot a k =>
      with_aux s (w_als (aux s) (fun a' k' => if Z.eqb a' a && Z.eqb k' k then false else als (aux s) a' k'))
  | EPrecompile saved sd sc =>
      let s1 := with_cache s (Some saved) in
      if repaired (cf s) then
        (* restore the dirty counts; evict objects cached after the snapshot *)
        with_objs (with_dirt s1 sd) (fun a => if sc a then objs s a else None)
      else s1
  end.

Definition pop_undo (s : sdb) : sdb :=
  match journal s with
  | [] => s
  | e :: rest =>
      let s1 := undo e (with_journal s rest) in
      match dirtied e with
      | None => s1
      | Some a => with_dirt s1 (ddec (dirt s1) a)
      end
  end.

Fixpoint unwind_k (k : nat) (s : sdb) : sdb :=
  match k with O => s | S k' => unwind_k k' (pop_undo s) end.
(** RevertToSnapshot to journal length n *)
Definition unwind (n : nat) (s : sdb) : sdb := unwind_k (length (journal s) - n) s.

(** ---- commitCtx ---- *)
Definition ooz (o : obj) (k : key) : word := match origin o k with Some v => v | None => 0 end.

(** what commitCtx writes into store [t] for the dirtied addresses of [s] *)
Definition flush_store (skip : bool) (s : sdb) (t : store) : store :=
  {| accs := fun a =>
       match dirt s a with
       | None => accs t a
       | Some _ =>
           match lookup s a with
           | None => accs t a
           | Some o => if suicided o then None
                       else Some {| a_bal := to_native (bal o); a_nonce := nonce o; a_code := code o |}
           end
       end;
     stor := fun a k =>
       match dirt s a with
       | None => stor t a k
       | Some _ =>
           match lookup s a with
           | None => stor t a k
           | Some o => if suicided o then 0
                       else match dirty o k with
                            | None => stor t a k
                            | Some v => if skip && Z.eqb v (ooz o k) then stor t a k else v
                            end
           end
       end |}.

(** the StateDB after the intermediate commit: counts reset to 0, dirtied objects cached;
    before the repair also: OriginStorage advanced, self-destructed objects dropped *)
Definition flush_objs (s : sdb) : addr -> option obj :=
  fun a =>
    match dirt s a with
    | None => objs s a
    | Some _ =>
        match lookup s a with
        | None => None
        | Some o =>
            if repaired (cf s) then Some o
            else if suicided o then None
            else Some (w_origin_all o (fun k => match dirty o k with
                                                | Some v => if Z.eqb v (ooz o k) then origin o k else Some v
                                                | None => origin o k end))
        end
    end.
Definition flush_dirt (s : sdb) : addr -> option Z :=
  fun a => match dirt s a with Some _ => Some 0 | None => None end.

(** CommitCacheCtx *)
Definition commit_cache (s : sdb) : sdb :=
  let skip := negb (repaired (cf s)) in
  let c' := flush_store skip s (cur_store s) in
  with_cache (with_dirt (with_objs s (flush_objs s)) (flush_dirt s)) (Some c').

(** commitCtx can FAIL: SetAccount of a dirty blocked module account whose balance must grow mints
    the difference and is then refused by the bank (SendCoinsFromModuleToAccount to a blocked
    address).  commitCtx walks the dirty addresses in sorted order and returns at the first error:
    the addresses before it are written, it and the later ones are not. *)
Definition fails_at (s : sdb) (a : addr) : bool :=
  match dirt s a, lookup s a with
  | Some _, Some o => negb (suicided o) && (bank_bal (cur_store s) a <? to_native (bal o))
  | _, _ => false
  end.
Definition flush_fail (s : sdb) : option addr := find (fails_at s) (blocked (cf s)).

(** CommitCacheCtx returning an error at address [af]: the prefix is flushed *)
Definition commit_cache_partial (af : addr) (s : sdb) : sdb :=
  let skip := negb (repaired (cf s)) in
  let c := cur_store s in
  let c' := flush_store skip s c in
  with_cache
    (with_dirt (with_objs s (fun a => if a <? af then flush_objs s a else objs s a))
               (fun a => if a <? af then flush_dirt s a else dirt s a))
    (Some {| accs := fun a => if a <? af then accs c' a else accs c a;
             stor := fun a k => if a <? af then stor c' a k else stor c a k |}).

(** Commit: write the cache branch to the tx store, then commitCtx(evmTxCtx, final); it returns an
    error (the transaction fails) exactly when [commit_fails] *)
Definition commit_fails (s : sdb) : bool := match flush_fail s with Some _ => true | None => false end.

Definition commit (s : sdb) : store :=
  let skip := if repaired (cf s) then (match cache s with None => true | Some _ => false end) else true in
  flush_store skip s (cur_store s).

(** ---- precompile call ---- *)
(** CacheCtxForPrecompile + SavePrecompileCalledJournalChange (count check is done by the caller) *)
Definition precompile_snapshot (s : sdb) : sdb :=
  let s0 := match cache s with Some _ => s | None => with_cache s (Some (txs s)) end in
  let e := EPrecompile (cur_store s0) (dirt s0) (fun a => match objs s0 a with Some _ => true | None => false end) in
  with_calls (push s0 e) (calls s0 + 1).

(** bank SendCoins on the cache ctx + SyncStateDBWithAccount for both parties *)
Definition bank_move (c : store) (f t : addr) (amt : Z) : store :=
  let xf := match accs c f with Some x => x | None => {| a_bal := 0; a_nonce := 0; a_code := 0 |} end in
  let c1 := {| accs := upd (accs c) f (Some {| a_bal := a_bal xf - amt; a_nonce := a_nonce xf; a_code := a_code xf |});
               stor := stor c |} in
  let xt := match accs c1 t with Some x => x | None => {| a_bal := 0; a_nonce := 0; a_code := 0 |} end in
  {| accs := upd (accs c1) t (Some {| a_bal := a_bal xt + amt; a_nonce := a_nonce xt; a_code := a_code xt |});
     stor := stor c1 |}.

Definition bank_send (s : sdb) (f t : addr) (amt : Z) : sdb :=
  match cache s with
  | None => s
  | Some c =>
      if (amt <=? 0) || (bank_bal c f <? amt) then s
      else
        let c1 := bank_move c f t amt in
        let s1 := with_cache s (Some c1) in
        let s2 := set_balance s1 f (to_wei (bank_bal c1 f)) in
        set_balance s2 t (to_wei (bank_bal c1 t))
  end.

(** ---- scripts ---- *)
Inductive prog :=
| OAddBalance (a : addr) (amt : Z)
| OSubBalance (a : addr) (amt : Z)      (* only if the balance suffices (CanTransfer) *)
| OSetNonce (a : addr) (n : Z)
| OSetCode (a : addr) (c : Z)
| OSetState (a : addr) (k : key) (v : word)
| OSuicide (a : addr) (b : addr)        (* opSelfdestruct: AddBalance(b, balance(a)); Suicide(a) *)
| OCreate (a : addr)                    (* evm.create: collision check; CreateAccount; SetNonce(a,1) *)
| OAddLog
| OAddRefund (g : Z)
| OSubRefund (g : Z)                    (* only if g <= refund *)
| OAccessAddr (a : addr)
| OAccessSlot (a : addr) (k : key)
| OTouch (a : addr)                     (* GetBalance(a): caches the object; emits both balance views *)
| OReadState (a : addr) (k : key)       (* GetState(a,k), GetCommittedState(a,k): caches object and committed slot; emits both values *)
| OBankSend (f t : addr) (amt : Z)      (* bank SendCoins(unibi) on the cache ctx + Sync of both parties;
                                           meaningful inside a precompile body *)
| OIncState (a : addr) (k : key) (d : Z) (* SetState(a,k, GetState(a,k) + d): an ERC20 balance / supply update *)
| PFrame (body : list prog) (reverted : bool)
| PPrecompile (body : list prog) (fails : bool).
(** [PPrecompile body fails]: a Nibiru precompile call.  After OnRunStart its body runs on the cache
    context: bank sends, but also EVM writes and nested calls on the same StateDB (FunToken's
    ERC20 mint / burn / transfer), nested frames and nested precompile calls. *)

Definition sub_balance (s : sdb) (a : addr) (amt : Z) : sdb :=
  if bal (the_obj s a) <? amt then cached s a else add_balance s a (- amt).

Definition selfdestruct (s : sdb) (a b : addr) : sdb :=
  match lookup s a with
  | None => s
  | Some o => suicide (add_balance (cached s a) b (bal o)) a
  end.

Definition evm_create (s : sdb) (a : addr) : sdb :=
  match lookup s a with
  | Some o => if negb (Z.eqb (nonce o) 0) || negb (Z.eqb (code o) 0) then cached s a
              else set_nonce (create_account s a) a 1
  | None => set_nonce (create_account s a) a 1
  end.

Definition touch (s : sdb) (a : addr) : sdb :=
  let b := match lookup s a with Some o => bal o | None => 0 end in
  let s1 := cached s a in
  with_out s1 ((a, b, bank_bal (cur_store s1) a) :: out s1).

Definition read_obs (s : sdb) (a : addr) (k : key) : sdb :=
  let s1 := read_state s a k in
  with_out s1 ((read_tag a k, fst (read_vals s a k), snd (read_vals s a k)) :: out s1).

Definition sub_refund (s : sdb) (g : Z) : sdb :=
  if refund (aux s) <? g then s else set_refund s (refund (aux s) - g).

Definition run_sends (sends : list (addr * addr * Z)) (s : sdb) : sdb :=
  fold_left (fun s x => bank_send s (fst (fst x)) (snd (fst x)) (snd x)) sends s.

(** a precompile call whose body is the state transformer [F] *)
Definition pc_shell (s : sdb) (F : sdb -> sdb) (fails : bool) : sdb :=
  let n := length (journal s) in                      (* evm.Call: snapshot before the call *)
  let s1 := precompile_snapshot s in
  if maxc (cf s) <? calls s1 then unwind n s1          (* OnRunStart error: frame reverted *)
  else
    match flush_fail s1 with
    | Some af => unwind n (commit_cache_partial af s1) (* the pre-run flush failed: frame reverted *)
    | None =>
        let s2 := F (commit_cache s1) in
        if fails then unwind n s2 else s2
    end.
Definition precompile_call (s : sdb) (sends : list (addr * addr * Z)) (fails : bool) : sdb :=
  pc_shell s (run_sends sends) fails.

Definition inc_state (s : sdb) (a : addr) (k : key) (d : Z) : sdb :=
  set_state s a k (st (txs s) a (the_obj s a) k + d).

Fixpoint run (p : prog) (s : sdb) {struct p} : sdb :=
  match p with
  | OAddBalance a amt => add_balance s a amt
  | OSubBalance a amt => sub_balance s a amt
  | OSetNonce a n => set_nonce s a n
  | OSetCode a c => set_code s a c
  | OSetState a k v => set_state s a k v
  | OSuicide a b => selfdestruct s a b
  | OCreate a => evm_create s a
  | OAddLog => add_log s
  | OAddRefund g => set_refund s (refund (aux s) + g)
  | OSubRefund g => sub_refund s g
  | OAccessAddr a => access_addr s a
  | OAccessSlot a k => access_slot s a k
  | OTouch a => touch s a
  | OReadState a k => read_obs s a k
  | OBankSend f t amt => bank_send s f t amt
  | OIncState a k d => inc_state s a k d
  | PFrame body rv =>
      let n := length (journal s) in
      let s' := (fix go (l : list prog) (s : sdb) : sdb :=
                   match l with [] => s | p :: t => go t (run p s) end) body s in
      if rv then unwind n s' else s'
  | PPrecompile body fails =>
      pc_shell s ((fix go (l : list prog) (s : sdb) : sdb :=
                     match l with [] => s | p :: t => go t (run p s) end) body) fails
  end.

Definition run_body (body : list prog) (s : sdb) : sdb :=
  (fix go (l : list prog) (s : sdb) : sdb := match l with [] => s | p :: t => go t (run p s) end) body s.

(** ======================================================================================
    Variant [live := false]: WHICH MULTISTORE OBJECT a running precompile body writes to.

    OnRunStart hands the body an sdk.Context VALUE.  Up to the repair "cacheStore cell" that value
    held the cache multistore OBJECT that was current when the call started, while
    [PrecompileCalled.Revert] made the StateDB point to ANOTHER object (the saved copy).  A body that
    is still running when a nested precompile call is reverted (FunToken.sendToBank / sendToEvm call
    an arbitrary ERC20, whose transfer() may call a precompile and swallow its failure) then keeps
    reading and writing the detached object: its later bank writes are never committed, but the
    balances it reads there are still mirrored into the StateDB by SyncStateDBWithAccount.

    Objects are named by EPOCHS: the epoch advances whenever a revert replaces the current object;
    [h_heap e] is the content of the object of a past epoch [e] (written from then on only by the
    bodies that still hold it — they share it); the current object's content stays in [cache].
    A body's handle is the epoch of its OnRunStart.  With [live := true] (the repaired code: the
    context holds a cell that always resolves to the current object) handles are ignored and
    [run_h] is [run] (lemma [run_h_live] in Proofs.v).  NO PROOFS here. *)
Record hst := { h_db : sdb; h_ep : nat; h_heap : nat -> option store }.

Definition h_lift (f : sdb -> sdb) (h : hst) : hst :=
  {| h_db := f (h_db h); h_ep := h_ep h; h_heap := h_heap h |}.
Definition updn {V} (m : nat -> V) (k : nat) (v : V) : nat -> V :=
  fun k' => if Nat.eqb k' k then v else m k'.

Definition is_pc_entry (e : entry) : bool := match e with EPrecompile _ _ _ => true | _ => false end.
(** RevertToSnapshot to journal length [n] undoes at least one PrecompileCalled entry *)
Definition reverts_pc (n : nat) (s : sdb) : bool :=
  existsb is_pc_entry (firstn (length (journal s) - n) (journal s)).

(** RevertToSnapshot: the first PrecompileCalled.Revert detaches the object that was current (the
    entries undone before it do not touch the store), the StateDB goes on with copies *)
Definition h_unwind (n : nat) (h : hst) : hst :=
  let s := h_db h in
  if reverts_pc n s
  then {| h_db := unwind n s; h_ep := S (h_ep h); h_heap := updn (h_heap h) (h_ep h) (cache s) |}
  else h_lift (unwind n) h.

(** bank SendCoins on the body's context + SyncStateDBWithAccount(ctx, ·) for both parties; [hd] is
    the handle of the enclosing body *)
Definition h_bank_send (live : bool) (hd : option nat) (h : hst) (f t : addr) (amt : Z) : hst :=
  match hd with
  | None => h_lift (fun s => bank_send s f t amt) h
  | Some e =>
      if live || Nat.eqb e (h_ep h) then h_lift (fun s => bank_send s f t amt) h
      else
        match h_heap h e with
        | None => h
        | Some d =>
            if (amt <=? 0) || (bank_bal d f <? amt) then h
            else
              let d1 := bank_move d f t amt in
              {| h_db := set_balance (set_balance (h_db h) f (to_wei (bank_bal d1 f))) t (to_wei (bank_bal d1 t));
                 h_ep := h_ep h; h_heap := updn (h_heap h) e (Some d1) |}
        end
  end.

(** [pc_shell] with the body receiving the epoch of its OnRunStart as handle *)
Definition h_pc_shell (h : hst) (F : nat -> hst -> hst) (fails : bool) : hst :=
  let s := h_db h in
  let n := length (journal s) in
  let s1 := precompile_snapshot s in
  if maxc (cf s) <? calls s1 then h_unwind n (h_lift (fun _ => s1) h)
  else
    match flush_fail s1 with
    | Some af => h_unwind n (h_lift (fun _ => commit_cache_partial af s1) h)
    | None =>
        let h2 := F (h_ep h) (h_lift (fun _ => commit_cache s1) h) in
        if fails then h_unwind n h2 else h2
    end.

Fixpoint run_h (live : bool) (hd : option nat) (p : prog) (h : hst) {struct p} : hst :=
  match p with
  | OBankSend f t amt => h_bank_send live hd h f t amt
  | PFrame body rv =>
      let n := length (journal (h_db h)) in
      let h' := (fix go (l : list prog) (h : hst) : hst :=
                   match l with [] => h | p :: t => go t (run_h live hd p h) end) body h in
      if rv then h_unwind n h' else h'
  | PPrecompile body fails =>
      h_pc_shell h (fun e => (fix go (l : list prog) (h : hst) : hst :=
                                match l with [] => h | p :: t => go t (run_h live (Some e) p h) end) body) fails
  | _ => h_lift (run p) h
  end.

Definition run_h_body (live : bool) (hd : option nat) (body : list prog) (h : hst) : hst :=
  (fix go (l : list prog) (h : hst) : hst :=
     match l with [] => h | p :: t => go t (run_h live hd p h) end) body h.

Definition h_init (s : sdb) : hst := {| h_db := s; h_ep := O; h_heap := fun _ => None |}.

(** the StateDB at the end of the script under the semantics before the repair "cacheStore cell" *)
Definition run_stale (p : prog) (s : sdb) : sdb := h_db (run_h false None p (h_init s)).

Definition aux0 : aux_t := {| logs := 0; refund := 0; al := fun _ => false; als := fun _ _ => false |}.
Definition init (c : cfg) (t : store) : sdb :=
  {| objs := fun _ => None; journal := []; dirt := fun _ => None; txs := t; cache := None; aux := aux0;
     calls := 0; out := []; cf := c |}.

(** ======================================================================================
    Reference: ONE joint state (EVM accounts x bank x storage x journaled tx data); a frame
    that reverts restores the copy taken at its start.  The precompile call counter is the
    only thing that survives a revert (as multistoreCacheCount does). *)
Record racct := { rb : Z (* wei *); rn : Z; rc : Z; rs : bool (* self-destructed *) }.
Record rstate := {
  r_accs : addr -> option racct;
  r_stor : addr -> key -> word;
  r_aux : aux_t;
  r_wr : addr -> bool;      (* ghost: storage of the address written in this tx (used by wf only) *)
  r_calls : Z;
  r_base : addr -> Z;       (* the unibi balance the bank module holds (in the current store) *)
  r_bl : list addr          (* the blocked accounts (constant) *)
}.

Definition r_get (r : rstate) a : racct :=
  match r_accs r a with Some x => x | None => {| rb := 0; rn := 0; rc := 0; rs := false |} end.
Definition r_set (r : rstate) a (x : racct) : rstate :=
  {| r_accs := upd (r_accs r) a (Some x); r_stor := r_stor r; r_aux := r_aux r; r_wr := r_wr r; r_calls := r_calls r;
     r_base := r_base r; r_bl := r_bl r |}.
Definition r_with_aux (r : rstate) x : rstate :=
  {| r_accs := r_accs r; r_stor := r_stor r; r_aux := x; r_wr := r_wr r; r_calls := r_calls r;
     r_base := r_base r; r_bl := r_bl r |}.
Definition r_with_calls (r : rstate) n : rstate :=
  {| r_accs := r_accs r; r_stor := r_stor r; r_aux := r_aux r; r_wr := r_wr r; r_calls := n;
     r_base := r_base r; r_bl := r_bl r |}.
Definition rw_b (x : racct) b := {| rb := b; rn := rn x; rc := rc x; rs := rs x |}.
Definition rw_n (x : racct) n := {| rb := rb x; rn := n; rc := rc x; rs := rs x |}.
Definition rw_c (x : racct) c := {| rb := rb x; rn := rn x; rc := c; rs := rs x |}.

Definition r_add (r : rstate) a amt : rstate := r_set r a (rw_b (r_get r a) (rb (r_get r a) + amt)).

(** account [a] becomes [x] and the bank now holds [b] unibi for it *)
Definition r_setb (r : rstate) a (x : racct) (b : Z) : rstate :=
  {| r_accs := upd (r_accs r) a (Some x); r_stor := r_stor r; r_aux := r_aux r; r_wr := r_wr r; r_calls := r_calls r;
     r_base := upd (r_base r) a b; r_bl := r_bl r |}.

(** bank SendCoins + Sync: the bank moves ITS balances ([r_base]); both parties' EVM balances are then
    set to what the bank holds *)
Definition r_send (r : rstate) (f t : addr) (amt : Z) : rstate :=
  if (amt <=? 0) || (r_base r f <? amt) then r
  else
    let r1 := r_setb r f (rw_b (r_get r f) (to_wei (r_base r f - amt))) (r_base r f - amt) in
    r_setb r1 t (rw_b (r_get r1 t) (to_wei (r_base r1 t + amt))) (r_base r1 t + amt).

(** the pre-run flush of a precompile call would fail: some blocked account must be credited *)
Definition r_pending (r : rstate) : bool :=
  existsb (fun a => match r_accs r a with
                    | Some x => negb (rs x) && (r_base r a <? to_native (rb x))
                    | None => false end) (r_bl r).
(** a successful flush: the bank now holds what the EVM shows *)
Definition r_flush (r : rstate) : rstate :=
  {| r_accs := r_accs r; r_stor := r_stor r; r_aux := r_aux r; r_wr := r_wr r; r_calls := r_calls r;
     r_base := fun a => match r_accs r a with
                        | Some x => if rs x then 0 else to_native (rb x)
                        | None => 0 end;
     r_bl := r_bl r |}.

Definition r_access_addr (r : rstate) a : rstate :=
  r_with_aux r (w_al (r_aux r) (upd (al (r_aux r)) a true)).

Fixpoint rrun (mx : Z) (p : prog) (r : rstate) {struct p} : rstate :=
  match p with
  | OAddBalance a amt => r_add r a amt
  | OSubBalance a amt => if rb (r_get r a) <? amt then r else r_add r a (- amt)
  | OSetNonce a n => r_set r a (rw_n (r_get r a) n)
  | OSetCode a c => r_set r a (rw_c (r_get r a) c)
  | OSetState a k v =>
      let r1 := r_set r a (r_get r a) in
      {| r_accs := r_accs r1;
         r_stor := fun a' k' => if Z.eqb a' a && Z.eqb k' k then v else r_stor r a' k';
         r_aux := r_aux r; r_wr := upd (r_wr r) a true; r_calls := r_calls r;
         r_base := r_base r; r_bl := r_bl r |}
  | OSuicide a b =>
      match r_accs r a with
      | None => r
      | Some x =>
          let r1 := r_add r b (rb x) in
          r_set r1 a {| rb := 0; rn := rn (r_get r1 a); rc := rc (r_get r1 a); rs := true |}
      end
  | OCreate a =>
      match r_accs r a with
      | Some x => if negb (Z.eqb (rn x) 0) || negb (Z.eqb (rc x) 0) then r
                  else r_set r a {| rb := rb x; rn := 1; rc := 0; rs := false |}
      | None => r_set r a {| rb := 0; rn := 1; rc := 0; rs := false |}
      end
  | OAddLog => r_with_aux r (w_logs (r_aux r) (logs (r_aux r) + 1))
  | OAddRefund g => r_with_aux r (w_refund (r_aux r) (refund (r_aux r) + g))
  | OSubRefund g => if refund (r_aux r) <? g then r else r_with_aux r (w_refund (r_aux r) (refund (r_aux r) - g))
  | OAccessAddr a => r_access_addr r a
  | OAccessSlot a k =>
      let r1 := r_access_addr r a in
      r_with_aux r1 (w_als (r_aux r1) (fun a' k' => if Z.eqb a' a && Z.eqb k' k then true else als (r_aux r1) a' k'))
  | OTouch _ | OReadState _ _ => r
  | OBankSend f t amt => r_send r f t amt
  | OIncState a k d =>
      let r1 := r_set r a (r_get r a) in
      {| r_accs := r_accs r1;
         r_stor := fun a' k' => if Z.eqb a' a && Z.eqb k' k
                                then r_stor r a k + d
                                else r_stor r a' k';
         r_aux := r_aux r; r_wr := upd (r_wr r) a true; r_calls := r_calls r;
         r_base := r_base r; r_bl := r_bl r |}
  | PFrame body rv =>
      let r' := (fix go (l : list prog) (r : rstate) : rstate :=
                   match l with [] => r | p :: t => go t (rrun mx p r) end) body r in
      if rv then r_with_calls r (r_calls r') else r'
  | PPrecompile body fails =>
      let r0 := r_with_calls r (r_calls r + 1) in
      if mx <? r_calls r0 then r0
      else if r_pending r0 then r0
      else
        let r' := (fix go (l : list prog) (r : rstate) : rstate :=
                     match l with [] => r | p :: t => go t (rrun mx p r) end) body (r_flush r0) in
        if fails then r_with_calls r0 (r_calls r') else r'
  end.

Definition rrun_body mx (body : list prog) (r : rstate) : rstate :=
  (fix go (l : list prog) (r : rstate) : rstate := match l with [] => r | p :: t => go t (rrun mx p r) end) body r.

Definition r_init (bl : list addr) (t : store) : rstate :=
  {| r_accs := fun a => match accs t a with
                        | Some x => Some {| rb := to_wei (a_bal x); rn := a_nonce x; rc := a_code x; rs := false |}
                        | None => None end;
     r_stor := stor t; r_aux := aux0; r_wr := fun _ => false; r_calls := 0;
     r_base := bank_bal t; r_bl := bl |}.

(** what the reference commits: self-destructed accounts disappear with their storage, wei -> unibi *)
Definition r_final (r : rstate) : store :=
  {| accs := fun a => match r_accs r a with
                      | None => None
                      | Some x => if rs x then None
                                  else Some {| a_bal := to_native (rb x); a_nonce := rn x; a_code := rc x |}
                      end;
     stor := fun a k => match r_accs r a with
                        | Some x => if rs x then 0 else r_stor r a k
                        | None => r_stor r a k
                        end |}.

(** ---- well-formed scripts (checked along the reference run) ----
    - a bank send of a precompile body does not involve an account that self-destructed earlier
      in the transaction, nor a blocked module account (the bank refuses those);
    - no code is set on and no self-destruct is made of a blocked module account;
    - evm.create on an existing, non-colliding account only if that account has not
      self-destructed and has had no storage written in this transaction (the EVM cannot
      produce either: the address would have needed code to run). *)
Definition wf_create (r : rstate) (a : addr) : bool :=
  match r_accs r a with
  | None => negb (r_wr r a)
  | Some x => if negb (Z.eqb (rn x) 0) || negb (Z.eqb (rc x) 0) then true
              else negb (rs x) && negb (r_wr r a)
  end.
Definition is_bl (r : rstate) (a : addr) : bool := existsb (Z.eqb a) (r_bl r).
Definition wf_send (r : rstate) (x : addr * addr * Z) : bool :=
  negb (rs (r_get r (fst (fst x)))) && negb (rs (r_get r (snd (fst x)))) &&
  negb (is_bl r (fst (fst x))) && negb (is_bl r (snd (fst x))).

(** [inb]: the op is a direct element of a precompile body (only there a bank send is undone by the
    journal: it lives in the multistore snapshot of that call) *)
Fixpoint wf (mx : Z) (inb : bool) (p : prog) (r : rstate) {struct p} : bool :=
  match p with
  | OCreate a => wf_create r a
  | OSetCode a _ => negb (is_bl r a)          (* module accounts carry no code hash *)
  | OSuicide a _ => negb (is_bl r a)          (* … and cannot be deleted by the EVM keeper *)
  | OBankSend f t amt => inb && wf_send r (f, t, amt)
  | PFrame body _ =>
      (fix go (l : list prog) (r : rstate) : bool :=
         match l with [] => true | p :: t => wf mx false p r && go t (rrun mx p r) end) body r
  | PPrecompile body _ =>
      let r0 := r_with_calls r (r_calls r + 1) in
      if mx <? r_calls r0 then true
      else if r_pending r0 then true
      else (fix go (l : list prog) (r : rstate) : bool :=
              match l with [] => true | p :: t => wf mx true p r && go t (rrun mx p r) end) body (r_flush r0)
  | _ => true
  end.

Definition wf_body mx (body : list prog) (r : rstate) : bool := wf mx false (PFrame body false) r.
