(** C04 proofs, part 2: journal well-formedness, monotonicity of undo / unwind w.r.t. [rel],
    and the notion [op_ok] ("only prepends to the journal; unwinding gives back a refinement
    of the starting state") with its closure under composition. *)
From Coq Require Import ZArith List Bool Lia.
Import ListNotations.
Local Open Scope Z_scope.
Require Import Nib.C04.Model Nib.C04.ProofsBase.

(** ---- journal well-formedness ---- *)
Definition WF (s : sdb) : Prop :=
  forall sv sd sc, In (EPrecompile sv sd sc) (journal s) -> forall a, sc a = true -> objs s a <> None.

Fixpoint jord (j : list entry) : Prop :=
  match j with
  | [] => True
  | ECreate a :: r => (forall sv sd sc, In (EPrecompile sv sd sc) r -> sc a = false) /\ jord r
  | EPrecompile _ _ sc :: r =>
      (forall sv sd sc', In (EPrecompile sv sd sc') r -> forall a, sc' a = true -> sc a = true) /\ jord r
  | _ :: r => jord r
  end.

Definition WFJ (s : sdb) : Prop := WF s /\ jord (journal s) /\ repaired (cf s) = true.

Lemma jord_tail e r : jord (e :: r) -> jord r.
Proof. destruct e; simpl; tauto. Qed.

(** ---- undo: field lemmas ---- *)
Definition mut (a : addr) (f : obj -> obj) (s : sdb) : sdb :=
  match lookup s a with Some o => set_obj (cached s a) a (f o) | None => s end.

Lemma mut_journal a f s : journal (mut a f s) = journal s.
Proof. unfold mut. destruct (lookup s a); [|reflexivity]. unfold set_obj; sdb_simp. apply cached_journal. Qed.
Lemma mut_txs a f s : txs (mut a f s) = txs s.
Proof. unfold mut. destruct (lookup s a); [|reflexivity]. unfold set_obj; sdb_simp. apply cached_txs. Qed.
Lemma mut_cache a f s : cache (mut a f s) = cache s.
Proof. unfold mut. destruct (lookup s a); [|reflexivity]. unfold set_obj; sdb_simp. apply cached_cache. Qed.
Lemma mut_cur a f s : cur_store (mut a f s) = cur_store s.
Proof. unfold cur_store. rewrite mut_cache, mut_txs. reflexivity. Qed.
Lemma mut_dirt a f s : dirt (mut a f s) = dirt s.
Proof. unfold mut. destruct (lookup s a); [|reflexivity]. unfold set_obj; sdb_simp. apply cached_dirt. Qed.
Lemma mut_aux a f s : aux (mut a f s) = aux s.
Proof. unfold mut. destruct (lookup s a); [|reflexivity]. unfold set_obj; sdb_simp. apply cached_aux. Qed.
Lemma mut_cf a f s : cf (mut a f s) = cf s.
Proof. unfold mut. destruct (lookup s a); [|reflexivity]. unfold set_obj; sdb_simp. apply cached_cf. Qed.
Lemma mut_calls a f s : calls (mut a f s) = calls s.
Proof. unfold mut. destruct (lookup s a); [|reflexivity]. unfold set_obj; sdb_simp. apply cached_calls. Qed.
Lemma mut_out a f s : out (mut a f s) = out s.
Proof. unfold mut. destruct (lookup s a); [|reflexivity]. unfold set_obj; sdb_simp. apply cached_out. Qed.
Lemma mut_lookup_same a f s : lookup (mut a f s) a = option_map f (lookup s a).
Proof.
  unfold mut. destruct (lookup s a) eqn:H; simpl; [apply lookup_set_same|exact H].
Qed.
Lemma mut_lookup_other a f s x : x <> a -> lookup (mut a f s) x = lookup s x.
Proof.
  intros Hx. unfold mut. destruct (lookup s a); [|reflexivity].
  rewrite lookup_set_other by assumption. apply lookup_cached.
Qed.
Lemma mut_objs_mono a f s x : objs s x <> None -> objs (mut a f s) x <> None.
Proof.
  intros H. unfold mut. destruct (lookup s a); [|exact H].
  unfold set_obj; sdb_simp. unfold upd. destruct (Z.eqb x a); [discriminate|].
  apply objs_cached_mono; exact H.
Qed.
Lemma mut_objs_same a f s : lookup s a <> None -> objs (mut a f s) a <> None.
Proof.
  intros H. unfold mut. destruct (lookup s a); [|contradiction].
  unfold set_obj; sdb_simp. rewrite upd_same. discriminate.
Qed.

Lemma undo_mut e s :
  match e with
  | ESuicide a ps pb => undo e s = mut a (fun o => w_bal (w_sui o ps) pb) s
  | EBalance a pb => undo e s = mut a (fun o => w_bal o pb) s
  | ENonce a pn => undo e s = mut a (fun o => w_nonce o pn) s
  | ECode a pc => undo e s = mut a (fun o => w_code o pc) s
  | EStorage a k pv => undo e s = mut a (fun o => w_dirty o k pv) s
  | _ => True
  end.
Proof. destruct e; try exact I; reflexivity. Qed.

(** [mut] is monotone for [rel] *)
Lemma rel_mut full sc s s' a f :
  (forall t o o', ole t a o o' -> ole t a (f o) (f o')) ->
  rel full sc s s' -> rel full sc (mut a f s) (mut a f s').
Proof.
  intros Hf (J&T&C&X&O&F).
  split; [rewrite !mut_journal; exact J|]. split; [rewrite !mut_txs; exact T|].
  split; [rewrite !mut_cf; exact C|]. split; [rewrite !mut_aux; exact X|]. split.
  - intros x Hx. destruct (O x Hx) as [L D]. destruct (Z.eq_dec x a) as [->|Hne].
    + split.
      * unfold lookrel in *. rewrite !mut_lookup_same, mut_txs.
        destruct (lookup s a), (lookup s' a); simpl; auto.
      * intros Hprem. apply mut_objs_same. unfold lookrel in L.
        destruct (lookup s a) eqn:Hl.
        -- destruct (lookup s' a); [discriminate|contradiction].
        -- exfalso. unfold mut in Hprem. rewrite Hl in Hprem.
           unfold lookup in Hl. destruct (objs s a); [discriminate|]. apply Hprem; reflexivity.
    + split.
      * unfold lookrel in *. rewrite !mut_lookup_other, mut_txs by assumption. exact L.
      * intros H. apply mut_objs_mono. apply D.
        (* objs (mut s) x <> None with x <> a comes from objs s x *)
        unfold mut in H. destruct (lookup s a); [|exact H].
        unfold set_obj in H; sdb_simp. rewrite upd_other in H by assumption.
        destruct (objs s x) eqn:Hox; [discriminate|].
        rewrite objs_cached_other in H by assumption. contradiction.
  - intros Hfull. destruct (F Hfull) as [S D]. rewrite !mut_cur, !mut_dirt. split; assumption.
Qed.

(** ---- basic field facts of undo ---- *)
Lemma undo_journal e s : journal (undo e s) = journal s.
Proof.
  destruct e; try reflexivity;
    try (pose proof (undo_mut (ESuicide a prev prevbal) s) as H; cbv beta iota in H; rewrite H; apply mut_journal);
    try (match goal with |- journal (undo ?E s) = _ => pose proof (undo_mut E s) as H; cbv beta iota in H; rewrite H; apply mut_journal end).
  simpl. destruct (repaired (cf s)); reflexivity.
Qed.
Lemma undo_txs e s : txs (undo e s) = txs s.
Proof.
  destruct e; try reflexivity;
    try (match goal with |- txs (undo ?E s) = _ => pose proof (undo_mut E s) as H; cbv beta iota in H; rewrite H; apply mut_txs end).
  simpl. destruct (repaired (cf s)); reflexivity.
Qed.
Lemma undo_cf e s : cf (undo e s) = cf s.
Proof.
  destruct e; try reflexivity;
    try (match goal with |- cf (undo ?E s) = _ => pose proof (undo_mut E s) as H; cbv beta iota in H; rewrite H; apply mut_cf end).
  simpl. destruct (repaired (cf s)); reflexivity.
Qed.
Lemma undo_calls e s : calls (undo e s) = calls s.
Proof.
  destruct e; try reflexivity;
    try (match goal with |- calls (undo ?E s) = _ => pose proof (undo_mut E s) as H; cbv beta iota in H; rewrite H; apply mut_calls end).
  simpl. destruct (repaired (cf s)); reflexivity.
Qed.
Lemma undo_out e s : out (undo e s) = out s.
Proof.
  destruct e; try reflexivity;
    try (match goal with |- out (undo ?E s) = _ => pose proof (undo_mut E s) as H; cbv beta iota in H; rewrite H; apply mut_out end).
  simpl. destruct (repaired (cf s)); reflexivity.
Qed.

Lemma pop_undo_cons s e rest :
  journal s = e :: rest ->
  pop_undo s = (let s1 := undo e (with_journal s rest) in
                match dirtied e with None => s1 | Some a => with_dirt s1 (ddec (dirt s1) a) end).
Proof. intros H. unfold pop_undo. rewrite H. reflexivity. Qed.

Lemma pop_undo_journal s e rest : journal s = e :: rest -> journal (pop_undo s) = rest.
Proof.
  intros H. rewrite (pop_undo_cons s e rest H). cbv zeta.
  destruct (dirtied e); sdb_simp; rewrite undo_journal; reflexivity.
Qed.
Lemma pop_undo_nil s : journal s = [] -> pop_undo s = s.
Proof. intros H. unfold pop_undo. rewrite H. reflexivity. Qed.
Lemma pop_undo_cf s : cf (pop_undo s) = cf s.
Proof.
  unfold pop_undo. destruct (journal s) as [|e r]; [reflexivity|].
  destruct (dirtied e); sdb_simp; rewrite undo_cf; reflexivity.
Qed.
Lemma pop_undo_txs s : txs (pop_undo s) = txs s.
Proof.
  unfold pop_undo. destruct (journal s) as [|e r]; [reflexivity|].
  destruct (dirtied e); sdb_simp; rewrite undo_txs; reflexivity.
Qed.
Lemma pop_undo_calls s : calls (pop_undo s) = calls s.
Proof.
  unfold pop_undo. destruct (journal s) as [|e r]; [reflexivity|].
  destruct (dirtied e); sdb_simp; rewrite undo_calls; reflexivity.
Qed.
Lemma pop_undo_out s : out (pop_undo s) = out s.
Proof.
  unfold pop_undo. destruct (journal s) as [|e r]; [reflexivity|].
  destruct (dirtied e); sdb_simp; rewrite undo_out; reflexivity.
Qed.

(** ---- unwind arithmetic ---- *)
Lemma unwind_k_len k : forall s, (k <= length (journal s))%nat ->
  length (journal (unwind_k k s)) = (length (journal s) - k)%nat.
Proof.
  induction k as [|k IH]; intros s Hk; simpl; [lia|].
  destruct (journal s) as [|e rest] eqn:Hj; simpl in Hk; [lia|].
  pose proof (pop_undo_journal s e rest Hj) as Hp.
  rewrite IH; rewrite Hp; simpl; lia.
Qed.
Lemma unwind_len n s : (n <= length (journal s))%nat -> length (journal (unwind n s)) = n.
Proof. intros H. unfold unwind. rewrite unwind_k_len; lia. Qed.
Lemma unwind_k_add k1 k2 s : unwind_k (k1 + k2) s = unwind_k k2 (unwind_k k1 s).
Proof. revert s; induction k1 as [|k1 IH]; intros s; simpl; [reflexivity|apply IH]. Qed.
Lemma unwind_compose n m s :
  (n <= m)%nat -> (m <= length (journal s))%nat -> unwind n s = unwind n (unwind m s).
Proof.
  intros Hnm Hm. pose proof (unwind_len m s Hm) as Hl.
  change (unwind n (unwind m s)) with (unwind_k (length (journal (unwind m s)) - n) (unwind m s)).
  rewrite Hl. unfold unwind.
  replace (length (journal s) - n)%nat with ((length (journal s) - m) + (m - n))%nat by lia.
  rewrite unwind_k_add. reflexivity.
Qed.
Lemma unwind_id s : unwind (length (journal s)) s = s.
Proof. unfold unwind. rewrite Nat.sub_diag. reflexivity. Qed.
Lemma unwind_prefix es j n s' :
  journal s' = es ++ j -> length j = n -> unwind n s' = unwind_k (length es) s'.
Proof.
  intros Hj Hn. unfold unwind. rewrite Hj, app_length, Hn.
  replace (length es + n - n)%nat with (length es) by lia. reflexivity.
Qed.
Lemma unwind_k_calls k : forall s, calls (unwind_k k s) = calls s.
Proof. induction k; intros s; simpl; [reflexivity|]. rewrite IHk. apply pop_undo_calls. Qed.
Lemma unwind_calls n s : calls (unwind n s) = calls s. Proof. apply unwind_k_calls. Qed.
Lemma unwind_k_cf k : forall s, cf (unwind_k k s) = cf s.
Proof. induction k; intros s; simpl; [reflexivity|]. rewrite IHk. apply pop_undo_cf. Qed.
Lemma unwind_k_txs k : forall s, txs (unwind_k k s) = txs s.
Proof. induction k; intros s; simpl; [reflexivity|]. rewrite IHk. apply pop_undo_txs. Qed.
Lemma unwind_k_out k : forall s, out (unwind_k k s) = out s.
Proof. induction k; intros s; simpl; [reflexivity|]. rewrite IHk. apply pop_undo_out. Qed.

(** ---- undo is monotone for [rel] ---- *)
Definition undo_side (full : bool) (sc : addr -> bool) (s : sdb) (e : entry) : Prop :=
  match e with
  | ECreate a => full = true \/ sc a = false
  | EPrecompile _ _ scc => forall a, sc a = true -> scc a = true -> objs s a <> None
  | _ => True
  end.

Lemma rel_with_aux full sc s s' x x' :
  rel full sc s s' -> auxeq x x' -> rel full sc (with_aux s x) (with_aux s' x').
Proof. intros (J&T&C&X&O&F) H. repeat split; auto; try apply H; try apply O; try apply F; auto. Qed.

Lemma rel_undo full sc s s' e :
  rel full sc s s' -> repaired (cf s) = true -> undo_side full sc s e ->
  rel full sc (undo e s) (undo e s').
Proof.
  intros HR Hrep Hside. pose proof HR as (J&T&C&X&O&F).
  destruct e as [a|a p|a ps pb|a pb|a pn|a pc|a k pv|p| |a|a k|sv sd scc].
  - (* ECreate *)
    simpl. split; [exact J|]. split; [exact T|]. split; [exact C|]. split; [exact X|]. split.
    + intros x Hx. destruct (O x Hx) as [L D]. destruct (Z.eq_dec x a) as [->|Hne].
      * split.
        -- unfold lookrel. rewrite !lookup_del_same. sdb_simp.
           destruct Hside as [Hf|Hf]; [|congruence].
           destruct (F Hf) as [S _]. rewrite <- S.
           destruct (accs (cur_store s) a); [apply ole_refl|exact I].
        -- unfold del_obj; sdb_simp. rewrite upd_same. intros Hn; contradiction.
      * split.
        -- unfold lookrel in *. rewrite !lookup_del_other by assumption. exact L.
        -- unfold del_obj; sdb_simp. rewrite !upd_other by assumption. exact D.
    + intros Hf. destruct (F Hf). split; assumption.
  - (* EReset *)
    simpl. split; [exact J|]. split; [exact T|]. split; [exact C|]. split; [exact X|]. split.
    + intros x Hx. destruct (O x Hx) as [L D]. destruct (Z.eq_dec x a) as [->|Hne].
      * split.
        -- unfold lookrel. rewrite !lookup_set_same. apply ole_refl.
        -- unfold set_obj; sdb_simp. rewrite !upd_same. intros _; discriminate.
      * split.
        -- unfold lookrel in *. rewrite !lookup_set_other by assumption. exact L.
        -- unfold set_obj; sdb_simp. rewrite !upd_other by assumption. exact D.
    + intros Hf. destruct (F Hf). split; assumption.
  - pose proof (undo_mut (ESuicide a ps pb) s) as H1; pose proof (undo_mut (ESuicide a ps pb) s') as H2.
    cbv beta iota in H1, H2. rewrite H1, H2. apply rel_mut; [|exact HR].
    intros. apply ole_w_bal, ole_w_sui; assumption.
  - pose proof (undo_mut (EBalance a pb) s) as H1; pose proof (undo_mut (EBalance a pb) s') as H2.
    cbv beta iota in H1, H2. rewrite H1, H2. apply rel_mut; [|exact HR].
    intros. apply ole_w_bal; assumption.
  - pose proof (undo_mut (ENonce a pn) s) as H1; pose proof (undo_mut (ENonce a pn) s') as H2.
    cbv beta iota in H1, H2. rewrite H1, H2. apply rel_mut; [|exact HR].
    intros. apply ole_w_nonce; assumption.
  - pose proof (undo_mut (ECode a pc) s) as H1; pose proof (undo_mut (ECode a pc) s') as H2.
    cbv beta iota in H1, H2. rewrite H1, H2. apply rel_mut; [|exact HR].
    intros. apply ole_w_code; assumption.
  - pose proof (undo_mut (EStorage a k pv) s) as H1; pose proof (undo_mut (EStorage a k pv) s') as H2.
    cbv beta iota in H1, H2. rewrite H1, H2. apply rel_mut; [|exact HR].
    intros. apply ole_w_dirty; assumption.
  - (* ERefund *) simpl. apply rel_with_aux; [exact HR|]. destruct X as (X1&X2&X3&X4). repeat split; auto.
  - (* ELog *) simpl. apply rel_with_aux; [exact HR|]. destruct X as (X1&X2&X3&X4). repeat split; simpl; auto. congruence.
  - (* EAccAddr *) simpl. apply rel_with_aux; [exact HR|]. destruct X as (X1&X2&X3&X4). repeat split; simpl; auto.
    intros x. unfold upd. destruct (Z.eqb x a); auto.
  - (* EAccSlot *) simpl. apply rel_with_aux; [exact HR|]. destruct X as (X1&X2&X3&X4). repeat split; simpl; auto.
    intros x y. destruct (Z.eqb x a && Z.eqb y k); auto.
  - (* EPrecompile *)
    pose proof Hside as Hwf. simpl. rewrite <- C, Hrep.
    split; [exact J|]. split; [exact T|]. split; [exact C|]. split; [exact X|]. split.
    + intros x Hx. destruct (O x Hx) as [L D]. sdb_simp. split.
      * unfold lookrel, lookup, cur_store. sdb_simp.
        destruct (scc x) eqn:Hs.
        -- (* cached at the snapshot: cached on both sides now *)
           pose proof (Hwf x Hx Hs) as Hc. pose proof (D Hc) as Hc'.
           unfold lookrel, lookup in L.
           destruct (objs s x) as [o|]; [|contradiction]. destruct (objs s' x) as [o'|]; [|contradiction].
           exact L.
        -- destruct (accs sv x); [apply ole_refl|exact I].
      * destruct (scc x); [exact D|intros Hn; contradiction].
    + intros _. unfold cur_store. sdb_simp. split; [reflexivity|]. intros x. apply dle_refl.
Qed.

(** ---- pop_undo is monotone ---- *)
Lemma rel_with_journal full sc s s' j :
  rel full sc s s' -> rel full sc (with_journal s j) (with_journal s' j).
Proof. intros (J&T&C&X&O&F). repeat split; auto; try apply X; try apply O; try apply F; auto. Qed.

Lemma rel_ddec full sc s s' a :
  rel full sc s s' -> rel full sc (with_dirt s (ddec (dirt s) a)) (with_dirt s' (ddec (dirt s') a)).
Proof.
  intros (J&T&C&X&O&F). split; [exact J|]. split; [exact T|]. split; [exact C|]. split; [exact X|].
  split; [exact O|]. intros Hf. destruct (F Hf) as [S D]. split; [exact S|].
  intros x. sdb_simp. apply dle_ddec. exact D.
Qed.

Lemma rel_pop_undo full sc s s' e rest :
  rel full sc s s' -> journal s = e :: rest -> repaired (cf s) = true ->
  undo_side full sc s e ->
  rel full sc (pop_undo s) (pop_undo s').
Proof.
  intros HR Hj Hrep Hside. pose proof HR as (J&_).
  rewrite (pop_undo_cons s e rest Hj), (pop_undo_cons s' e rest) by congruence. cbv zeta.
  assert (H1 : rel full sc (undo e (with_journal s rest)) (undo e (with_journal s' rest))).
  { apply rel_undo; [apply rel_with_journal; exact HR | exact Hrep |].
    destruct e; simpl in *; auto. }
  destruct (dirtied e); [apply rel_ddec|]; exact H1.
Qed.

(** ---- WFJ is preserved by pop_undo ---- *)
Lemma undo_objs_mono e s x :
  (match e with ECreate a => x <> a | EPrecompile _ _ scc => scc x = true | _ => True end) ->
  repaired (cf s) = true -> objs s x <> None -> objs (undo e s) x <> None.
Proof.
  intros Hside Hrep H.
  destruct e; try exact H;
    try (match goal with |- objs (undo ?E s) x <> None => pose proof (undo_mut E s) as Hm; cbv beta iota in Hm; rewrite Hm; apply mut_objs_mono; exact H end).
  - simpl. unfold del_obj; sdb_simp. rewrite upd_other by assumption. exact H.
  - simpl. unfold set_obj; sdb_simp. unfold upd. destruct (Z.eqb x a); [discriminate|exact H].
  - simpl. rewrite Hrep. sdb_simp. rewrite Hside. exact H.
Qed.

Lemma WFJ_pop_undo s : WFJ s -> WFJ (pop_undo s).
Proof.
  intros (Hwf & Hord & Hrep).
  destruct (journal s) as [|e rest] eqn:Hj; [rewrite pop_undo_nil by assumption; split; [exact Hwf | split; [rewrite Hj; exact Hord | exact Hrep]]|].
  split; [|split].
  - (* WF *)
    unfold WF. rewrite (pop_undo_journal s e rest Hj). intros sv sd sc Hin a Hsc.
    assert (Hc : objs s a <> None) by (eapply Hwf; [rewrite Hj; right; exact Hin | exact Hsc]).
    rewrite (pop_undo_cons s e rest Hj). cbv zeta.
    assert (H1 : objs (undo e (with_journal s rest)) a <> None).
    { apply undo_objs_mono; [| exact Hrep | exact Hc].
      destruct e; auto.
      - (* ECreate a0: a <> a0 because sc a0 = false *)
        simpl in Hord. destruct Hord as [Hc0 _]. intros ->. rewrite (Hc0 sv sd sc Hin) in Hsc. discriminate.
      - simpl in Hord. destruct Hord as [Hc0 _]. eapply Hc0; eauto. }
    destruct (dirtied e); exact H1.
  - rewrite (pop_undo_journal s e rest Hj). eapply jord_tail. exact Hord.
  - rewrite pop_undo_cf. exact Hrep.
Qed.

Lemma WFJ_unwind_k k : forall s, WFJ s -> WFJ (unwind_k k s).
Proof. induction k; intros s H; simpl; [exact H|]. apply IHk, WFJ_pop_undo, H. Qed.
Lemma WFJ_unwind n s : WFJ s -> WFJ (unwind n s).
Proof. apply WFJ_unwind_k. Qed.

(** ---- unwind is monotone for [le] ---- *)
Lemma le_pop_undo s s' : le s s' -> WFJ s -> le (pop_undo s) (pop_undo s').
Proof.
  intros HR (Hwf & Hord & Hrep).
  destruct (journal s) as [|e rest] eqn:Hj.
  - pose proof HR as (J&_). rewrite !pop_undo_nil by congruence. exact HR.
  - eapply rel_pop_undo; eauto.
    destruct e; simpl; auto. intros a _ Hs.
    eapply Hwf; [rewrite Hj; left; reflexivity|exact Hs].
Qed.

Lemma le_unwind_k k : forall s s', le s s' -> WFJ s -> le (unwind_k k s) (unwind_k k s').
Proof.
  induction k as [|k IH]; intros s s' HR HW; simpl; [exact HR|].
  apply IH; [apply le_pop_undo; assumption | apply WFJ_pop_undo; exact HW].
Qed.

Lemma le_unwind n s s' : le s s' -> WFJ s -> le (unwind n s) (unwind n s').
Proof. intros HR HW. unfold unwind. destruct HR as (J&R). rewrite <- J. apply le_unwind_k; [split; assumption|exact HW]. Qed.

(** ---- op_ok ---- *)
Definition op_ok (s s' : sdb) : Prop :=
  WFJ s ->
  (length (journal s) <= length (journal s'))%nat /\ le s (unwind (length (journal s)) s') /\ WFJ s'.

Lemma op_ok_refl s : op_ok s s.
Proof. intros H. split; [lia|]. split; [rewrite unwind_id; apply rel_refl | exact H]. Qed.

Lemma op_ok_trans s s1 s2 : op_ok s s1 -> op_ok s1 s2 -> op_ok s s2.
Proof.
  intros H1 H2 HW. destruct (H1 HW) as (L1 & E1 & W1). destruct (H2 W1) as (L2 & E2 & W2).
  split; [lia|]. split; [|exact W2].
  rewrite (unwind_compose (length (journal s)) (length (journal s1)) s2 L1 L2).
  eapply rel_trans; [exact E1|]. apply le_unwind; [exact E2 | exact W1].
Qed.

(** an op that leaves the journal alone and yields a refinement *)
Lemma op_ok_le s s' : le s s' -> (WFJ s -> WFJ s') -> op_ok s s'.
Proof.
  intros HR HW W. pose proof HR as (J&_). split; [rewrite J; lia|]. split; [|auto].
  rewrite J. rewrite unwind_id. exact HR.
Qed.

Lemma unwind_k_journal k : forall s, journal (unwind_k k s) = skipn k (journal s).
Proof.
  induction k as [|k IH]; intros s; [reflexivity|]. simpl. rewrite IH.
  destruct (journal s) as [|e r] eqn:Hj.
  - rewrite pop_undo_nil by assumption. rewrite Hj. destruct k; reflexivity.
  - rewrite (pop_undo_journal s e r Hj). reflexivity.
Qed.

(** an op_ok step only prepends entries *)
Lemma op_ok_suffix s s' : op_ok s s' -> WFJ s -> exists es, journal s' = es ++ journal s.
Proof.
  intros H HW. destruct (H HW) as (L & (J&_) & _). unfold unwind in J. rewrite unwind_k_journal in J.
  set (k := (length (journal s') - length (journal s))%nat) in *.
  exists (firstn k (journal s')). rewrite J. symmetry. apply firstn_skipn.
Qed.
