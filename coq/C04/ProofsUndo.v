(** C04 proofs, part 2: journal well-formedness, monotonicity of undo / unwind w.r.t. [rel],
    and the notion [op_ok] ("only prepends to the journal; unwinding gives back a refinement
    of the starting state") with its closure under composition. *)
From Coq Require Import ZArith List Bool Lia.
Import ListNotations.
Local Open Scope Z_scope.
Require Import Nib.C04.Model Nib.C04.ProofsBase.

(** ---- journal well-formedness ---- *)
Definition WF (s : sdb) : Prop :=
  forall sv sd sc, In (EPrecompile sv sd sc) (journal s) -> forall a, sc a = true -> objs s a <> None.

Fixpoint jord (j : list entry) : Prop :=
  match j with
  | [] => True
  | ECreate a :: r => (forall sv sd sc, In (EPrecompile sv sd sc) r -> sc a = false) /\ jord r
  | EPrecompile _ _ sc :: r =>
      (forall sv sd sc', In (EPrecompile sv sd sc') r -> forall a, sc' a = true -> sc a = true) /\ jord r
  | _ :: r => jord r
  end.

Definition WFJ (s : sdb) : Prop := WF s /\ jord (journal s) /\ repaired (cf s) = true.

Lemma jord_tail e r : jord (e :: r) -> jord r.
Proof. destruct e; simpl; tauto. Qed.

(** ---- undo: field lemmas ---- *)
Definition mut (a : addr) (f : obj -> obj) (s : sdb) : sdb :=
  match lookup s a with Some o => set_obj (cached s a) a (f o) | None => s end.

Lemma mut_journal a f s : journal (mut a f s) = journal s.
Proof. unfold mut. destruct (lookup s a); [|reflexivity]. unfold set_obj; sdb_simp. apply cached_journal. Qed.
Lemma mut_txs a f s : txs (mut a f s) = txs s.
Proof. unfold mut. destruct (lookup s a); [|reflexivity]. unfold set_obj; sdb_simp. apply cached_txs. Qed.
Lemma mut_cache a f s : cache (mut a f s) = cache s.
Proof. unfold mut. destruct (lookup s a); [|reflexivity]. unfold set_obj; sdb_simp. apply cached_cache. Qed.
Lemma mut_cur a f s : cur_store (mut a f s) = cur_store s.
Proof. unfold cur_store. rewrite mut_cache, mut_txs. reflexivity. Qed.
Lemma mut_dirt a f s : dirt (mut a f s) = dirt s.
Proof. unfold mut. destruct (lookup s a); [|reflexivity]. unfold set_obj; sdb_simp. apply cached_dirt. Qed.
Lemma mut_aux a f s : aux (mut a f s) = aux s.
Proof. unfold mut. destruct (lookup s a); [|reflexivity]. unfold set_obj; sdb_simp. apply cached_aux. Qed.
Lemma mut_cf a f s : cf (mut a f s) = cf s.
Proof. unfold mut. destruct (lookup s a); [|reflexivity]. unfold set_obj; sdb_simp. apply cached_cf. Qed.
Lemma mut_calls a f s : calls (mut a f s) = calls s.
Proof. unfold mut. destruct (lookup s a); [|reflexivity]. unfold set_obj; sdb_simp. apply cached_calls. Qed.
Lemma mut_out a f s : out (mut a f s) = out s.
Proof. unfold mut. destruct (lookup s a); [|reflexivity]. unfold set_obj; sdb_simp. apply cached_out. Qed.
Lemma mut_lookup_same a f s : lookup (mut a f s) a = option_map f (lookup s a).
Proof.
  unfold mut. destruct (lookup s a) eqn:H; simpl; [apply lookup_set_same|exact H].
Qed.
Lemma mut_lookup_other a f s x : x <> a -> lookup (mut a f s) x = lookup s x.
Proof.
  intros Hx. unfold mut. destruct (lookup s a); [|reflexivity].
  rewrite lookup_set_other by assumption. apply lookup_cached.
Qed.
Lemma mut_objs_mono a f s x : objs s x <> None -> objs (mut a f s) x <> None.
Proof.
  intros H. unfold mut. destruct (lookup s a); [|exact H].
  unfold set_obj; sdb_simp. unfold upd. destruct (Z.eqb x a); [discriminate|].
  apply objs_cached_mono; exact H.
Qed.
Lemma mut_objs_same a f s : lookup s a <> None -> objs (mut a f s) a <> None.
Proof.
  intros H. unfold mut. destruct (lookup s a); [|contradiction].
  unfold set_obj; sdb_simp. rewrite upd_same. discriminate.
Qed.

Lemma undo_mut e s :
  match e with
  | ESuicide a ps pb => undo e s = mut a (fun o => w_bal (w_sui o ps) pb) s
  | EBalance a pb => undo e s = mut a (fun o => w_bal o pb) s
  | ENonce a pn => undo e s = mut a (fun o => w_nonce o pn) s
  | ECode a pc => undo e s = mut a (fun o => w_code o pc) s
  | EStorage a k pv => undo e s = mut a (fun o => w_dirty o k pv) s
  | _ => True
  end.
Proof. destruct e; try exact I; reflexivity. Qed.

(** [mut] is monotone for [rel] *)
Lemma rel_mut full sc s s' a f :
  (forall t o o', ole t a o o' -> ole t a (f o) (f o')) ->
  rel full sc s s' -> rel full sc (mut a f s) (mut a f s').
Proof.
  intros Hf (J&T&C&X&O&F).
  split; [rewrite !mut_journal; exact J|]. split; [rewrite !mut_txs; exact T|].
  split; [rewrite !mut_cf; exact C|]. split; [rewrite !mut_aux; exact X|]. split.
  - intros x Hx. destruct (O x Hx) as [L D]. destruct (Z.eq_dec x a) as [->|Hne].
    + split.
      * unfold lookrel in *. rewrite !mut_lookup_same, mut_txs.
        destruct (lookup s a), (lookup s' a); simpl; auto.
      * intros _. apply mut_objs_same. unfold lookrel in L.
        destruct (lookup s a) eqn:Hl.
        -- destruct (lookup s' a); [discriminate|contradiction].
        -- (* a not looked-up in s: mut is the identity on s, so objs s a <> None is absurd *)
           intros Hn. unfold mut in *. rewrite Hl in *.
           destruct (lookup s' a); [contradiction|]. discriminate.
    + split.
      * unfold lookrel in *. rewrite !mut_lookup_other, mut_txs by assumption. exact L.
      * intros H. apply mut_objs_mono. apply D.
        (* objs (mut s) x <> None with x <> a comes from objs s x *)
        unfold mut in H. destruct (lookup s a); [|exact H].
        unfold set_obj in H; sdb_simp. rewrite upd_other in H by assumption.
        destruct (objs s x) eqn:Hox; [discriminate|].
        rewrite objs_cached_other in H by assumption. contradiction.
  - intros Hfull. destruct (F Hfull) as [S D]. rewrite !mut_cur, !mut_dirt. split; assumption.
Qed.
