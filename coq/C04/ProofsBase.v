(** C04 proofs, part 1: elementary facts about the model and the refinement preorder
    [rel] ("the same state up to harmless caching") under which reverted frames are invisible. *)
From Coq Require Import ZArith List Bool Lia.
Import ListNotations.
Local Open Scope Z_scope.
Require Import Nib.C04.Model.

Lemma upd_same {V} (m : Z -> V) k v : upd m k v k = v.
Proof. unfold upd. rewrite Z.eqb_refl. reflexivity. Qed.
Lemma upd_other {V} (m : Z -> V) k k' v : k' <> k -> upd m k v k' = m k'.
Proof. unfold upd. intros H. destruct (Z.eqb_spec k' k); [contradiction|reflexivity]. Qed.

Ltac sdb_simp :=
  cbn [objs journal dirt txs cache aux calls out cf with_objs with_journal with_dirt with_cache
       with_aux with_calls with_out set_obj del_obj] in *.

(** ---- objects: eta ---- *)
Lemma w_bal_id o : w_bal o (bal o) = o. Proof. destruct o; reflexivity. Qed.
Lemma w_nonce_id o : w_nonce o (nonce o) = o. Proof. destruct o; reflexivity. Qed.
Lemma w_code_id o : w_code o (code o) = o. Proof. destruct o; reflexivity. Qed.

(** ---- lookup / cached ---- *)
Lemma cur_store_with_objs s f : cur_store (with_objs s f) = cur_store s. Proof. reflexivity. Qed.
Lemma cur_store_with_journal s j : cur_store (with_journal s j) = cur_store s. Proof. reflexivity. Qed.
Lemma cur_store_with_dirt s d : cur_store (with_dirt s d) = cur_store s. Proof. reflexivity. Qed.
Lemma cur_store_with_aux s x : cur_store (with_aux s x) = cur_store s. Proof. reflexivity. Qed.
Lemma cur_store_set_obj s a o : cur_store (set_obj s a o) = cur_store s. Proof. reflexivity. Qed.
Lemma cur_store_del_obj s a : cur_store (del_obj s a) = cur_store s. Proof. reflexivity. Qed.

Lemma lookup_objs s a o : objs s a = Some o -> lookup s a = Some o.
Proof. unfold lookup. intros ->. reflexivity. Qed.

Lemma lookup_set_same s a o : lookup (set_obj s a o) a = Some o.
Proof. unfold lookup, set_obj. sdb_simp. rewrite upd_same. reflexivity. Qed.
Lemma lookup_set_other s a a' o : a' <> a -> lookup (set_obj s a o) a' = lookup s a'.
Proof. intros H. unfold lookup, set_obj, cur_store. sdb_simp. rewrite upd_other by assumption. reflexivity. Qed.
Lemma lookup_del_other s a a' : a' <> a -> lookup (del_obj s a) a' = lookup s a'.
Proof. intros H. unfold lookup, del_obj, cur_store. sdb_simp. rewrite upd_other by assumption. reflexivity. Qed.
Lemma lookup_del_same s a :
  lookup (del_obj s a) a = match accs (cur_store s) a with Some x => Some (load_obj x) | None => None end.
Proof. unfold lookup, del_obj, cur_store. sdb_simp. rewrite upd_same. reflexivity. Qed.
Lemma lookup_with_journal s j a : lookup (with_journal s j) a = lookup s a. Proof. reflexivity. Qed.
Lemma lookup_with_dirt s d a : lookup (with_dirt s d) a = lookup s a. Proof. reflexivity. Qed.
Lemma lookup_with_aux s x a : lookup (with_aux s x) a = lookup s a. Proof. reflexivity. Qed.
Lemma lookup_with_out s x a : lookup (with_out s x) a = lookup s a. Proof. reflexivity. Qed.
Lemma lookup_with_calls s x a : lookup (with_calls s x) a = lookup s a. Proof. reflexivity. Qed.

Lemma lookup_cached s a a' : lookup (cached s a) a' = lookup s a'.
Proof.
  unfold cached. destruct (objs s a) eqn:Ho; [reflexivity|].
  destruct (accs (cur_store s) a) eqn:Hc; [|reflexivity].
  destruct (Z.eq_dec a' a) as [->|Hne].
  - rewrite lookup_set_same. unfold lookup. rewrite Ho, Hc. reflexivity.
  - apply lookup_set_other; assumption.
Qed.

Lemma objs_cached s a : objs (cached s a) a = lookup s a.
Proof.
  unfold cached, lookup. destruct (objs s a) eqn:Ho; [exact Ho|].
  destruct (accs (cur_store s) a) eqn:Hc; [|exact Ho].
  unfold set_obj. sdb_simp. apply upd_same.
Qed.
Lemma objs_cached_other s a a' : a' <> a -> objs (cached s a) a' = objs s a'.
Proof.
  intros H. unfold cached. destruct (objs s a); [reflexivity|].
  destruct (accs (cur_store s) a); [|reflexivity]. unfold set_obj. sdb_simp. apply upd_other; assumption.
Qed.
Lemma objs_cached_mono s a a' : objs s a' <> None -> objs (cached s a) a' <> None.
Proof.
  intros H. destruct (Z.eq_dec a' a) as [->|Hne].
  - rewrite objs_cached. unfold lookup. destruct (objs s a); [discriminate|contradiction].
  - rewrite objs_cached_other by assumption. exact H.
Qed.

Lemma cached_journal s a : journal (cached s a) = journal s.
Proof. unfold cached. destruct (objs s a); [reflexivity|]. destruct (accs (cur_store s) a); reflexivity. Qed.
Lemma cached_dirt s a : dirt (cached s a) = dirt s.
Proof. unfold cached. destruct (objs s a); [reflexivity|]. destruct (accs (cur_store s) a); reflexivity. Qed.
Lemma cached_txs s a : txs (cached s a) = txs s.
Proof. unfold cached. destruct (objs s a); [reflexivity|]. destruct (accs (cur_store s) a); reflexivity. Qed.
Lemma cached_cache s a : cache (cached s a) = cache s.
Proof. unfold cached. destruct (objs s a); [reflexivity|]. destruct (accs (cur_store s) a); reflexivity. Qed.
Lemma cached_aux s a : aux (cached s a) = aux s.
Proof. unfold cached. destruct (objs s a); [reflexivity|]. destruct (accs (cur_store s) a); reflexivity. Qed.
Lemma cached_calls s a : calls (cached s a) = calls s.
Proof. unfold cached. destruct (objs s a); [reflexivity|]. destruct (accs (cur_store s) a); reflexivity. Qed.
Lemma cached_out s a : out (cached s a) = out s.
Proof. unfold cached. destruct (objs s a); [reflexivity|]. destruct (accs (cur_store s) a); reflexivity. Qed.
Lemma cached_cf s a : cf (cached s a) = cf s.
Proof. unfold cached. destruct (objs s a); [reflexivity|]. destruct (accs (cur_store s) a); reflexivity. Qed.
Lemma cached_cur s a : cur_store (cached s a) = cur_store s.
Proof. unfold cur_store. rewrite cached_cache, cached_txs. reflexivity. Qed.

(** push *)
Lemma push_journal s e : journal (push s e) = e :: journal s.
Proof. unfold push. destruct (dirtied e); reflexivity. Qed.
Lemma push_objs s e : objs (push s e) = objs s.
Proof. unfold push. destruct (dirtied e); reflexivity. Qed.
Lemma push_txs s e : txs (push s e) = txs s.
Proof. unfold push. destruct (dirtied e); reflexivity. Qed.
Lemma push_cache s e : cache (push s e) = cache s.
Proof. unfold push. destruct (dirtied e); reflexivity. Qed.
Lemma push_aux s e : aux (push s e) = aux s.
Proof. unfold push. destruct (dirtied e); reflexivity. Qed.
Lemma push_calls s e : calls (push s e) = calls s.
Proof. unfold push. destruct (dirtied e); reflexivity. Qed.
Lemma push_out s e : out (push s e) = out s.
Proof. unfold push. destruct (dirtied e); reflexivity. Qed.
Lemma push_cf s e : cf (push s e) = cf s.
Proof. unfold push. destruct (dirtied e); reflexivity. Qed.
Lemma push_cur s e : cur_store (push s e) = cur_store s.
Proof. unfold cur_store. rewrite push_cache, push_txs. reflexivity. Qed.
Lemma push_dirt s e :
  dirt (push s e) = match dirtied e with Some a => dinc (dirt s) a | None => dirt s end.
Proof. unfold push. destruct (dirtied e); reflexivity. Qed.
Lemma lookup_push s e a : lookup (push s e) a = lookup s a.
Proof. unfold lookup. rewrite push_objs, push_cur. reflexivity. Qed.

(** ---- the order on objects: [o'] is [o] plus cached committed values ---- *)
Definition ole (t : store) (a : addr) (o o' : obj) : Prop :=
  bal o = bal o' /\ nonce o = nonce o' /\ code o = code o' /\ suicided o = suicided o' /\
  forall k,
    (origin o k = origin o' k \/ (origin o k = None /\ origin o' k = Some (stor t a k))) /\
    (dirty o k = dirty o' k \/
     (dirty o k = None /\ dirty o' k = Some (comm t a o k) /\ origin o' k <> None)).

Lemma ole_refl t a o : ole t a o o.
Proof. repeat split; auto. Qed.

Lemma ole_comm t a o o' k : ole t a o o' -> comm t a o' k = comm t a o k.
Proof.
  intros (_&_&_&_&H). destruct (H k) as [[Ho|[Ho1 Ho2]] _]; unfold comm.
  - rewrite Ho. reflexivity.
  - rewrite Ho1, Ho2. reflexivity.
Qed.

Lemma ole_st t a o o' k : ole t a o o' -> st t a o' k = st t a o k.
Proof.
  intros H. pose proof (ole_comm t a o o' k H) as Hc. destruct H as (_&_&_&_&H).
  destruct (H k) as [_ [Hd|(Hd1&Hd2&_)]]; unfold st.
  - rewrite <- Hd. destruct (dirty o k); [reflexivity|exact Hc].
  - rewrite Hd1, Hd2. reflexivity.
Qed.

Lemma ole_trans t a o1 o2 o3 : ole t a o1 o2 -> ole t a o2 o3 -> ole t a o1 o3.
Proof.
  intros H12 H23. pose proof (fun k => ole_comm t a o1 o2 k H12) as Hc.
  destruct H12 as (A1&A2&A3&A4&A5), H23 as (B1&B2&B3&B4&B5).
  split; [congruence|]. split; [congruence|]. split; [congruence|]. split; [congruence|].
  intros k. destruct (A5 k) as [Ao Ad], (B5 k) as [Bo Bd]. split.
  - destruct Ao as [Ao|[Ao1 Ao2]], Bo as [Bo|[Bo1 Bo2]].
    + left; congruence.
    + right; split; congruence.
    + right; split; congruence.
    + congruence.
  - destruct Ad as [Ad|(Ad1&Ad2&Ad3)], Bd as [Bd|(Bd1&Bd2&Bd3)].
    + left; congruence.
    + right. split; [congruence|]. split; [rewrite Bd2; f_equal; apply Hc | exact Bd3].
    + right. split; [exact Ad1|]. split; [congruence|].
      destruct Bo as [Bo|[Bo1 _]]; congruence.
    + congruence.
Qed.

Lemma ole_w_bal t a o o' b : ole t a o o' -> ole t a (w_bal o b) (w_bal o' b).
Proof. intros (A1&A2&A3&A4&A5). repeat split; simpl; auto; apply A5. Qed.
Lemma ole_w_nonce t a o o' b : ole t a o o' -> ole t a (w_nonce o b) (w_nonce o' b).
Proof. intros (A1&A2&A3&A4&A5). repeat split; simpl; auto; apply A5. Qed.
Lemma ole_w_code t a o o' b : ole t a o o' -> ole t a (w_code o b) (w_code o' b).
Proof. intros (A1&A2&A3&A4&A5). repeat split; simpl; auto; apply A5. Qed.
Lemma ole_w_sui t a o o' b : ole t a o o' -> ole t a (w_sui o b) (w_sui o' b).
Proof. intros (A1&A2&A3&A4&A5). repeat split; simpl; auto; apply A5. Qed.
Lemma ole_w_dirty t a o o' k v : ole t a o o' -> ole t a (w_dirty o k v) (w_dirty o' k v).
Proof.
  intros (A1&A2&A3&A4&A5). repeat split; simpl; auto; try apply A5.
  unfold upd. destruct (Z.eqb k0 k); [left; reflexivity|].
  destruct (A5 k0) as [_ Hd]. exact Hd.
Qed.

(** ---- relation on optional dirty counts: a count that went 0 -> 1 -> (revert) is deleted ---- *)
Definition dle (d d' : option Z) : Prop := d = d' \/ (d = Some 0 /\ d' = None).
Lemma dle_refl d : dle d d. Proof. left; reflexivity. Qed.
Lemma dle_trans d1 d2 d3 : dle d1 d2 -> dle d2 d3 -> dle d1 d3.
Proof. unfold dle. intros [->|[-> ->]] [->|[H1 H2]]; auto; try discriminate. Qed.

Lemma dle_ddec d d' a a' : (forall x, dle (d x) (d' x)) -> dle (ddec d a a') (ddec d' a a').
Proof.
  intros H. unfold ddec, upd. destruct (Z.eqb a' a); [|apply H].
  destruct (H a) as [->|[-> ->]]; [apply dle_refl|]. simpl. apply dle_refl.
Qed.

(** ---- aux ---- *)
Definition auxeq (x y : aux_t) : Prop :=
  logs x = logs y /\ refund x = refund y /\ (forall a, al x a = al y a) /\ (forall a k, als x a k = als y a k).
Lemma auxeq_refl x : auxeq x x. Proof. repeat split. Qed.
Lemma auxeq_trans x y z : auxeq x y -> auxeq y z -> auxeq x z.
Proof.
  intros (A&B&C&D) (A'&B'&C'&D'). repeat split; intros; congruence.
Qed.

(** ---- the refinement preorder ----
    [rel full sc s s']: same journal, tx store, config, journaled tx data; for every address in
    [sc]: looked-up objects related by [ole] and cached in [s'] if cached in [s];
    with [full]: also the same current store and dirty counts up to [dle]. *)
Definition lookrel (s s' : sdb) (a : addr) : Prop :=
  match lookup s a, lookup s' a with
  | Some o, Some o' => ole (txs s) a o o'
  | None, None => True
  | _, _ => False
  end.

Definition rel (full : bool) (sc : addr -> bool) (s s' : sdb) : Prop :=
  journal s = journal s' /\ txs s = txs s' /\ cf s = cf s' /\ auxeq (aux s) (aux s') /\
  (forall a, sc a = true -> lookrel s s' a /\ (objs s a <> None -> objs s' a <> None)) /\
  (full = true -> cur_store s = cur_store s' /\ forall a, dle (dirt s a) (dirt s' a)).

Definition all : addr -> bool := fun _ => true.
(** the relation of the theorems: [s'] is [s] up to harmless caching *)
Definition le (s s' : sdb) : Prop := rel true all s s'.

Lemma lookrel_refl s a : lookrel s s a.
Proof. unfold lookrel. destruct (lookup s a); [apply ole_refl|exact I]. Qed.

Lemma rel_refl full sc s : rel full sc s s.
Proof.
  repeat split; auto using auxeq_refl, lookrel_refl, dle_refl.
Qed.

Lemma rel_trans full sc s1 s2 s3 : rel full sc s1 s2 -> rel full sc s2 s3 -> rel full sc s1 s3.
Proof.
  intros (J1&T1&C1&X1&O1&F1) (J2&T2&C2&X2&O2&F2).
  split; [congruence|]. split; [congruence|]. split; [congruence|].
  split; [eapply auxeq_trans; eauto|]. split.
  - intros a Ha. destruct (O1 a Ha) as [L1 D1], (O2 a Ha) as [L2 D2]. split; [|auto].
    unfold lookrel in *. destruct (lookup s1 a), (lookup s2 a), (lookup s3 a); try contradiction; auto.
    rewrite <- T1 in L2. eapply ole_trans; eauto.
  - intros Hf. destruct (F1 Hf) as [S1 D1], (F2 Hf) as [S2 D2]. split; [congruence|].
    intros a. eapply dle_trans; eauto.
Qed.

Lemma rel_weaken sc s s' : rel true all s s' -> rel false sc s s'.
Proof.
  intros (J&T&C&X&O&F). repeat split; auto; try (apply X); try discriminate.
  - apply O; reflexivity.
  - apply O; reflexivity.
Qed.
