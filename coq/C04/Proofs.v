(** C04 — proofs, top file: the exported lemmas (proved in ProofsBase/Undo/Ops/Inv/Sim/Run),
    non-vacuity examples and the witnesses refuting the property for the pre-fix behaviour. *)
From Coq Require Import ZArith List Bool Lia.
Import ListNotations.
Local Open Scope Z_scope.
Require Import Nib.C04.Model Nib.C04.Spec.
Require Export Nib.C04.ProofsBase Nib.C04.ProofsUndo Nib.C04.ProofsOps Nib.C04.ProofsInv Nib.C04.ProofsSim Nib.C04.ProofsRun.

(** ---- the checker and the theorem speak about the same thing ---- *)
Lemma forallb_ext {A} (f g : A -> bool) l : (forall x, f x = g x) -> forallb f l = forallb g l.
Proof. intros H. induction l as [|x l IH]; simpl; [reflexivity|]. rewrite H, IH. reflexivity. Qed.

Lemma final_matches_ext t t' x x' o :
  store_eq t t' -> auxeq x x' -> final_matches t x o = final_matches t' x' o.
Proof.
  intros [A B] (L&Rf&Al&Als). unfold final_matches.
  rewrite L, Rf.
  rewrite (forallb_ext (fun p => acct_eqb (acct_of t (fst p)) (snd p)) (fun p => acct_eqb (acct_of t' (fst p)) (snd p)))
    by (intros p; unfold acct_of; rewrite A; reflexivity).
  rewrite (forallb_ext (fun p => stor t (fst (fst p)) (snd (fst p)) =? snd p) (fun p => stor t' (fst (fst p)) (snd (fst p)) =? snd p))
    by (intros p; rewrite B; reflexivity).
  rewrite (forallb_ext (fun p => Bool.eqb (al x (fst p)) (snd p)) (fun p => Bool.eqb (al x' (fst p)) (snd p)))
    by (intros p; rewrite Al; reflexivity).
  rewrite (forallb_ext (fun p => Bool.eqb (als x (fst (fst p)) (snd (fst p))) (snd p)) (fun p => Bool.eqb (als x' (fst (fst p)) (snd (fst p))) (snd p)))
    by (intros p; rewrite Als; reflexivity).
  reflexivity.
Qed.

(** if the implementation's committed observables equal the model's (no mismatch) on a
    well-formed script, they equal the reference's: the first half of [P] *)
Lemma model_agreement_gives_reference mx bl t0 body o :
  wf_body mx body (r_init bl t0) = true ->
  let s := run (PFrame body false) (init {| repaired := true; maxc := mx; blocked := bl |} t0) in
  let r := rrun mx (PFrame body false) (r_init bl t0) in
  final_matches (commit s) (aux s) o = final_matches (r_final r) (r_aux r) o.
Proof.
  intros Hwf s r. destruct (frame_atomicity mx bl t0 body Hwf) as (H1&H2&_).
  apply final_matches_ext; assumption.
Qed.

(** ---- non-vacuity ---- *)
Definition U : Z := 1000000000000.
Definition t_w : store :=
  {| accs := fun a => if a =? 1 then Some {| a_bal := 100; a_nonce := 1; a_code := 0 |}
                      else if a =? 2 then Some {| a_bal := 50; a_nonce := 0; a_code := 0 |}
                      else if a =? 4 then Some {| a_bal := 50; a_nonce := 1; a_code := 1 |} else None;
     stor := fun a k => if (a =? 4) && (k =? 1) then 9 else 0 |}.

(** an outer credit and SSTORE, a reverted frame with a nonce write, a bank-moving precompile call
    and another SSTORE, then a successful precompile call, a self-destruct and a create *)
Definition ex_script : list prog :=
  [OAddBalance 2 (5 * U + 7); OSetState 1 2 9;
   PFrame [OSetNonce 1 4; PPrecompile [(1, 2, 30)] false; OSetState 1 3 8; OSuicide 4 2] true;
   PPrecompile [(1, 3, 10); (2, 1, 1)] false; OTouch 1; OTouch 3;
   PFrame [PPrecompile [(3, 1, 2)] true; OCreate 5; OSetCode 5 2] false;
   OSuicide 4 1; OSetNonce 1 6].

Example frame_atomicity_nonvacuous :
  wf_body 10 ex_script (r_init [] t_w) = true /\
  let t := commit (run (PFrame ex_script false) (init {| repaired := true; maxc := 10; blocked := [] |} t_w)) in
  map (acct_of t) [1; 2; 3; 4; 5] =
    [Some (141, 6, 0); Some (54, 0, 0); Some (10, 0, 0); None; Some (0, 1, 2)] /\
  [stor t 1 2; stor t 1 3; stor t 4 1] = [9; 0; 0].
Proof. vm_compute. repeat split; reflexivity. Qed.

Example balance_views_nonvacuous :
  let s := run (PFrame [OAddBalance 2 (5 * U + 7); OSetState 1 2 9] false) (init {| repaired := true; maxc := 10; blocked := [] |} t_w) in
  let s' := run_sends [(1, 3, 10); (2, 1, 1)] (commit_cache (precompile_snapshot s)) in
  map (fun a => (match lookup s' a with Some o => bal o | None => 0 end, bank_bal (cur_store s') a)) [1; 2; 3] =
    [(91 * U, 91); (54 * U, 54); (10 * U, 10)].
Proof. vm_compute. reflexivity. Qed.

Definition ten_calls : list prog := repeat (PPrecompile [(1, 2, 1)] false) 10.
Example call_limit_nonvacuous :
  let s := run (PFrame ten_calls false) (init {| repaired := true; maxc := 10; blocked := [] |} t_w) in
  calls s = 10 /\
  let s' := precompile_call s [(1, 2, 1)] false in
  calls s' = 11 /\ length (journal s') = length (journal s) /\
  acct_of (commit s') 2 = Some (60, 0, 0).
Proof. vm_compute. repeat split; reflexivity. Qed.

(** a credit to a blocked module account (7) and to a fresh address (3), then a precompile call in
    the same frame: the pre-run flush fails, the call fails, the frame reverts; an outer frame goes on *)
Definition t_b : store :=
  {| accs := fun a => if a =? 1 then Some {| a_bal := 100; a_nonce := 1; a_code := 0 |}
                      else if a =? 7 then Some {| a_bal := 0; a_nonce := 0; a_code := 0 |} else None;
     stor := fun _ _ => 0 |}.
Definition ex_blocked : list prog :=
  [PFrame [OSubBalance 1 (12 * U); OAddBalance 3 (5 * U); OAddBalance 7 (7 * U); PPrecompile [(1, 3, 1)] false] true;
   OSetNonce 1 2; PPrecompile [(1, 3, 2)] false].
Example refused_flush_nonvacuous :
  wf_body 10 ex_blocked (r_init [7] t_b) = true /\
  let s0 := run (PFrame [OSubBalance 1 (12 * U); OAddBalance 3 (5 * U); OAddBalance 7 (7 * U)] false)
                (init {| repaired := true; maxc := 10; blocked := [7] |} t_b) in
  flush_fail (precompile_snapshot s0) = Some 7 /\
  let t := commit (run (PFrame ex_blocked false) (init {| repaired := true; maxc := 10; blocked := [7] |} t_b)) in
  map (acct_of t) [1; 3; 7] = [Some (98, 2, 0); Some (2, 0, 0); Some (0, 0, 0)].
Proof. vm_compute. repeat split; reflexivity. Qed.

(** ---- the behaviour before commit 72672e0 violates the property (vm_compute witnesses) ---- *)
Definition agrees_at (rep : bool) (mx : Z) (t0 : store) (body : list prog) (al : list addr) (kl : list key) : bool :=
  let t := commit (run (PFrame body false) (init {| repaired := rep; maxc := mx; blocked := [] |} t0)) in
  let r := r_final (rrun mx (PFrame body false) (r_init [] t0)) in
  forallb (fun a => acct_eqb (acct_of t a) (acct_of r a)) al &&
  forallb (fun a => forallb (fun k => stor t a k =? stor r a k) kl) al.

Definition w_lost_sstore : list prog := [OSetState 1 1 7; PPrecompile [] true].
Definition w_supply_mint : list prog :=
  [OSubBalance 1 (5 * U); OAddBalance 2 (5 * U);
   PFrame [PPrecompile [] false; OSubBalance 1 U; OAddBalance 3 U] true].
Definition w_stale_object : list prog :=
  [PFrame [PPrecompile [(1, 2, 3)] false] true; OSubBalance 1 U; OAddBalance 2 U].
Definition w_forgotten_selfdestruct : list prog :=
  [OSuicide 4 3; PFrame [OAddBalance 1 0; PPrecompile [] false] true].

Lemma frame_atomicity_refuted_before_fix :
  Forall (fun w => wf_body 10 w (r_init [] t_w) = true /\
                   agrees_at false 10 t_w w [1; 2; 3; 4] [1] = false /\
                   agrees_at true 10 t_w w [1; 2; 3; 4] [1] = true)
         [w_lost_sstore; w_supply_mint; w_stale_object; w_forgotten_selfdestruct].
Proof. repeat constructor; vm_compute; reflexivity. Qed.
