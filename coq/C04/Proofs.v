(** C04 — proofs (top file; re-exports the lemma files). *)
From Coq Require Import ZArith List Bool.
Import ListNotations.
Local Open Scope Z_scope.
Require Import Nib.C04.Model Nib.C04.Spec.

(** ---- the behaviour before commit 72672e0 violates the property (vm_compute witnesses) ---- *)
Definition U : Z := 1000000000000.
Definition t_w : store :=
  {| accs := fun a => if a =? 1 then Some {| a_bal := 100; a_nonce := 1; a_code := 0 |}
                      else if a =? 2 then Some {| a_bal := 50; a_nonce := 0; a_code := 0 |}
                      else if a =? 4 then Some {| a_bal := 50; a_nonce := 1; a_code := 1 |} else None;
     stor := fun a k => if (a =? 4) && (k =? 1) then 9 else 0 |}.

Definition agrees_at (rep : bool) (mx : Z) (t0 : store) (body : list prog) (al : list addr) (kl : list key) : bool :=
  let t := commit (run (PFrame body false) (init {| repaired := rep; maxc := mx |} t0)) in
  let r := r_final (rrun mx (PFrame body false) (r_init t0)) in
  forallb (fun a => acct_eqb (acct_of t a) (acct_of r a)) al &&
  forallb (fun a => forallb (fun k => stor t a k =? stor r a k) kl) al.

Definition w_lost_sstore : list prog := [OSetState 1 1 7; PPrecompile [] true].
Definition w_supply_mint : list prog :=
  [OSubBalance 1 (5 * U); OAddBalance 2 (5 * U);
   PFrame [PPrecompile [] false; OSubBalance 1 U; OAddBalance 3 U] true].
Definition w_stale_object : list prog :=
  [PFrame [PPrecompile [(1, 2, 3)] false] true; OSubBalance 1 U; OAddBalance 2 U].
Definition w_forgotten_selfdestruct : list prog :=
  [OSuicide 4 3; PFrame [OAddBalance 1 0; PPrecompile [] false] true].

Lemma frame_atomicity_refuted_before_fix :
  Forall (fun w => wf_body 10 w (r_init t_w) = true /\
                   agrees_at false 10 t_w w [1; 2; 3; 4] [1] = false /\
                   agrees_at true 10 t_w w [1; 2; 3; 4] [1] = true)
         [w_lost_sstore; w_supply_mint; w_stale_object; w_forgotten_selfdestruct].
Proof. repeat constructor; vm_compute; reflexivity. Qed.
