(** C04 — proofs, top file: the exported lemmas (proved in ProofsBase/Undo/Ops/Inv/Sim/Run),
    non-vacuity examples and the witnesses refuting the property for the pre-fix behaviour. *)
From Coq Require Import ZArith List Bool Lia.
Import ListNotations.
Local Open Scope Z_scope.
Require Import Nib.C04.Model Nib.C04.Spec.
Require Export Nib.C04.ProofsBase Nib.C04.ProofsUndo Nib.C04.ProofsOps Nib.C04.ProofsInv Nib.C04.ProofsSim Nib.C04.ProofsRun.

(** ---- the checker and the theorem speak about the same thing ---- *)
Lemma forallb_ext {A} (f g : A -> bool) l : (forall x, f x = g x) -> forallb f l = forallb g l.
Proof. intros H. induction l as [|x l IH]; simpl; [reflexivity|]. rewrite H, IH. reflexivity. Qed.

Lemma final_matches_ext t t' x x' o :
  store_eq t t' -> auxeq x x' -> final_matches t x o = final_matches t' x' o.
Proof.
  intros [A B] (L&Rf&Al&Als). unfold final_matches.
  rewrite L, Rf.
  rewrite (forallb_ext (fun p => acct_eqb (acct_of t (fst p)) (snd p)) (fun p => acct_eqb (acct_of t' (fst p)) (snd p)))
    by (intros p; unfold acct_of; rewrite A; reflexivity).
  rewrite (forallb_ext (fun p => stor t (fst (fst p)) (snd (fst p)) =? snd p) (fun p => stor t' (fst (fst p)) (snd (fst p)) =? snd p))
    by (intros p; rewrite B; reflexivity).
  rewrite (forallb_ext (fun p => Bool.eqb (al x (fst p)) (snd p)) (fun p => Bool.eqb (al x' (fst p)) (snd p)))
    by (intros p; rewrite Al; reflexivity).
  rewrite (forallb_ext (fun p => Bool.eqb (als x (fst (fst p)) (snd (fst p))) (snd p)) (fun p => Bool.eqb (als x' (fst (fst p)) (snd (fst p))) (snd p)))
    by (intros p; rewrite Als; reflexivity).
  reflexivity.
Qed.

(** if the implementation's committed observables equal the model's (no mismatch) on a
    well-formed script, they equal the reference's: the first half of [P] *)
Lemma model_agreement_gives_reference mx bl t0 body o :
  wf_body mx body (r_init bl t0) = true ->
  let s := run (PFrame body false) (init {| repaired := true; maxc := mx; blocked := bl |} t0) in
  let r := rrun mx (PFrame body false) (r_init bl t0) in
  final_matches (commit s) (aux s) o = final_matches (r_final r) (r_aux r) o.
Proof.
  intros Hwf s r. destruct (frame_atomicity mx bl t0 body Hwf) as (H1&H2&_).
  apply final_matches_ext; assumption.
Qed.

(** ---- non-vacuity ---- *)
Definition U : Z := 1000000000000.
Definition t_w : store :=
  {| accs := fun a => if a =? 1 then Some {| a_bal := 100; a_nonce := 1; a_code := 0 |}
                      else if a =? 2 then Some {| a_bal := 50; a_nonce := 0; a_code := 0 |}
                      else if a =? 4 then Some {| a_bal := 50; a_nonce := 1; a_code := 1 |} else None;
     stor := fun a k => if (a =? 4) && (k =? 1) then 9 else 0 |}.

(** an outer credit and SSTORE, a reverted frame with a nonce write, a bank-moving precompile call
    and another SSTORE, then a successful precompile call, a self-destruct and a create *)
Definition ex_script : list prog :=
  [OAddBalance 2 (5 * U + 7); OSetState 1 2 9;
   PFrame [OSetNonce 1 4; PPrecompile [OBankSend 1 2 30] false; OSetState 1 3 8; OSuicide 4 2] true;
   PPrecompile [OBankSend 1 3 10; OBankSend 2 1 1] false; OTouch 1; OTouch 3;
   PFrame [PPrecompile [OBankSend 3 1 2] true; OCreate 5; OSetCode 5 2] false;
   OSuicide 4 1; OSetNonce 1 6].

Example frame_atomicity_nonvacuous :
  wf_body 10 ex_script (r_init [] t_w) = true /\
  let t := commit (run (PFrame ex_script false) (init {| repaired := true; maxc := 10; blocked := [] |} t_w)) in
  map (acct_of t) [1; 2; 3; 4; 5] =
    [Some (141, 6, 0); Some (54, 0, 0); Some (10, 0, 0); None; Some (0, 1, 2)] /\
  [stor t 1 2; stor t 1 3; stor t 4 1] = [9; 0; 0].
Proof. vm_compute. repeat split; reflexivity. Qed.

Example balance_views_nonvacuous :
  let s := run (PFrame [OAddBalance 2 (5 * U + 7); OSetState 1 2 9] false) (init {| repaired := true; maxc := 10; blocked := [] |} t_w) in
  let s' := run_sends [(1, 3, 10); (2, 1, 1)] (commit_cache (precompile_snapshot s)) in
  map (fun a => (match lookup s' a with Some o => bal o | None => 0 end, bank_bal (cur_store s') a)) [1; 2; 3] =
    [(91 * U, 91); (54 * U, 54); (10 * U, 10)].
Proof. vm_compute. reflexivity. Qed.

Definition ten_calls : list prog := repeat (PPrecompile [OBankSend 1 2 1] false) 10.
Example call_limit_nonvacuous :
  let s := run (PFrame ten_calls false) (init {| repaired := true; maxc := 10; blocked := [] |} t_w) in
  calls s = 10 /\
  let s' := run (PPrecompile [OBankSend 1 2 1] false) s in
  calls s' = 11 /\ length (journal s') = length (journal s) /\
  acct_of (commit s') 2 = Some (60, 0, 0).
Proof. vm_compute. repeat split; reflexivity. Qed.

(** a credit to a blocked module account (7) and to a fresh address (3), then a precompile call in
    the same frame: the pre-run flush fails, the call fails, the frame reverts; an outer frame goes on *)
Definition t_b : store :=
  {| accs := fun a => if a =? 1 then Some {| a_bal := 100; a_nonce := 1; a_code := 0 |}
                      else if a =? 7 then Some {| a_bal := 0; a_nonce := 0; a_code := 0 |} else None;
     stor := fun _ _ => 0 |}.
Definition ex_blocked : list prog :=
  [PFrame [OSubBalance 1 (12 * U); OAddBalance 3 (5 * U); OAddBalance 7 (7 * U); PPrecompile [OBankSend 1 3 1] false] true;
   OSetNonce 1 2; PPrecompile [OBankSend 1 3 2] false].
Example refused_flush_nonvacuous :
  wf_body 10 ex_blocked (r_init [7] t_b) = true /\
  let s0 := run (PFrame [OSubBalance 1 (12 * U); OAddBalance 3 (5 * U); OAddBalance 7 (7 * U)] false)
                (init {| repaired := true; maxc := 10; blocked := [7] |} t_b) in
  flush_fail (precompile_snapshot s0) = Some 7 /\
  let t := commit (run (PFrame ex_blocked false) (init {| repaired := true; maxc := 10; blocked := [7] |} t_b)) in
  map (acct_of t) [1; 3; 7] = [Some (98, 2, 0); Some (2, 0, 0); Some (0, 0, 0)].
Proof. vm_compute. repeat split; reflexivity. Qed.

(** a precompile body that moves coins AND writes EVM state (an ERC20 mint: balance slot and total
    supply of contract 4), with a nested frame, inside a frame that reverts; then the same call kept *)
Definition ex_funtoken : list prog :=
  [PFrame [PPrecompile [OBankSend 1 2 7; OIncState 4 2 7; OIncState 4 3 7; OAddLog;
                        PFrame [OIncState 4 2 100] true; OSetNonce 2 1] false; OSetState 4 1 5] true;
   PPrecompile [OBankSend 1 2 3; OIncState 4 2 3; OIncState 4 3 3; OAddLog] false].
Example body_with_evm_writes_nonvacuous :
  wf_body 10 ex_funtoken (r_init [] t_w) = true /\
  let t := commit (run (PFrame ex_funtoken false) (init {| repaired := true; maxc := 10; blocked := [] |} t_w)) in
  map (acct_of t) [1; 2] = [Some (97, 1, 0); Some (53, 0, 0)] /\ [stor t 4 1; stor t 4 2; stor t 4 3] = [9; 3; 3].
Proof. vm_compute. repeat split; reflexivity. Qed.

(** ---- the behaviour before commit 72672e0 violates the property (vm_compute witnesses) ---- *)
Definition agrees_at (rep : bool) (mx : Z) (t0 : store) (body : list prog) (al : list addr) (kl : list key) : bool :=
  let t := commit (run (PFrame body false) (init {| repaired := rep; maxc := mx; blocked := [] |} t0)) in
  let r := r_final (rrun mx (PFrame body false) (r_init [] t0)) in
  forallb (fun a => acct_eqb (acct_of t a) (acct_of r a)) al &&
  forallb (fun a => forallb (fun k => stor t a k =? stor r a k) kl) al.

Definition w_lost_sstore : list prog := [OSetState 1 1 7; PPrecompile [] true].
Definition w_supply_mint : list prog :=
  [OSubBalance 1 (5 * U); OAddBalance 2 (5 * U);
   PFrame [PPrecompile [] false; OSubBalance 1 U; OAddBalance 3 U] true].
Definition w_stale_object : list prog :=
  [PFrame [PPrecompile [OBankSend 1 2 3] false] true; OSubBalance 1 U; OAddBalance 2 U].
Definition w_forgotten_selfdestruct : list prog :=
  [OSuicide 4 3; PFrame [OAddBalance 1 0; PPrecompile [] false] true].

Lemma frame_atomicity_refuted_before_fix :
  Forall (fun w => wf_body 10 w (r_init [] t_w) = true /\
                   agrees_at false 10 t_w w [1; 2; 3; 4] [1] = false /\
                   agrees_at true 10 t_w w [1; 2; 3; 4] [1] = true)
         [w_lost_sstore; w_supply_mint; w_stale_object; w_forgotten_selfdestruct].
Proof. repeat constructor; vm_compute; reflexivity. Qed.

(** ---- the cache context handed to precompile bodies: [run_h] ---- *)
Lemma run_h_frame live hd body rv h :
  run_h live hd (PFrame body rv) h =
  if rv then h_unwind (length (journal (h_db h))) (run_h_body live hd body h) else run_h_body live hd body h.
Proof. reflexivity. Qed.
Lemma run_h_precompile live hd body fails h :
  run_h live hd (PPrecompile body fails) h = h_pc_shell h (fun e => run_h_body live (Some e) body) fails.
Proof. reflexivity. Qed.
Lemma run_h_body_cons live hd p t h : run_h_body live hd (p :: t) h = run_h_body live hd t (run_h live hd p h).
Proof. reflexivity. Qed.

Lemma h_unwind_db n h : h_db (h_unwind n h) = unwind n (h_db h).
Proof. unfold h_unwind. destruct (reverts_pc n (h_db h)); reflexivity. Qed.

(** With [live := true] (the context resolves to the StateDB's current cache multistore — the
    repaired code) the handles play no role: [run_h] is [run], whatever the handle, the epoch and the
    detached objects.  So [run_h] differs from the model the theorems are about by the flag only. *)
Lemma run_h_live_n n : forall p hd h, (psize p <= n)%nat -> h_db (run_h true hd p h) = run p (h_db h).
Proof.
  induction n as [|n IH]; intros p hd h Hn.
  - destruct p; simpl in Hn; lia.
  - assert (Hbody : forall l hd0 h0, (list_sum (map psize l) <= n)%nat ->
              h_db (run_h_body true hd0 l h0) = run_body l (h_db h0)).
    { induction l as [|x t IHl]; intros hd0 h0 Hl; [reflexivity|].
      rewrite run_h_body_cons, run_body_cons. simpl in Hl.
      rewrite IHl by lia. rewrite (IH x) by lia. reflexivity. }
    destruct p; try reflexivity.
    + (* OBankSend *)
      cbn [run_h run]. unfold h_bank_send. destruct hd; reflexivity.
    + (* PFrame *)
      cbn [psize] in Hn. rewrite run_h_frame, run_frame.
      destruct reverted; [rewrite h_unwind_db|]; rewrite Hbody by lia; reflexivity.
    + (* PPrecompile *)
      cbn [psize] in Hn. rewrite run_h_precompile, run_precompile.
      unfold h_pc_shell, pc_shell.
      destruct (maxc (cf (h_db h)) <? calls (precompile_snapshot (h_db h))); [rewrite h_unwind_db; reflexivity|].
      destruct (flush_fail (precompile_snapshot (h_db h))); [rewrite h_unwind_db; reflexivity|].
      destruct fails; [rewrite h_unwind_db|]; rewrite Hbody by lia; reflexivity.
Qed.

Lemma run_h_live p hd h : h_db (run_h true hd p h) = run p (h_db h).
Proof. apply (run_h_live_n (psize p)). lia. Qed.

(** ---- the behaviour before the repair "cacheStore cell" violates the property ----
    sendToBank-like call: a nested precompile call (made by the ERC20 the body calls) moves 4 unibi
    1 -> 3 and fails, so only that call frame is reverted; the body then moves 1 unibi 1 -> 2 and the
    transaction succeeds.  Reference: 99 / 51 / account 3 absent.  Old code: the body's context still
    points to the multistore object that was detached by the nested revert (it holds 96 / 50 / 4): the
    move is made there and lost, but the balances read back from it (95 and 51) are mirrored into
    the StateDB and committed — 4 unibi vanish although the frame that moved them was reverted. *)
Definition agrees_stale_at (mx : Z) (t0 : store) (body : list prog) (al : list addr) (kl : list key) : bool :=
  let t := commit (run_stale (PFrame body false) (init {| repaired := true; maxc := mx; blocked := [] |} t0)) in
  let r := r_final (rrun mx (PFrame body false) (r_init [] t0)) in
  forallb (fun a => acct_eqb (acct_of t a) (acct_of r a)) al &&
  forallb (fun a => forallb (fun k => stor t a k =? stor r a k) kl) al.

Definition w_nested_stale_ctx : list prog :=
  [PPrecompile [PPrecompile [OBankSend 1 3 4] true; OBankSend 1 2 1] false].

Lemma nested_stale_ctx_refuted :
  exists w : list prog,
    wf_body 10 w (r_init [] t_w) = true /\
    agrees_stale_at 10 t_w w [1; 2; 3; 4] [1] = false /\
    agrees_at true 10 t_w w [1; 2; 3; 4] [1] = true /\
    (let old := commit (run_stale (PFrame w false) (init {| repaired := true; maxc := 10; blocked := [] |} t_w)) in
     let ref := r_final (rrun 10 (PFrame w false) (r_init [] t_w)) in
     map (acct_of old) [1; 2; 3] = [Some (95, 1, 0); Some (51, 0, 0); None] /\
     map (acct_of ref) [1; 2; 3] = [Some (99, 1, 0); Some (51, 0, 0); None]).
Proof. exists w_nested_stale_ctx. vm_compute. repeat split; reflexivity. Qed.
