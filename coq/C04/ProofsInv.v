(** C04 proofs, part 4 (P2-P4): the simulation relation [R s r] between a model state and a
    reference state ("[r] is what [s] shows, and [s] is ready to be committed"), its monotonicity
    under the caching preorder [le], and a generic lemma for steps that update some addresses. *)
From Coq Require Import ZArith List Bool Lia.
Import ListNotations.
Local Open Scope Z_scope.
Require Import Nib.C04.Model Nib.C04.ProofsBase Nib.C04.ProofsUndo Nib.C04.ProofsOps.

Definition omatch (o : obj) (x : racct) : Prop :=
  bal o = rb x /\ nonce o = rn x /\ code o = rc x /\ suicided o = rs x.

Definition clean (d : option Z) : Prop := d = None \/ d = Some 0.

Definition acc_of_obj (o : obj) : acct := {| a_bal := to_native (bal o); a_nonce := nonce o; a_code := code o |}.

(** per-object facts relative to the two stores *)
Definition obj_good (t cur : store) (a : addr) (o : obj) : Prop :=
  (suicided o = false -> forall k, dirty o k = None -> comm t a o k = stor cur a k) /\
  (forall k v, origin o k = Some v -> v = stor t a k) /\
  (forall k, dirty o k <> None -> origin o k <> None).

Definition obj_written (t cur : store) (a : addr) (o : obj) : Prop :=
  if suicided o then accs cur a = None /\ forall k, stor cur a k = 0
  else accs cur a = Some (acc_of_obj o) /\ forall k, st t a o k = stor cur a k.

Definition trivial_dirty (t : store) (a : addr) (o : obj) : Prop :=
  forall k v, dirty o k = Some v -> v = comm t a o k.

(** everything the simulation says about ONE address *)
Record Rat (s : sdb) (r : rstate) (a : addr) : Prop := {
  A_cnt : forall c, dirt s a = Some c -> 0 <= c;
  A_dl : dirt s a <> None -> lookup s a <> None;
  A_acc : match lookup s a, r_accs r a with
          | Some o, Some x => omatch o x
          | None, None => True
          | _, _ => False end;
  A_sto : forall k, r_stor r a k = match lookup s a with
                                   | Some o => st (txs s) a o k
                                   | None => stor (cur_store s) a k end;
  A_absent : lookup s a = None -> forall k, stor (cur_store s) a k = stor (txs s) a k;
  A_written : forall o, lookup s a = Some o -> clean (dirt s a) -> obj_written (txs s) (cur_store s) a o;
  A_good : forall o, lookup s a = Some o -> obj_good (txs s) (cur_store s) a o;
  A_wr : r_wr r a = false -> rs (r_get r a) = false ->
         (forall k, stor (cur_store s) a k = stor (txs s) a k) /\
         (forall o, lookup s a = Some o -> trivial_dirty (txs s) a o);
  (* the reference knows what the bank holds *)
  A_base : bank_bal (cur_store s) a = r_base r a
}.

Definition R (s : sdb) (r : rstate) : Prop := auxeq (aux s) (r_aux r) /\ forall a, Rat s r a.

Lemma R_aux s r : R s r -> auxeq (aux s) (r_aux r). Proof. intros [H _]; exact H. Qed.
Lemma R_cnt s r : R s r -> forall a c, dirt s a = Some c -> 0 <= c.
Proof. intros [_ H] a. apply (A_cnt s r a (H a)). Qed.
Lemma R_dl s r : R s r -> forall a, dirt s a <> None -> lookup s a <> None.
Proof. intros [_ H] a. apply (A_dl s r a (H a)). Qed.
Lemma R_acc s r : R s r -> forall a, match lookup s a, r_accs r a with
                    | Some o, Some x => omatch o x
                    | None, None => True
                    | _, _ => False end.
Proof. intros [_ H] a. apply (A_acc s r a (H a)). Qed.
Lemma R_sto s r : R s r -> forall a k, r_stor r a k = match lookup s a with
                                     | Some o => st (txs s) a o k
                                     | None => stor (cur_store s) a k end.
Proof. intros [_ H] a. apply (A_sto s r a (H a)). Qed.
Lemma R_absent s r : R s r -> forall a, lookup s a = None -> forall k, stor (cur_store s) a k = stor (txs s) a k.
Proof. intros [_ H] a. apply (A_absent s r a (H a)). Qed.
Lemma R_written s r : R s r -> forall a o, lookup s a = Some o -> clean (dirt s a) -> obj_written (txs s) (cur_store s) a o.
Proof. intros [_ H] a. apply (A_written s r a (H a)). Qed.
Lemma R_good s r : R s r -> forall a o, lookup s a = Some o -> obj_good (txs s) (cur_store s) a o.
Proof. intros [_ H] a. apply (A_good s r a (H a)). Qed.
Lemma R_wr s r : R s r -> forall a, r_wr r a = false -> rs (r_get r a) = false ->
                   (forall k, stor (cur_store s) a k = stor (txs s) a k) /\
                   (forall o, lookup s a = Some o -> trivial_dirty (txs s) a o).
Proof. intros [_ H] a. apply (A_wr s r a (H a)). Qed.
Lemma R_base s r : R s r -> forall a, bank_bal (cur_store s) a = r_base r a.
Proof. intros [_ H] a. apply (A_base s r a (H a)). Qed.

Lemma auxeq_sym x y : auxeq x y -> auxeq y x.
Proof. intros (A&B&C&D). repeat split; intros; congruence. Qed.

Lemma ole_dirty_none t a o o' k : ole t a o o' -> dirty o' k = None -> dirty o k = None.
Proof.
  intros (_&_&_&_&H) Hd. destruct (H k) as [_ [E|(E1&E2&_)]]; [congruence|congruence].
Qed.

(** (P2) the simulation relation is monotone under harmless caching *)
Lemma R_mono s s' r c : R s r -> le s s' -> R s' (r_with_calls r c).
Proof.
  intros HR (J&T&C&X&O&F). destruct (F eq_refl) as [S D].
  assert (L : forall a, lookrel s s' a) by (intros a; apply O; reflexivity).
  split; [simpl; eapply auxeq_trans; [apply auxeq_sym; exact X | apply (R_aux s r HR)]|].
  intros a. specialize (L a). unfold lookrel in L. constructor; simpl.
  - intros c0 Hc. destruct (D a) as [E|[E1 E2]]; [|congruence].
    eapply (R_cnt s r HR a). rewrite E. exact Hc.
  - intros Hd. assert (Hd0 : dirt s a <> None) by (destruct (D a) as [E|[E1 E2]]; congruence).
    pose proof (R_dl s r HR a Hd0) as Hl.
    destruct (lookup s a), (lookup s' a); try contradiction; congruence.
  - pose proof (R_acc s r HR a) as Ha.
    destruct (lookup s a) as [o|], (lookup s' a) as [o'|]; try contradiction; auto.
    destruct (r_accs r a); [|contradiction]. destruct L as (L1&L2&L3&L4&_), Ha as (A1&A2&A3&A4).
    repeat split; congruence.
  - intros k. rewrite (R_sto s r HR a k).
    destruct (lookup s a) as [o|], (lookup s' a) as [o'|]; try contradiction.
    + rewrite <- T. symmetry. apply ole_st; exact L.
    + rewrite S; reflexivity.
  - intros Hl k. rewrite Hl in L.
    destruct (lookup s a) eqn:Hs; [contradiction|]. rewrite <- S, <- T. apply (R_absent s r HR a Hs).
  - intros o' Hl Hcl. rewrite Hl in L.
    destruct (lookup s a) as [o|] eqn:Hs; [|contradiction].
    assert (Hcl0 : clean (dirt s a)).
    { destruct (D a) as [E|[E1 E2]]; [rewrite E; exact Hcl | right; exact E1]. }
    pose proof (R_written s r HR a o Hs Hcl0) as Hw. unfold obj_written in *.
    rewrite <- S, <- T. pose proof L as Lole. destruct L as (L1&L2&L3&L4&L5).
    rewrite <- L4. destruct (suicided o) eqn:Hsu; [exact Hw|].
    destruct Hw as [Hw1 Hw2]. split.
    + rewrite Hw1. unfold acc_of_obj. congruence.
    + intros k. rewrite <- Hw2. apply ole_st. exact Lole.
  - intros o' Hl. rewrite Hl in L.
    destruct (lookup s a) as [o|] eqn:Hs; [|contradiction].
    destruct (R_good s r HR a o Hs) as (G1&G2&G3). rewrite <- S, <- T.
    pose proof L as (L1&L2&L3&L4&L5). split; [|split].
    + intros Hsu k Hd. rewrite (ole_comm _ _ _ _ k L). apply G1; [congruence|].
      eapply ole_dirty_none; eauto.
    + intros k v Hv. destruct (L5 k) as [[E|[E1 E2]] _]; [apply G2; congruence | congruence].
    + intros k Hd. destruct (L5 k) as [Lo [E|(E1&E2&E3)]]; [|exact E3].
      assert (Ho : origin o k <> None) by (apply G3; congruence).
      destruct Lo as [E'|[E1' _]]; congruence.
  - intros Hw Hs. destruct (R_wr s r HR a Hw Hs) as [W1 W2]. rewrite <- S, <- T. split; [exact W1|].
    intros o' Hl. rewrite Hl in L.
    destruct (lookup s a) as [o|] eqn:Hs'; [|contradiction].
    intros k v Hv. rewrite (ole_comm _ _ _ _ k L). destruct L as (_&_&_&_&L5).
    destruct (L5 k) as [_ [E|(E1&E2&_)]]; [apply (W2 o eq_refl k v); congruence | congruence].
  - rewrite <- S. apply (R_base s r HR a).
Qed.

Lemma the_obj_match s r a : R s r -> omatch (the_obj s a) (r_get r a).
Proof.
  intros HR. pose proof (R_acc s r HR a) as H. unfold the_obj, r_get.
  destruct (lookup s a), (r_accs r a); try contradiction; [exact H|repeat split].
Qed.

(** ---- a generic step: every address is either unchanged or freshly updated (and dirty) ---- *)
Definition unch (s s' : sdb) (r r' : rstate) (x : addr) : Prop :=
  lookup s' x = lookup s x /\ dirt s' x = dirt s x /\
  accs (cur_store s') x = accs (cur_store s) x /\ (forall k, stor (cur_store s') x k = stor (cur_store s) x k) /\
  r_accs r' x = r_accs r x /\ (forall k, r_stor r' x k = r_stor r x k) /\ r_wr r' x = r_wr r x /\
  r_base r' x = r_base r x.

Definition updd (s' : sdb) (r' : rstate) (x : addr) : Prop :=
  exists o' y', lookup s' x = Some o' /\ r_accs r' x = Some y' /\ omatch o' y' /\
    (forall c, dirt s' x = Some c -> 0 <= c) /\
    (clean (dirt s' x) -> obj_written (txs s') (cur_store s') x o') /\
    (forall k, r_stor r' x k = st (txs s') x o' k) /\
    obj_good (txs s') (cur_store s') x o' /\
    (r_wr r' x = false -> rs y' = false ->
       (forall k, stor (cur_store s') x k = stor (txs s') x k) /\ trivial_dirty (txs s') x o') /\
    (bank_bal (cur_store s') x = r_base r' x).

Lemma Rat_unch s s' r r' x : Rat s r x -> txs s' = txs s -> cf s' = cf s -> unch s s' r r' x -> Rat s' r' x.
Proof.
  intros HA T CF (U1&U2&U3&U4&U5&U6&U7&U8). constructor.
  - rewrite U2. apply (A_cnt s r x HA).
  - rewrite U1, U2. apply (A_dl s r x HA).
  - rewrite U1, U5. apply (A_acc s r x HA).
  - intros k. rewrite U1, U6, T, U4. apply (A_sto s r x HA k).
  - intros Hl k. rewrite U4, T. apply (A_absent s r x HA). congruence.
  - intros o Hl Hcl. rewrite U1 in Hl. rewrite U2 in Hcl. pose proof (A_written s r x HA o Hl Hcl) as Hw.
    unfold obj_written in *. rewrite T, U3. destruct (suicided o).
    + destruct Hw as [W1 W2]. split; [exact W1|]. intros k. rewrite U4. apply W2.
    + destruct Hw as [W1 W2]. split; [exact W1|]. intros k. rewrite U4. apply W2.
  - intros o Hl. rewrite U1 in Hl. destruct (A_good s r x HA o Hl) as (G1&G2&G3). rewrite T.
    split; [|split; assumption]. intros Hs k Hd. rewrite U4. apply G1; assumption.
  - intros Hw Hs. rewrite U7 in Hw. unfold r_get in Hs. rewrite U5 in Hs.
    destruct (A_wr s r x HA Hw Hs) as [W1 W2]. rewrite T. split.
    + intros k. rewrite U4. apply W1.
    + intros o Hl. rewrite U1 in Hl. apply W2; exact Hl.
  - unfold bank_bal. rewrite U3, U8. apply (A_base s r x HA).
Qed.

(** the same with the blocked-account clause given directly *)
Lemma Rat_unchB s s' r r' x :
  Rat s r x -> txs s' = txs s ->
  lookup s' x = lookup s x -> dirt s' x = dirt s x ->
  accs (cur_store s') x = accs (cur_store s) x -> (forall k, stor (cur_store s') x k = stor (cur_store s) x k) ->
  r_accs r' x = r_accs r x -> (forall k, r_stor r' x k = r_stor r x k) -> r_wr r' x = r_wr r x ->
  bank_bal (cur_store s') x = r_base r' x ->
  Rat s' r' x.
Proof.
  intros HA T U1 U2 U3 U4 U5 U6 U7 B.
  constructor.
  - rewrite U2. apply (A_cnt s r x HA).
  - rewrite U1, U2. apply (A_dl s r x HA).
  - rewrite U1, U5. apply (A_acc s r x HA).
  - intros k. rewrite U1, U6, T, U4. apply (A_sto s r x HA k).
  - intros Hl k. rewrite U4, T. apply (A_absent s r x HA). congruence.
  - intros o Hl Hcl. rewrite U1 in Hl. rewrite U2 in Hcl. pose proof (A_written s r x HA o Hl Hcl) as Hw.
    unfold obj_written in *. rewrite T, U3. destruct (suicided o).
    + destruct Hw as [W1 W2]. split; [exact W1|]. intros k. rewrite U4. apply W2.
    + destruct Hw as [W1 W2]. split; [exact W1|]. intros k. rewrite U4. apply W2.
  - intros o Hl. rewrite U1 in Hl. destruct (A_good s r x HA o Hl) as (G1&G2&G3). rewrite T.
    split; [|split; assumption]. intros Hs k Hd. rewrite U4. apply G1; assumption.
  - intros Hw Hs. rewrite U7 in Hw. unfold r_get in Hs. rewrite U5 in Hs.
    destruct (A_wr s r x HA Hw Hs) as [W1 W2]. rewrite T. split.
    + intros k. rewrite U4. apply W1.
    + intros o Hl. rewrite U1 in Hl. apply W2; exact Hl.
  - exact B.
Qed.

Lemma Rat_gen s' r' x : updd s' r' x -> Rat s' r' x.
Proof.
  intros (o'&y'&L&A&M&Hp&Hwr&St&G&W&B). constructor.
  - exact Hp.
  - intros _. congruence.
  - rewrite L, A. exact M.
  - intros k. rewrite L. apply St.
  - congruence.
  - intros o Hl Hcl. rewrite L in Hl. inversion Hl; subst. apply Hwr; exact Hcl.
  - intros o Hl. rewrite L in Hl. inversion Hl; subst. exact G.
  - intros Hw Hs. unfold r_get in Hs. rewrite A in Hs. destruct (W Hw Hs) as [W1 W2]. split; [exact W1|].
    intros o Hl. rewrite L in Hl. inversion Hl; subst. exact W2.
  - exact B.
Qed.

Lemma R_step s s' r r' :
  R s r -> txs s' = txs s -> cf s' = cf s -> auxeq (aux s') (r_aux r') ->
  (forall x, unch s s' r r' x \/ updd s' r' x) -> R s' r'.
Proof.
  intros [_ HR] T CF X H. split; [exact X|]. intros x. destruct (H x) as [U|G].
  - eapply Rat_unch; eauto.
  - apply Rat_gen; exact G.
Qed.

(** ---- facts about the object a setter works on ---- *)
Lemma the_obj_good s r a : R s r -> obj_good (txs s) (cur_store s) a (the_obj s a).
Proof.
  intros HR. unfold the_obj. destruct (lookup s a) as [o|] eqn:Hl; [apply (R_good s r HR a o Hl)|].
  split; [|split]; simpl; try discriminate; [|intros k Hd; contradiction].
  intros _ k _. unfold comm. simpl. symmetry. apply (R_absent s r HR a Hl).
Qed.

Lemma the_obj_sto s r a k : R s r -> r_stor r a k = st (txs s) a (the_obj s a) k.
Proof.
  intros HR. rewrite (R_sto s r HR a k). unfold the_obj. destruct (lookup s a) eqn:Hl; [reflexivity|].
  unfold st, comm. simpl. apply (R_absent s r HR a Hl).
Qed.

Lemma the_obj_wr s r a : R s r -> r_wr r a = false -> rs (r_get r a) = false ->
  (forall k, stor (cur_store s) a k = stor (txs s) a k) /\ trivial_dirty (txs s) a (the_obj s a).
Proof.
  intros HR Hw Hs. destruct (R_wr s r HR a Hw Hs) as [W1 W2]. split; [exact W1|].
  unfold the_obj. destruct (lookup s a) eqn:Hl; [apply W2; reflexivity|].
  intros k v Hd. discriminate.
Qed.

(** fields of getOrNewStateObject *)
Lemma get_or_new_lookup_other s a x : x <> a -> lookup (get_or_new s a) x = lookup s x.
Proof.
  intros Hx. unfold get_or_new. destruct (lookup s a); [apply lookup_cached|].
  rewrite lookup_set_other, lookup_push by assumption. reflexivity.
Qed.
Lemma get_or_new_dirt_other s a x : x <> a -> dirt (get_or_new s a) x = dirt s x.
Proof.
  intros Hx. unfold get_or_new. destruct (lookup s a); [rewrite cached_dirt; reflexivity|].
  unfold set_obj; sdb_simp. rewrite push_dirt. simpl. unfold dinc. apply upd_other; assumption.
Qed.
Lemma get_or_new_dirt_same s a :
  (forall c, dirt s a = Some c -> 0 <= c) ->
  match dirt (get_or_new s a) a with Some c => 0 <= c | None => True end.
Proof.
  intros Hc. unfold get_or_new. destruct (lookup s a).
  - rewrite cached_dirt. destruct (dirt s a); auto.
  - unfold set_obj; sdb_simp. rewrite push_dirt. simpl. unfold dinc. rewrite upd_same.
    destruct (dirt s a) as [c|]; [specialize (Hc c eq_refl); lia | lia].
Qed.
Lemma get_or_new_aux s a : aux (get_or_new s a) = aux s.
Proof. unfold get_or_new. destruct (lookup s a); [apply cached_aux|]. unfold set_obj; sdb_simp. apply push_aux. Qed.
Lemma get_or_new_cf s a : cf (get_or_new s a) = cf s.
Proof. unfold get_or_new. destruct (lookup s a); [apply cached_cf|]. unfold set_obj; sdb_simp. apply push_cf. Qed.
Lemma get_or_new_calls s a : calls (get_or_new s a) = calls s.
Proof. unfold get_or_new. destruct (lookup s a); [apply cached_calls|]. unfold set_obj; sdb_simp. apply push_calls. Qed.

(** a journaled update of one object (after getOrNewStateObject) *)
Lemma mutator_R s r r' a e o' y' :
  R s r -> dirtied e = Some a ->
  r_aux r' = r_aux r -> (forall x, r_base r' x = r_base r x) ->
  (forall x, x <> a -> r_accs r' x = r_accs r x /\ (forall k, r_stor r' x k = r_stor r x k) /\ r_wr r' x = r_wr r x) ->
  r_accs r' a = Some y' -> omatch o' y' ->
  (forall k, r_stor r' a k = st (txs s) a o' k) ->
  obj_good (txs s) (cur_store s) a o' ->
  (r_wr r' a = false -> rs y' = false ->
     (forall k, stor (cur_store s) a k = stor (txs s) a k) /\ trivial_dirty (txs s) a o') ->
  R (set_obj (push (get_or_new s a) e) a o') r'.
Proof.
  intros HR Hd Hx Hbase Hoff Ha Hm Hst Hg Hw.
  set (s' := set_obj (push (get_or_new s a) e) a o').
  assert (CF : cf s' = cf s) by (subst s'; unfold set_obj; sdb_simp; rewrite push_cf; apply get_or_new_cf).
  assert (T : txs s' = txs s) by (subst s'; unfold set_obj; sdb_simp; rewrite push_txs; apply get_or_new_txs).
  assert (Cu : cur_store s' = cur_store s).
  { subst s'. unfold cur_store at 1. unfold set_obj; sdb_simp. rewrite push_cache, push_txs. apply get_or_new_cur. }
  apply (R_step s s' r r' HR T CF).
  - subst s'. unfold set_obj; sdb_simp. rewrite push_aux, get_or_new_aux, Hx. apply HR.
  - intros x. destruct (Z.eq_dec x a) as [->|Hne].
    + right. unfold updd. exists o', y'. rewrite T, Cu.
      split; [subst s'; apply lookup_set_same|]. split; [exact Ha|]. split; [exact Hm|].
      assert (Hpos : exists c, dirt s' a = Some c /\ 0 < c).
      { subst s'. unfold set_obj; sdb_simp. rewrite push_dirt, Hd. unfold dinc. rewrite upd_same.
        pose proof (get_or_new_dirt_same s a (R_cnt s r HR a)) as Hc.
        destruct (dirt (get_or_new s a) a) as [c|]; eexists; split; try reflexivity; lia. }
      destruct Hpos as (c & Hc & Hp).
      split; [intros c0 Hc0; rewrite Hc in Hc0; inversion Hc0; lia|].
      split; [intros [E|E]; rewrite Hc in E; inversion E; lia|].
      split; [exact Hst|]. split; [exact Hg|]. split; [exact Hw|].
      rewrite Hbase. apply (R_base s r HR a).
    + left. unfold unch. destruct (Hoff x Hne) as (O1&O2&O3). rewrite Cu.
      split; [subst s'; rewrite lookup_set_other, lookup_push by assumption; apply get_or_new_lookup_other; assumption|].
      split; [subst s'; unfold set_obj; sdb_simp; rewrite push_dirt, Hd; unfold dinc; rewrite upd_other by assumption; apply get_or_new_dirt_other; assumption|].
      repeat split; auto.
Qed.
