(** C04 — evaluation of implementation traces: correspondence (model of the current code vs
    observed) and the property predicate [Pb] (reference vs observed) on the trace itself. *)
From Coq Require Import ZArith List Bool.
Import ListNotations.
Local Open Scope Z_scope.
Require Import Nib.C04.Model Nib.C04.Spec.

Record case := {
  c_accs : list (Z * (Z * Z * Z));     (* initial accounts: address, (unibi, nonce, code id) *)
  c_stor : list (Z * Z * Z);           (* initial storage *)
  c_script : list prog;
  c_blocked : list Z;                  (* model addresses that are blocked module accounts *)
  c_fail : bool;                       (* StateDB.Commit returned an error (or the run panicked) *)
  c_obs : observed
}.

Fixpoint assoc {V} (l : list (Z * V)) (a : Z) : option V :=
  match l with [] => None | (x, v) :: t => if Z.eqb x a then Some v else assoc t a end.

Definition store_of (c : case) : store :=
  {| accs := fun a => match assoc (c_accs c) a with
                      | Some (b, n, cd) => Some {| a_bal := b; a_nonce := n; a_code := cd |}
                      | None => None end;
     stor := fun a k =>
       match find (fun p => Z.eqb (fst (fst p)) a && Z.eqb (snd (fst p)) k) (c_stor c) with
       | Some p => snd p | None => 0 end |}.

Fixpoint obs_eqb (x y : list obs) : bool :=
  match x, y with
  | [], [] => true
  | (a, b, c) :: x', (a', b', c') :: y' => (a =? a') && (b =? b') && (c =? c') && obs_eqb x' y'
  | _, _ => false
  end.

(** model of the CURRENT code (repaired = true) with the call limit read from /repo *)
Definition model_run (mx : Z) (c : case) : sdb :=
  run (PFrame (c_script c) false) (init {| repaired := true; maxc := mx; blocked := c_blocked c |} (store_of c)).

Definition mismatch (mx : Z) (c : case) : bool :=
  let s := model_run mx c in
  if commit_fails s then negb (c_fail c)      (* Commit must fail; what a failed Commit leaves behind is not compared *)
  else c_fail c || negb (final_matches (commit s) (aux s) (c_obs c) && obs_eqb (rev (out s)) (o_views (c_obs c))).

(** the same comparison against the model of the code BEFORE the repair "cacheStore cell" (a running
    precompile body keeps the multistore object it was started with, [run_stale]): used to tie that
    variant to a tree without the repair; not part of the verdict *)
Definition mismatch_stale (mx : Z) (c : case) : bool :=
  let s := run_stale (PFrame (c_script c) false) (init {| repaired := true; maxc := mx; blocked := c_blocked c |} (store_of c)) in
  if commit_fails s then negb (c_fail c)
  else c_fail c || negb (final_matches (commit s) (aux s) (c_obs c) && obs_eqb (rev (out s)) (o_views (c_obs c))).

(** scripts outside the reference's domain (see [wf]) are compared with the model only *)
Definition in_domain (mx : Z) (c : case) : bool :=
  wf_body mx (c_script c) (r_init (c_blocked c) (store_of c)) &&
  negb (r_pending (rrun mx (PFrame (c_script c) false) (r_init (c_blocked c) (store_of c)))).

Definition violates (mx : Z) (c : case) : bool :=
  in_domain mx c && (c_fail c || negb (Pb mx (c_blocked c) (store_of c) (c_script c) (c_obs c))).
