(** C14 — executable model of the epochs clock
    (x/epochs/abci.go BeginBlocker + shouldEpochStart, x/epochs/keeper/epoch.go AddEpochInfo,
     x/epochs/genesis.go InitGenesis + x/epochs/types/genesis.go GenesisState.Validate (module (re-)initialisation
     at any point of a history), x/epochs/types/hooks.go MultiEpochHooks).  No proofs in this file.

    Times are integers (nanoseconds since the Unix epoch, any sign), durations are integers
    (time.Duration, any sign: Validate only rejects 0), epoch numbers and heights are integers
    (uint64 / int64 in Go; no wrap-around is modelled — 2^64 epochs do not happen).
    Identifiers are natural numbers whose order is the byte order of the identifier strings
    (the order in which collections.Map iterates). *)
From Coq Require Import ZArith List Bool Arith.
Import ListNotations.
Local Open Scope Z_scope.

Record einfo := {
  e_id : nat;            (* Identifier *)
  e_start : Z;           (* StartTime *)
  e_dur : Z;             (* Duration *)
  e_cur : Z;             (* CurrentEpoch *)
  e_cur_start : Z;       (* CurrentEpochStartTime *)
  e_height : Z;          (* CurrentEpochStartHeight *)
  e_started : bool       (* EpochCountingStarted *)
}.

Inductive hook :=
| AfterEnd (id : nat) (n : Z)       (* EpochHooks.AfterEpochEnd(ctx, id, n) *)
| BeforeStart (id : nat) (n : Z).   (* EpochHooks.BeforeEpochStart(ctx, id, n) *)

Definition hook_id (h : hook) : nat := match h with AfterEnd i _ | BeforeStart i _ => i end.

(** BeginBlocker's two guards:  !(blockTime.Before(StartTime))  &&  shouldEpochStart *)
Definition should_tick (e : einfo) (t : Z) : bool :=
  (e_start e <=? t) && (negb (e_started e) || (e_cur_start e + e_dur e <=? t)).

(** the body executed when both guards pass *)
Definition tick (e : einfo) (t h : Z) : einfo * list hook :=
  if e_started e then
    ({| e_id := e_id e; e_start := e_start e; e_dur := e_dur e; e_cur := e_cur e + 1;
        e_cur_start := t; e_height := h; e_started := true |},
     [AfterEnd (e_id e) (e_cur e); BeforeStart (e_id e) (e_cur e + 1)])
  else
    ({| e_id := e_id e; e_start := e_start e; e_dur := e_dur e; e_cur := 1;
        e_cur_start := t; e_height := h; e_started := true |},
     [BeforeStart (e_id e) 1]).

Definition step_info (t h : Z) (e : einfo) : einfo * list hook :=
  if should_tick e t then tick e t h else (e, []).

(** the state is the list of epoch infos in iteration (identifier) order *)
Definition state := list einfo.

Definition begin_block (s : state) (t h : Z) : state * list hook :=
  let r := map (step_info t h) s in (map fst r, concat (map snd r)).

(** AddEpochInfo under a context with block time [ct] and height [ch] *)
Record add_args := {
  a_id : nat; a_empty : bool;          (* identifier (and whether the string is empty) *)
  a_start : option Z;                  (* None = zero time.Time{} *)
  a_dur : Z; a_cur : Z; a_cur_start : Z; a_height : Z; a_started : bool
}.

Fixpoint has_id (i : nat) (s : state) : bool :=
  match s with [] => false | e :: r => Nat.eqb (e_id e) i || has_id i r end.

Fixpoint insert (x : einfo) (s : state) : state :=
  match s with
  | [] => [x]
  | e :: r => if Nat.ltb (e_id x) (e_id e) then x :: e :: r else e :: insert x r
  end.

Definition add_epoch (s : state) (ct ch : Z) (a : add_args) : state * bool :=
  if a_empty a || (a_dur a =? 0) || (a_height a <? 0) then (s, false)
  else if has_id (a_id a) s then (s, false)
  else (insert {| e_id := a_id a;
                  e_start := match a_start a with Some x => x | None => ct end;
                  e_dur := a_dur a; e_cur := a_cur a; e_cur_start := a_cur_start a;
                  e_height := ch; e_started := a_started a |} s, true).

(** the info AddEpochInfo stores *)
Definition added (ct ch : Z) (a : add_args) : einfo :=
  {| e_id := a_id a; e_start := match a_start a with Some x => x | None => ct end; e_dur := a_dur a;
     e_cur := a_cur a; e_cur_start := a_cur_start a; e_height := ch; e_started := a_started a |}.

(* ---------------------------------------------------------------- module (re-)initialisation *)

(** x/epochs/genesis.go InitGenesis under a context with block time [ct] / height [ch] and a genesis state [gs]
    (the list of its EpochInfos) — on ANY store, empty (chain start) or live (a software upgrade whose handler
    calls mm.RunMigrations with a version map without the module's entry: the SDK then calls the module's
    InitGenesis with DefaultGenesis in the middle of the chain):

        GenesisState.Validate (every EpochInfo.Validate, identifiers pairwise distinct) — else nothing is written;
        for each epoch in order: AddEpochInfo — the first error (an identifier that already exists) stops the
        loop; what was added before stays.

    [guard] is the variant switch: [true] = this tree (every write goes through AddEpochInfo, whose existence check
    refuses a stored identifier — Gen/C14Facts.v [initgenesis_keeper_calls], [add_exists_guard_before_insert]);
    [false] = InitGenesis writes every epoch directly under its identifier (no existence check). *)
Definition args_valid (a : add_args) : bool := negb (a_empty a || (a_dur a =? 0) || (a_height a <? 0)).

Fixpoint arg_ids_distinct (l : list add_args) : bool :=
  match l with
  | [] => true
  | a :: r => negb (existsb (fun b => Nat.eqb (a_id b) (a_id a)) r) && arg_ids_distinct r
  end.

Definition genesis_valid (gs : list add_args) : bool := forallb args_valid gs && arg_ids_distinct gs.

(** collections.Map.Insert: overwrite the info stored under the identifier, or insert it in key order *)
Fixpoint upsert (x : einfo) (s : state) : state :=
  match s with
  | [] => [x]
  | e :: r => if Nat.eqb (e_id e) (e_id x) then x :: r
              else if Nat.ltb (e_id x) (e_id e) then x :: e :: r else e :: upsert x r
  end.

Fixpoint add_all (guard : bool) (s : state) (ct ch : Z) (gs : list add_args) : state * bool :=
  match gs with
  | [] => (s, true)
  | a :: r =>
      if guard then
        let '(s1, ok) := add_epoch s ct ch a in if ok then add_all guard s1 ct ch r else (s1, false)
      else add_all guard (upsert (added ct ch a) s) ct ch r
  end.

Definition init_genesis (guard : bool) (s : state) (ct ch : Z) (gs : list add_args) : state * bool :=
  if genesis_valid gs then add_all guard s ct ch gs else (s, false).

Inductive op :=
| Block (t h : Z)                 (* epochs.BeginBlocker under a context with this time / height *)
| Add (ct ch : Z) (a : add_args)  (* keeper.AddEpochInfo under a context with this time / height *)
| Init (via_module : bool) (ct ch : Z) (gs : list add_args).
    (* InitGenesis with genesis state [gs] under a context with this time / height, at any point of a history.
       via_module = false: the function epochs.InitGenesis (its error is observed);
       via_module = true: AppModule.InitGenesis (called by InitChain and by RunMigrations for a module missing in the
       version map), which DISCARDS the error — the caller always sees success *)

(** what one op publishes: success flag, epoch infos afterwards, hook calls *)
Record out := { o_ok : bool; o_infos : state; o_hooks : list hook }.

(** [guard]: the variant switch of [init_genesis]; [step] / [run] are this tree ([guard = true]) *)
Definition step_v (guard : bool) (s : state) (o : op) : state * out :=
  match o with
  | Block t h => let '(s', l) := begin_block s t h in (s', {| o_ok := true; o_infos := s'; o_hooks := l |})
  | Add ct ch a => let '(s', ok) := add_epoch s ct ch a in (s', {| o_ok := ok; o_infos := s'; o_hooks := [] |})
  | Init via ct ch gs =>
      let '(s', ok) := init_genesis guard s ct ch gs in (s', {| o_ok := via || ok; o_infos := s'; o_hooks := [] |})
  end.

Fixpoint run_v (guard : bool) (s : state) (ops : list op) : state * list out :=
  match ops with
  | [] => (s, [])
  | o :: r => let '(s1, x) := step_v guard s o in let '(s2, xs) := run_v guard s1 r in (s2, x :: xs)
  end.

Notation step := (step_v true).
Notation run := (run_v true).

(** MultiEpochHooks with [k] registered hooks: every call reaches hook 0, 1, …, k-1 in slice order *)
Definition fanout (k : nat) (l : list hook) : list (nat * hook) :=
  flat_map (fun c => map (fun r => (r, c)) (seq 0 k)) l.

(** variant switch: [skip0 = true] = MultiEpochHooks.AfterEpochEnd returns early for epoch number 0 (no receiver sees
    the end of epoch 0); [fanout] is this tree ([skip0 = false]: one unconditional loop, Gen/C14Facts.v) *)
Definition fanout_v (skip0 : bool) (k : nat) (l : list hook) : list (nat * hook) :=
  fanout k (if skip0 then filter (fun c => match c with AfterEnd _ 0 => false | _ => true end) l else l).

(* ---------------------------------------------------------------- a failing hook receiver *)

(** One of the registered hook receivers panics when it receives a chosen call, the first [left] times.
    The keeper wrappers and MultiEpochHooks do not recover (Gen/C14Facts.v), so the panic leaves
    BeginBlocker: the block is not committed — no EpochInfo change, no hook effect. *)
Record trigger := { g_id : nat; g_n : Z; g_end : bool (* true: AfterEpochEnd, false: BeforeEpochStart *) }.

Definition hook_matches (g : trigger) (x : hook) : bool :=
  match x with
  | AfterEnd i n => g_end g && Nat.eqb i (g_id g) && (n =? g_n g)
  | BeforeStart i n => negb (g_end g) && Nat.eqb i (g_id g) && (n =? g_n g)
  end.

Definition step_f (g : trigger) (sl : state * nat) (o : op) : (state * nat) * out :=
  let '(s, lf) := sl in
  match o with
  | Block t h =>
      let '(s', l) := begin_block s t h in
      match lf with
      | S lf' =>
          if existsb (hook_matches g) l
          then ((s, lf'), {| o_ok := false; o_infos := s; o_hooks := [] |})      (* aborted: nothing committed *)
          else ((s', lf), {| o_ok := true; o_infos := s'; o_hooks := l |})
      | O => ((s', lf), {| o_ok := true; o_infos := s'; o_hooks := l |})
      end
  | Add ct ch a => let '(s', ok) := add_epoch s ct ch a in ((s', lf), {| o_ok := ok; o_infos := s'; o_hooks := [] |})
  | Init via ct ch gs =>
      let '(s', ok) := init_genesis true s ct ch gs in ((s', lf), {| o_ok := via || ok; o_infos := s'; o_hooks := [] |})
  end.

Fixpoint run_f (g : trigger) (sl : state * nat) (ops : list op) : (state * nat) * list out :=
  match ops with
  | [] => (sl, [])
  | o :: r => let '(sl1, x) := step_f g sl o in let '(sl2, xs) := run_f g sl1 r in (sl2, x :: xs)
  end.
