(** C14 — exported statements only. *)
From Coq Require Import ZArith List Bool Arith.
Import ListNotations.
Require Import Nib.C14.Model Nib.C14.Spec Nib.C14.Proofs.
Local Open Scope Z_scope.

Theorem C14_checker_sound : forall s tr, Pb_trace s tr = true -> P_trace s tr.
Proof. intros s tr. exact (Pb_trace_sound tr s). Qed.
Print Assumptions C14_checker_sound.
