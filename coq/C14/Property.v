(** C14 — epochs tick once per elapsed duration with hooks in order.
    This file holds only the exported statements (model: Model.v, vocabulary: Spec.v). *)
From Coq Require Import ZArith List Bool Arith.
Import ListNotations.
Require Import Nib.C14.Model Nib.C14.Spec Nib.C14.Check Nib.C14.Proofs.
Local Open Scope Z_scope.

(** THE PROPERTY, block by block, along every history: for every sequence of BeginBlocker runs,
    AddEpochInfo calls and InitGenesis runs (module (re-)initialisation with ANY genesis state — the default one,
    one with duplicated / invalid / already stored identifiers — at ANY point of the chain, e.g. by an upgrade
    handler's RunMigrations for a version map without the module) with non-decreasing context times and well-formed
    definitions, starting from any well-formed state, every op that is not a block keeps every stored info
    unchanged and calls no hook ([P_keep]) and every block satisfies [P_block]: per identifier the epoch number stays or advances by
    exactly one; it advances iff (not counting and start time reached) or (counting and block time >= current
    start + duration); on an advance the recorded start time / height are the block's and the hook calls for
    the identifier are exactly [AfterEpochEnd n (omitted on the first tick); BeforeEpochStart (n+1)]; without
    an advance the info is unchanged and no hook is called; no hook is called for unknown identifiers. *)
Theorem C14_every_block_of_every_history :
  forall (ops : list op) (now : Z) (s : state),
    Inv now s -> ops_ok now ops -> P_trace s (combine ops (snd (run s ops))).
Proof. exact trace_satisfies_property. Qed.
Print Assumptions C14_every_block_of_every_history.

(** The epoch number of an identifier never decreases over a history of blocks, additions and module
    re-initialisations (any times, also decreasing ones); identifier, start time and duration never change. Needs only: an epoch that is not counting has number <= 1. *)
Theorem C14_monotone :
  forall (ops : list op) (s : state) (i : nat) (e : einfo),
    Forall cur_ok s -> Forall add_cur_ok ops -> lookup i s = Some e ->
    exists e', lookup i (fst (run s ops)) = Some e' /\ e_cur e <= e_cur e' /\
               e_id e' = e_id e /\ e_start e' = e_start e /\ e_dur e' = e_dur e /\
               (e_started e = true -> e_started e' = true).
Proof. exact epoch_number_monotone. Qed.
Print Assumptions C14_monotone.

(** The code's advance condition, exactly, without any hypothesis. *)
Theorem C14_tick_condition_exact :
  forall (e : einfo) (t : Z),
    should_tick e t = true <-> e_start e <= t /\ (e_started e = false \/ e_cur_start e + e_dur e <= t).
Proof. exact should_tick_exact. Qed.
Print Assumptions C14_tick_condition_exact.

(** Advance by exactly one iff the property's condition, for a well-formed info when the clock did not go
    back (or the duration is non-negative). *)
Theorem C14_tick_iff :
  forall (now t h : Z) (e : einfo),
    wf_info now e -> (now <= t \/ 0 <= e_dur e) ->
    (e_cur (fst (step_info t h e)) = e_cur e + 1 <-> cond e t).
Proof. exact tick_iff_cond. Qed.
Print Assumptions C14_tick_iff.

(** At most one advance and at most one pair of hook calls per identifier per block, however long the stall. *)
Theorem C14_at_most_one_per_block :
  forall (s : state) (t h : Z) (i : nat) (e : einfo),
    NoDup (ids s) -> lookup i s = Some e -> (e_started e = false -> e_cur e = 0) ->
    exists e', lookup i (fst (begin_block s t h)) = Some e' /\
      ((e' = e /\ proj i (snd (begin_block s t h)) = []) \/
       (e_cur e' = e_cur e + 1 /\ proj i (snd (begin_block s t h)) = tick_hooks e)).
Proof. exact at_most_one_per_block. Qed.
Print Assumptions C14_at_most_one_per_block.

(** Over a whole history of blocks, additions and module re-initialisations (no assumption on times or counters):
    the hook calls of an identifier are exactly
    the consecutive pairs AfterEpochEnd n; BeforeEpochStart (n+1) from its first to its last epoch number, in
    this order, preceded by a lone BeforeEpochStart 1 when counting started inside the history. *)
Theorem C14_hooks_exactly_once_in_order :
  forall (ops : list op) (s : state) (i : nat) (e : einfo),
    NoDup (ids s) -> lookup i s = Some e ->
    exists e', lookup i (fst (run s ops)) = Some e' /\
               proj i (all_hooks (snd (run s ops))) = expected e e'.
Proof. exact hooks_closed_form. Qed.
Print Assumptions C14_hooks_exactly_once_in_order.

(** … as counts: AfterEpochEnd(n) exactly once for each epoch number left, BeforeEpochStart(n) exactly once
    for each number entered, zero times otherwise. *)
Theorem C14_hooks_exactly_once_count :
  forall (ops : list op) (s : state) (i : nat) (e : einfo),
    NoDup (ids s) -> lookup i s = Some e -> e_started e = true ->
    exists e', lookup i (fst (run s ops)) = Some e' /\ e_cur e <= e_cur e' /\
      (forall n, count_occ hook_eq_dec (proj i (all_hooks (snd (run s ops)))) (AfterEnd i n) =
                 if (e_cur e <=? n) && (n <? e_cur e') then 1%nat else 0%nat) /\
      (forall n, count_occ hook_eq_dec (proj i (all_hooks (snd (run s ops)))) (BeforeStart i n) =
                 if (e_cur e + 1 <=? n) && (n <=? e_cur e') then 1%nat else 0%nat).
Proof. exact hooks_exactly_once. Qed.
Print Assumptions C14_hooks_exactly_once_count.

(** An identifier that is not defined receives no hook call. *)
Theorem C14_no_hooks_for_absent_id :
  forall (s : state) (t h : Z) (i : nat), lookup i s = None -> proj i (snd (begin_block s t h)) = [].
Proof. exact no_hooks_for_absent_id. Qed.
Print Assumptions C14_no_hooks_for_absent_id.

(** The recorded start time and height of a new epoch are the advancing block's. *)
Theorem C14_start_is_block :
  forall (t h : Z) (e : einfo),
    should_tick e t = true ->
    e_cur_start (fst (step_info t h e)) = t /\ e_height (fst (step_info t h e)) = h /\
    e_started (fst (step_info t h e)) = true.
Proof. exact start_is_block. Qed.
Print Assumptions C14_start_is_block.

(** Equal consecutive times: no second advance (positive duration). *)
Theorem C14_equal_time_no_second_tick :
  forall (t h h' : Z) (e : einfo),
    0 < e_dur e -> should_tick e t = true ->
    step_info t h' (fst (step_info t h e)) = (fst (step_info t h e), []).
Proof. exact equal_time_no_second_tick. Qed.
Print Assumptions C14_equal_time_no_second_tick.

(** A block time before the current epoch's end — including a clock that went back — changes nothing. *)
Theorem C14_earlier_time_no_tick :
  forall (t h : Z) (e : einfo),
    e_started e = true -> t < e_cur_start e + e_dur e -> step_info t h e = (e, []).
Proof. exact earlier_time_no_tick. Qed.
Print Assumptions C14_earlier_time_no_tick.

(** A stall of k+1 durations is a single advance; the new epoch starts at the block's time (no catching up). *)
Theorem C14_stall_is_one_tick :
  forall (t h : Z) (e : einfo) (k : Z),
    e_started e = true -> e_start e <= t -> 0 <= k -> e_cur_start e + (k + 1) * e_dur e <= t -> 0 <= e_dur e ->
    e_cur (fst (step_info t h e)) = e_cur e + 1 /\ e_cur_start (fst (step_info t h e)) = t.
Proof. exact stall_is_one_tick. Qed.
Print Assumptions C14_stall_is_one_tick.

(** Durations: Validate rejects only 0; a negative duration makes the epoch advance in every block. *)
Theorem C14_nonpositive_duration_ticks_every_block :
  forall (t : Z) (e : einfo),
    e_started e = true -> e_dur e <= 0 -> e_start e <= t -> e_cur_start e <= t -> should_tick e t = true.
Proof. exact nonpositive_duration_ticks_every_block. Qed.
Print Assumptions C14_nonpositive_duration_ticks_every_block.

(** Outside well-formedness (AddEpochInfo / genesis validation accept such infos) the statement fails:
    a not-counting info with a non-zero epoch number goes back to 1 … *)
Theorem C14_monotone_refuted_for_unstarted_nonzero_epoch :
  exists e t h, e_started e = false /\ e_cur (fst (step_info t h e)) < e_cur e.
Proof. exact monotone_refuted_for_unstarted_nonzero_epoch. Qed.
Print Assumptions C14_monotone_refuted_for_unstarted_nonzero_epoch.

(** … and a counting info whose StartTime lies after its current start does not advance although its
    duration has elapsed. *)
Theorem C14_tick_iff_refuted_for_started_before_start_time :
  exists e t h, e_started e = true /\ cond e t /\ step_info t h e = (e, []).
Proof. exact tick_iff_refuted_for_started_before_start_time. Qed.
Print Assumptions C14_tick_iff_refuted_for_started_before_start_time.

(** MODULE RE-INITIALISATION.  InitGenesis may run at any point of a history (ops [Init]; every theorem above and
    below quantifies over histories containing them).  On this tree every write of InitGenesis goes through
    AddEpochInfo's existence check (Gen/C14Oblig.v), so: an identifier that is stored is never touched … *)
Theorem C14_init_keeps_every_stored_info :
  forall (i : nat) (s : state) (ct ch : Z) (gs : list add_args) (e : einfo),
    lookup i s = Some e -> lookup i (fst (init_genesis true s ct ch gs)) = Some e.
Proof. exact lookup_init. Qed.
Print Assumptions C14_init_keeps_every_stored_info.

(** … re-running it with a genesis state whose identifiers are all stored (the upgrade route with the default
    genesis) is the identity and reports the error that AppModule.InitGenesis discards … *)
Theorem C14_init_on_initialised_store_is_identity :
  forall (ct ch : Z) (gs : list add_args) (s : state),
    gs <> [] -> (forall a, In a gs -> has_id (a_id a) s = true) -> init_genesis true s ct ch gs = (s, false).
Proof. exact init_on_initialised_store_is_identity. Qed.
Print Assumptions C14_init_on_initialised_store_is_identity.

(** … and a genesis state with an invalid definition or a duplicated identifier writes nothing. *)
Theorem C14_init_invalid_genesis_writes_nothing :
  forall (g : bool) (s : state) (ct ch : Z) (gs : list add_args),
    genesis_valid gs = false -> init_genesis g s ct ch gs = (s, false).
Proof. exact init_invalid_genesis_writes_nothing. Qed.
Print Assumptions C14_init_invalid_genesis_writes_nothing.

(** The variant in which InitGenesis writes every epoch directly under its identifier (no existence check,
    [run_v false]) violates the property on a history inside every hypothesis above: the epoch number of a running
    identifier decreases (4, then 1) … *)
Theorem C14_monotone_refuted_for_unguarded_init :
  exists (ops : list op) (now : Z) (s : state) (i : nat) (e e' : einfo),
    Inv now s /\ ops_ok now ops /\ Forall cur_ok s /\ Forall add_cur_ok ops /\
    lookup i s = Some e /\ lookup i (fst (run_v false s ops)) = Some e' /\ e_cur e' < e_cur e.
Proof. exact monotone_refuted_for_unguarded_init. Qed.
Print Assumptions C14_monotone_refuted_for_unguarded_init.

(** … BeforeEpochStart(id,1) is delivered twice and AfterEpochEnd(id,4) never (once each on this tree) … *)
Theorem C14_hooks_once_refuted_for_unguarded_init :
  exists (ops : list op) (i : nat),
    Inv 100 [] /\ ops_ok 100 ops /\
    count_occ hook_eq_dec (proj i (all_hooks (snd (run_v false [] ops)))) (BeforeStart i 1) = 2%nat /\
    count_occ hook_eq_dec (proj i (all_hooks (snd (run_v false [] ops)))) (AfterEnd i 4) = 0%nat /\
    count_occ hook_eq_dec (proj i (all_hooks (snd (run [] ops)))) (BeforeStart i 1) = 1%nat /\
    count_occ hook_eq_dec (proj i (all_hooks (snd (run [] ops)))) (AfterEnd i 4) = 1%nat.
Proof. exact hooks_once_refuted_for_unguarded_init. Qed.
Print Assumptions C14_hooks_once_refuted_for_unguarded_init.

(** … and the re-initialisation itself replaces a stored, running info (number, start height rewritten). *)
Theorem C14_init_keep_refuted_for_unguarded_init :
  exists (s : state) (ct ch : Z) (gs : list add_args) (i : nat) (e e' : einfo),
    lookup i s = Some e /\ e_started e = true /\
    lookup i (fst (init_genesis false s ct ch gs)) = Some e' /\
    e_cur e' < e_cur e /\ e_started e' = false /\ e_height e' <> e_height e /\
    lookup i (fst (init_genesis true s ct ch gs)) = Some e.
Proof. exact init_keep_refuted_for_unguarded_init. Qed.
Print Assumptions C14_init_keep_refuted_for_unguarded_init.

(** COUNTING STARTED AT EPOCH 0 (a definition imported with EpochCountingStarted = true, CurrentEpoch = 0): the advance
    0 -> 1 is an ordinary advance, not the "very first tick": AfterEpochEnd(id,0) then BeforeEpochStart(id,1), seen by
    every receiver behind the fan-out … *)
Theorem C14_started_epoch_zero_advance_is_ordinary :
  forall (t h : Z) (e : einfo) (k r : nat),
    e_started e = true -> e_cur e = 0 -> should_tick e t = true -> (r < k)%nat ->
    e_cur (fst (step_info t h e)) = 1 /\
    snd (step_info t h e) = [AfterEnd (e_id e) 0; BeforeStart (e_id e) 1] /\
    tick_hooks e = [AfterEnd (e_id e) 0; BeforeStart (e_id e) 1] /\
    map snd (filter (fun x : nat * hook => Nat.eqb (fst x) r) (fanout k (snd (step_info t h e)))) =
    [AfterEnd (e_id e) 0; BeforeStart (e_id e) 1].
Proof. exact started_epoch_zero_advance_is_ordinary. Qed.
Print Assumptions C14_started_epoch_zero_advance_is_ordinary.

(** … and the variant whose MultiEpochHooks.AfterEpochEnd skips epoch number 0 ([fanout_v true]) loses that end hook. *)
Theorem C14_end_of_epoch_zero_refuted_for_skipping_fanout :
  exists (e : einfo) (t h : Z) (k r : nat),
    wf_info t e /\ e_started e = true /\ (r < k)%nat /\ e_cur (fst (step_info t h e)) = e_cur e + 1 /\
    map snd (filter (fun x : nat * hook => Nat.eqb (fst x) r) (fanout_v true k (snd (step_info t h e)))) <> tick_hooks e /\
    map snd (filter (fun x : nat * hook => Nat.eqb (fst x) r) (fanout_v false k (snd (step_info t h e)))) = tick_hooks e.
Proof. exact end_of_epoch_zero_refuted_for_skipping_fanout. Qed.
Print Assumptions C14_end_of_epoch_zero_refuted_for_skipping_fanout.

(** FAILING HOOKS.  One registered receiver panics on a chosen call (the first [lf] times).  The panic leaves
    BeginBlocker (no recover on the path: Gen/C14Oblig.v), the block is not committed: *)
Theorem C14_hook_panic_aborts_block :
  forall (g : trigger) (s : state) (lf : nat) (t h : Z),
    existsb (hook_matches g) (snd (begin_block s t h)) = true ->
    step_f g (s, S lf) (Block t h) = ((s, lf), {| o_ok := false; o_infos := s; o_hooks := [] |}).
Proof. exact abort_commits_nothing. Qed.
Print Assumptions C14_hook_panic_aborts_block.

(** … and a block that IS committed carries BeginBlocker's complete state change and complete hook list: *)
Theorem C14_committed_block_is_complete :
  forall (g : trigger) (s : state) (lf : nat) (t h : Z),
    o_ok (snd (step_f g (s, lf) (Block t h))) = true ->
    fst (fst (step_f g (s, lf) (Block t h))) = fst (begin_block s t h) /\
    o_infos (snd (step_f g (s, lf) (Block t h))) = fst (begin_block s t h) /\
    o_hooks (snd (step_f g (s, lf) (Block t h))) = snd (begin_block s t h).
Proof. exact committed_block_is_complete. Qed.
Print Assumptions C14_committed_block_is_complete.

(** Hence along every history with a failing receiver every block is either aborted with nothing committed, or
    committed and satisfies [P_block]: every committed advance n -> n+1 comes with AfterEpochEnd(n) then
    BeforeEpochStart(n+1), each exactly once — and (next theorem) this very list is what EVERY receiver saw. *)
Theorem C14_every_block_of_every_history_with_failing_hook :
  forall (g : trigger) (ops : list op) (now : Z) (s : state) (lf : nat),
    Inv now s -> ops_ok now ops -> P_trace s (combine ops (snd (run_f g (s, lf) ops))).
Proof. exact trace_f_satisfies_property. Qed.
Print Assumptions C14_every_block_of_every_history_with_failing_hook.

Theorem C14_every_receiver_sees_the_committed_calls :
  forall (k : nat) (l : list hook) (r : nat), (r < k)%nat ->
    map snd (filter (fun x : nat * hook => Nat.eqb (fst x) r) (fanout k l)) = l.
Proof. exact fanout_each_hook_sees_every_call. Qed.
Print Assumptions C14_every_receiver_sees_the_committed_calls.

(** the receiver-log checker evaluated on implementation traces is sound: every receiver's log of a committed
    block is the call list receiver 0 saw (the one [Pb_trace] is evaluated on) *)
Theorem C14_receivers_checker_sound :
  forall (k : nat) (o : obs) (r : nat), fan_ok k o = true -> (r < k)%nat ->
    map snd (filter (fun x : nat * hook => Nat.eqb (fst x) r) (b_log o)) = calls o.
Proof. exact fan_ok_sound. Qed.
Print Assumptions C14_receivers_checker_sound.

Theorem C14_no_failures_is_the_plain_model :
  forall (g : trigger) (ops : list op) (s : state),
    snd (run_f g (s, O) ops) = snd (run s ops) /\ fst (fst (run_f g (s, O) ops)) = fst (run s ops).
Proof. exact run_f_no_failures. Qed.
Print Assumptions C14_no_failures_is_the_plain_model.

(** THE STORE.  Identifiers are arbitrary strings (the model uses only their equality and byte order).  Along every
    history, with or without a failing receiver, from any state with distinct identifiers: after every op no identifier
    is stored twice and the number of stored infos is the initial number plus the accepted additions — no block, committed
    or aborted, creates or loses an info. *)
Theorem C14_one_info_per_identifier :
  forall (g : trigger) (ops : list op) (s : state) (lf : nat),
    NoDup (ids s) ->
    Forall (fun x => NoDup (ids (o_infos x))) (snd (run_f g (s, lf) ops)) /\
    count_P (length s) (combine ops (snd (run_f g (s, lf) ops))).
Proof. exact store_invariant. Qed.
Print Assumptions C14_one_info_per_identifier.

Theorem C14_store_checker_sound :
  (forall o : obs, keys_ok o = true -> b_keys o = ids (b_infos o) /\ NoDup (ids (b_infos o))) /\
  (forall tr n, count_ok n tr = true -> count_P n (map (fun x => (fst x, to_out (snd x))) tr)).
Proof. split; [exact keys_ok_sound|exact count_ok_sound]. Qed.
Print Assumptions C14_store_checker_sound.

(** The boolean checker evaluated on implementation traces is sound for the property … *)
Theorem C14_checker_sound : forall s tr, Pb_trace s tr = true -> P_trace s tr.
Proof. intros s tr. exact (Pb_trace_sound tr s). Qed.
Print Assumptions C14_checker_sound.

(** … and it is evaluated exactly on traces inside the hypotheses of the main theorem. *)
Theorem C14_check_precondition_sound :
  forall c : case, pre c = true -> NoDup (ids (c_init c)) ->
    Inv (first_time (map fst (c_tr c))) (c_init c) /\ ops_ok (first_time (map fst (c_tr c))) (map fst (c_tr c)).
Proof. exact pre_sound. Qed.
Print Assumptions C14_check_precondition_sound.
