(** C14 — evaluation of implementation traces: correspondence (model vs observed) and the
    property predicate [Pb_trace] on the observed trace itself. *)
From Coq Require Import ZArith List Bool Arith.
Import ListNotations.
Require Import Nib.C14.Model Nib.C14.Spec.
Local Open Scope Z_scope.

(** what the driver observed after one op: success, every EpochInfo in iteration order, and the
    call log of the recording hooks as (recorder index, call) *)
(** [b_keys]: the store keys the infos were found under (as identifier ranks), in iteration order *)
Record obs := { b_ok : bool; b_infos : state; b_keys : list nat; b_log : list (nat * hook) }.

Record case := {
  c_k : nat;                     (* number of recording hooks registered in the MultiEpochHooks *)
  c_fail : trigger * nat;        (* the failing receiver panics on this call, the first n times (n = 0: never) *)
  c_init : state;                (* EpochInfos at the start of the case (observed) *)
  c_tr : list (op * obs)
}.

Definition rec_hook_eqb (a b : nat * hook) : bool := Nat.eqb (fst a) (fst b) && hook_eqb (snd a) (snd b).

(** the calls as seen by recorder 0 *)
Definition calls (o : obs) : list hook := map snd (filter (fun x => Nat.eqb (fst x) 0) (b_log o)).

(** every call reached all recorders, in slice order, before the next call *)
Definition fan_ok (k : nat) (o : obs) : bool := list_eqb rec_hook_eqb (fanout k (calls o)) (b_log o).

Definition to_out (o : obs) : out := {| o_ok := b_ok o; o_infos := b_infos o; o_hooks := calls o |}.

Definition out_matches (k : nat) (m : out) (o : obs) : bool :=
  Bool.eqb (o_ok m) (b_ok o) && list_eqb einfo_eqb (o_infos m) (b_infos o) && list_eqb Nat.eqb (ids (o_infos m)) (b_keys o) &&
  (Nat.eqb (length (fanout k (o_hooks m))) (length (b_log o))) &&
  forallb (fun i => list_eqb rec_hook_eqb (fanout k (proj i (o_hooks m)))
                             (filter (fun x => Nat.eqb (hook_id (snd x)) i) (b_log o)))
          (ids (o_infos m)).

Fixpoint outs_match (k : nat) (ms : list out) (os : list obs) : bool :=
  match ms, os with
  | [], [] => true
  | m :: ms', o :: os' => out_matches k m o && outs_match k ms' os'
  | _, _ => false
  end.

Definition mismatch (c : case) : bool :=
  negb (outs_match (c_k c) (snd (run_f (fst (c_fail c)) (c_init c, snd (c_fail c)) (map fst (c_tr c)))) (map snd (c_tr c))).

(** precondition under which the property is claimed: well-formed definitions (counting not
    started => epoch 0; started => StartTime <= CurrentEpochStartTime <= now) and non-decreasing
    block times.  Other cases are still compared with the model. *)
Definition wfb (now : Z) (e : einfo) : bool :=
  if e_started e then (e_start e <=? e_cur_start e) && (e_cur_start e <=? now) else (e_cur e =? 0).

Fixpoint times_ok (last : Z) (ops : list op) : bool :=
  match ops with
  | [] => true
  | o :: r => (last <=? op_time o) && times_ok (op_time o) r
  end.

Definition add_wfb (o : op) : bool :=
  match o with
  | Block _ _ => true
  | Add ct ch a => wfb ct (added ct ch a)
  | Init _ ct ch gs => forallb (fun a => wfb ct (added ct ch a)) gs
  end.

Definition first_time (ops : list op) : Z := match ops with [] => 0 | o :: _ => op_time o end.

Definition pre (c : case) : bool :=
  let ops := map fst (c_tr c) in
  forallb (wfb (first_time ops)) (c_init c) && times_ok (first_time ops) ops && forallb add_wfb ops.

(** every stored info sits under the key that is its own identifier, and no identifier is stored twice *)
Fixpoint nodupb (l : list nat) : bool :=
  match l with [] => true | x :: r => negb (existsb (Nat.eqb x) r) && nodupb r end.
Definition keys_ok (o : obs) : bool := list_eqb Nat.eqb (b_keys o) (ids (b_infos o)) && nodupb (b_keys o).

(** stored infos = initial ones + accepted additions; an InitGenesis with k definitions adds between 0 and k infos
    (all k when the function reports success) and never removes one *)
Fixpoint count_ok (n : nat) (tr : list (op * obs)) : bool :=
  match tr with
  | [] => true
  | (Init via _ _ gs, x) :: r =>
      let m := length (b_infos x) in
      Nat.leb n m && Nat.leb m (n + length gs) && (via || negb (b_ok x) || Nat.eqb m (n + length gs)) && count_ok m r
  | (o, x) :: r =>
      let n' := match o with Add _ _ _ => if b_ok x then S n else n | _ => n end in
      Nat.eqb (length (b_infos x)) n' && count_ok n' r
  end.

Definition store_ok (c : case) : bool :=
  forallb (fun x => keys_ok (snd x)) (c_tr c) && count_ok (length (c_init c)) (c_tr c).

Definition violates (c : case) : bool :=
  negb (store_ok c) || pre c &&
  negb (Pb_trace (c_init c) (map (fun x => (fst x, to_out (snd x))) (c_tr c)) &&
        forallb (fun x => fan_ok (c_k c) (snd x)) (c_tr c)).
