(** C14 — the property over what BeginBlock publishes, as Prop ([P_block], [P_trace]) and as a
    boolean checker ([Pb_block], [Pb_trace]) with [Pb_trace_sound]. *)
From Coq Require Import ZArith List Bool Arith Lia.
Import ListNotations.
Require Import Nib.C14.Model.
Local Open Scope Z_scope.

(** the advance condition as the property words it *)
Definition cond (e : einfo) (t : Z) : Prop :=
  (e_started e = false /\ e_start e <= t) \/ (e_started e = true /\ e_cur_start e + e_dur e <= t).

Definition proj (i : nat) (l : list hook) : list hook := filter (fun x => Nat.eqb (hook_id x) i) l.

(** hook calls the property allows for one identifier in an advancing block *)
Definition tick_hooks (e : einfo) : list hook :=
  (if e_started e then [AfterEnd (e_id e) (e_cur e)] else []) ++ [BeforeStart (e_id e) (e_cur e + 1)].

(** one identifier across one block: [e] before, [e'] after, [l] = every hook call of the block *)
Definition P_info (t h : Z) (l : list hook) (e e' : einfo) : Prop :=
  e_id e' = e_id e /\ e_start e' = e_start e /\ e_dur e' = e_dur e /\
  (e_cur e' = e_cur e \/ e_cur e' = e_cur e + 1) /\
  (e_cur e' = e_cur e + 1 <-> cond e t) /\
  (e_cur e' = e_cur e + 1 ->
     e_cur_start e' = t /\ e_height e' = h /\ e_started e' = true /\ proj (e_id e) l = tick_hooks e) /\
  (e_cur e' = e_cur e -> e' = e /\ proj (e_id e) l = []).

Definition P_block (t h : Z) (s s' : state) (l : list hook) : Prop :=
  Forall2 (P_info t h l) s s' /\
  (forall x, In x l -> exists e, In e s /\ e_id e = hook_id x).

Fixpoint lookup (i : nat) (s : state) : option einfo :=
  match s with [] => None | e :: r => if Nat.eqb (e_id e) i then Some e else lookup i r end.

(** what an op that is not a block (AddEpochInfo, InitGenesis at any point of the chain) may do to the clocks:
    every stored info is still stored, unchanged — a running epoch keeps its number, start time and height —
    and no hook is called *)
Definition P_keep (s s' : state) (l : list hook) : Prop :=
  (forall i e, lookup i s = Some e -> lookup i s' = Some e) /\ l = [].

(** a trace: the state before, then (op, published output) pairs; the state before each op is
    what the previous op published *)
Fixpoint P_trace (s : state) (tr : list (op * out)) : Prop :=
  match tr with
  | [] => True
  | (Block t h, o) :: r =>
      (* a committed block satisfies the per-block property; a block aborted by a panicking hook commits nothing *)
      (if o_ok o then P_block t h s (o_infos o) (o_hooks o) else o_infos o = s /\ o_hooks o = []) /\
      P_trace (o_infos o) r
  | (_, o) :: r => P_keep s (o_infos o) (o_hooks o) /\ P_trace (o_infos o) r
  end.

(* ---------------------------------------------------------------- histories the property is claimed for *)

(** a well-formed epoch info at time [now]: counting not started => epoch number 0;
    counting started => StartTime <= CurrentEpochStartTime <= now.  Every info produced by
    BeginBlocker from a fresh definition is of this shape (Proofs: [wf_step]). *)
Definition wf_info (now : Z) (e : einfo) : Prop :=
  (e_started e = false -> e_cur e = 0) /\
  (e_started e = true -> e_start e <= e_cur_start e /\ e_cur_start e <= now).

Definition ids (s : state) : list nat := map e_id s.

Definition Inv (now : Z) (s : state) : Prop := Forall (wf_info now) s /\ NoDup (ids s).

Definition op_time (o : op) : Z := match o with Block t _ => t | Add ct _ _ => ct | Init _ ct _ _ => ct end.

(** the definitions an op brings ([added]: the info AddEpochInfo stores, Model.v) *)
Definition add_wf (o : op) : Prop :=
  match o with
  | Block _ _ => True
  | Add ct ch a => wf_info ct (added ct ch a)
  | Init _ ct ch gs => Forall (fun a => wf_info ct (added ct ch a)) gs
  end.

(** non-decreasing context times, well-formed definitions *)
Fixpoint ops_ok (now : Z) (ops : list op) : Prop :=
  match ops with
  | [] => True
  | o :: r => now <= op_time o /\ add_wf o /\ ops_ok (op_time o) r
  end.

(** the hook calls for identifier [i] that take its epoch number from [a] to [b] *)
Definition span_n (i : nat) (a : Z) (k : nat) : list hook :=
  flat_map (fun n => [AfterEnd i n; BeforeStart i (n + 1)]) (map (fun j => a + Z.of_nat j) (seq 0 k)).
Definition span (i : nat) (a b : Z) : list hook := span_n i a (Z.to_nat (b - a)).

(** … for an identifier whose info was [e] at the beginning and is [e'] at the end of a history *)
Definition expected (e e' : einfo) : list hook :=
  if e_started e then span (e_id e) (e_cur e) (e_cur e')
  else if e_started e' then BeforeStart (e_id e) 1 :: span (e_id e) 1 (e_cur e') else [].

Definition all_hooks (outs : list out) : list hook := concat (map o_hooks outs).

(* ---------------------------------------------------------------- boolean versions *)

Definition einfo_eqb (a b : einfo) : bool :=
  Nat.eqb (e_id a) (e_id b) && (e_start a =? e_start b) && (e_dur a =? e_dur b) && (e_cur a =? e_cur b) &&
  (e_cur_start a =? e_cur_start b) && (e_height a =? e_height b) && Bool.eqb (e_started a) (e_started b).

Definition hook_eqb (a b : hook) : bool :=
  match a, b with
  | AfterEnd i n, AfterEnd j m => Nat.eqb i j && (n =? m)
  | BeforeStart i n, BeforeStart j m => Nat.eqb i j && (n =? m)
  | _, _ => false
  end.

Fixpoint list_eqb {A} (eqb : A -> A -> bool) (a b : list A) : bool :=
  match a, b with
  | [], [] => true
  | x :: a', y :: b' => eqb x y && list_eqb eqb a' b'
  | _, _ => false
  end.

Definition condb (e : einfo) (t : Z) : bool :=
  (negb (e_started e) && (e_start e <=? t)) || (e_started e && (e_cur_start e + e_dur e <=? t)).

Definition Pb_info (t h : Z) (l : list hook) (e e' : einfo) : bool :=
  Nat.eqb (e_id e') (e_id e) && (e_start e' =? e_start e) && (e_dur e' =? e_dur e) &&
  if e_cur e' =? e_cur e + 1 then
    condb e t && (e_cur_start e' =? t) && (e_height e' =? h) && e_started e' &&
    list_eqb hook_eqb (proj (e_id e) l) (tick_hooks e)
  else
    (e_cur e' =? e_cur e) && negb (condb e t) && einfo_eqb e' e &&
    match proj (e_id e) l with [] => true | _ => false end.

Fixpoint forall2b {A} (f : A -> A -> bool) (a b : list A) : bool :=
  match a, b with
  | [], [] => true
  | x :: a', y :: b' => f x y && forall2b f a' b'
  | _, _ => false
  end.

Definition Pb_block (t h : Z) (s s' : state) (l : list hook) : bool :=
  forall2b (Pb_info t h l) s s' && forallb (fun x => has_id (hook_id x) s) l.

Definition Pb_keep (s s' : state) (l : list hook) : bool :=
  forallb (fun e => match lookup (e_id e) s' with Some e' => einfo_eqb e' e | None => false end) s &&
  match l with [] => true | _ => false end.

Fixpoint Pb_trace (s : state) (tr : list (op * out)) : bool :=
  match tr with
  | [] => true
  | (Block t h, o) :: r =>
      (if o_ok o then Pb_block t h s (o_infos o) (o_hooks o)
       else list_eqb einfo_eqb (o_infos o) s && match o_hooks o with [] => true | _ => false end) &&
      Pb_trace (o_infos o) r
  | (_, o) :: r => Pb_keep s (o_infos o) (o_hooks o) && Pb_trace (o_infos o) r
  end.

(* ---------------------------------------------------------------- soundness *)

Lemma einfo_eqb_eq a b : einfo_eqb a b = true -> a = b.
Proof.
  unfold einfo_eqb. intro H.
  repeat (apply andb_true_iff in H; destruct H as [H ?]).
  destruct a, b; simpl in *.
  apply Nat.eqb_eq in H. apply eqb_prop in H0.
  repeat match goal with X : (_ =? _) = true |- _ => apply Z.eqb_eq in X end.
  subst. reflexivity.
Qed.

Lemma hook_eqb_eq a b : hook_eqb a b = true -> a = b.
Proof.
  destruct a, b; simpl; intro H; try discriminate;
    apply andb_true_iff in H; destruct H as [H1 H2];
    apply Nat.eqb_eq in H1; apply Z.eqb_eq in H2; subst; reflexivity.
Qed.

Lemma list_eqb_eq {A} (eqb : A -> A -> bool) :
  (forall x y, eqb x y = true -> x = y) -> forall a b, list_eqb eqb a b = true -> a = b.
Proof.
  intros Heq a. induction a as [|x a IH]; intros [|y b] H; simpl in H; try discriminate; auto.
  apply andb_true_iff in H. destruct H as [H1 H2]. apply Heq in H1. apply IH in H2. subst. reflexivity.
Qed.

Lemma condb_iff e t : condb e t = true <-> cond e t.
Proof.
  unfold condb, cond. destruct (e_started e); simpl.
  - rewrite Z.leb_le. split; [intro; right; auto | intros [[H _]|[_ H]]; [discriminate|auto]].
  - rewrite orb_false_r, Z.leb_le. split; [intro; left; auto | intros [[_ H]|[H _]]; [auto|discriminate]].
Qed.

Lemma Pb_info_sound t h l e e' : Pb_info t h l e e' = true -> P_info t h l e e'.
Proof.
  unfold Pb_info, P_info. intro H.
  apply andb_true_iff in H. destruct H as [H Hc].
  apply andb_true_iff in H. destruct H as [H H3].
  apply andb_true_iff in H. destruct H as [H1 H2].
  apply Nat.eqb_eq in H1. apply Z.eqb_eq in H2. apply Z.eqb_eq in H3.
  split; [exact H1|]. split; [exact H2|]. split; [exact H3|].
  destruct (e_cur e' =? e_cur e + 1) eqn:Ht.
  - apply Z.eqb_eq in Ht.
    apply andb_true_iff in Hc. destruct Hc as [Hc K5].
    apply andb_true_iff in Hc. destruct Hc as [Hc K4].
    apply andb_true_iff in Hc. destruct Hc as [Hc K3].
    apply andb_true_iff in Hc. destruct Hc as [K1 K2].
    apply condb_iff in K1. apply Z.eqb_eq in K2. apply Z.eqb_eq in K3.
    apply (list_eqb_eq hook_eqb hook_eqb_eq) in K5.
    split; [right; exact Ht|]. split; [tauto|].
    split; [intros _; repeat split; assumption|]. intro; lia.
  - apply Z.eqb_neq in Ht.
    apply andb_true_iff in Hc. destruct Hc as [Hc K4].
    apply andb_true_iff in Hc. destruct Hc as [Hc K3].
    apply andb_true_iff in Hc. destruct Hc as [K1 K2].
    apply Z.eqb_eq in K1. apply negb_true_iff in K2. apply einfo_eqb_eq in K3.
    assert (~ cond e t) by (intro X; apply condb_iff in X; congruence).
    split; [left; exact K1|]. split; [split; [intro; contradiction|intro; contradiction]|].
    split; [intro; contradiction|].
    intros _. split; [exact K3|]. destruct (proj (e_id e) l); [reflexivity|discriminate].
Qed.

Lemma forall2b_sound {A} (f : A -> A -> bool) (R : A -> A -> Prop) :
  (forall x y, f x y = true -> R x y) -> forall a b, forall2b f a b = true -> Forall2 R a b.
Proof.
  intros Hf a. induction a as [|x a IH]; intros [|y b] H; simpl in H; try discriminate; constructor.
  - apply Hf. apply andb_true_iff in H. tauto.
  - apply IH. apply andb_true_iff in H. tauto.
Qed.

Lemma has_id_In i s : has_id i s = true -> exists e, In e s /\ e_id e = i.
Proof.
  induction s as [|e s IH]; simpl; [discriminate|]. intro H.
  apply orb_true_iff in H. destruct H as [H|H].
  - apply Nat.eqb_eq in H. exists e. auto.
  - destruct (IH H) as [x [Hx Hi]]. exists x. auto.
Qed.

Lemma Pb_block_sound t h s s' l : Pb_block t h s s' l = true -> P_block t h s s' l.
Proof.
  unfold Pb_block, P_block. intro H. apply andb_true_iff in H. destruct H as [H1 H2]. split.
  - apply (forall2b_sound _ _ (Pb_info_sound t h l)). exact H1.
  - intros x Hx. rewrite forallb_forall in H2. apply has_id_In. apply H2. exact Hx.
Qed.

Lemma lookup_In i s e : lookup i s = Some e -> In e s /\ e_id e = i.
Proof.
  induction s as [|x s IH]; simpl; [discriminate|].
  destruct (Nat.eqb (e_id x) i) eqn:E.
  - intro H. inversion H; subst. apply Nat.eqb_eq in E. auto.
  - intro H. destruct (IH H). auto.
Qed.

Lemma Pb_keep_sound s s' l : Pb_keep s s' l = true -> P_keep s s' l.
Proof.
  unfold Pb_keep, P_keep. intro H. apply andb_true_iff in H. destruct H as [A B]. split.
  - intros i e Hl. destruct (lookup_In _ _ _ Hl) as [Hin Hi]. rewrite forallb_forall in A.
    specialize (A e Hin). rewrite Hi in A. destruct (lookup i s') as [e'|]; [|discriminate].
    apply einfo_eqb_eq in A. subst. reflexivity.
  - destruct l; [reflexivity|discriminate].
Qed.

Lemma Pb_trace_sound tr : forall s, Pb_trace s tr = true -> P_trace s tr.
Proof.
  induction tr as [|[o x] r IH]; intros s H; simpl in *; [exact I|].
  destruct o as [t h|ct ch a|via ct ch gs].
  - apply andb_true_iff in H. destruct H as [H1 H2]. split; [|apply IH; exact H2].
    destruct (o_ok x); [apply Pb_block_sound; exact H1|].
    apply andb_true_iff in H1. destruct H1 as [A B]. split.
    + apply (list_eqb_eq einfo_eqb einfo_eqb_eq). exact A.
    + destruct (o_hooks x); [reflexivity|discriminate].
  - apply andb_true_iff in H. destruct H as [H1 H2]. split; [apply Pb_keep_sound; exact H1|apply IH; exact H2].
  - apply andb_true_iff in H. destruct H as [H1 H2]. split; [apply Pb_keep_sound; exact H1|apply IH; exact H2].
Qed.
