(** C14 — lemmas and invariants. *)
From Coq Require Import ZArith List Bool Arith Lia.
Import ListNotations.
Require Import Nib.C14.Model Nib.C14.Spec.
Local Open Scope Z_scope.
