(** C14 — lemmas and invariants. *)
From Coq Require Import ZArith List Bool Arith Lia.
Import ListNotations.
Require Import Nib.C14.Model Nib.C14.Spec Nib.C14.Check.
Local Open Scope Z_scope.
Arguments begin_block : simpl never.
Arguments add_epoch : simpl never.
Arguments init_genesis : simpl never.

(* ---------------------------------------------------------------- one info, one block *)

Lemma should_tick_exact e t :
  should_tick e t = true <->
  e_start e <= t /\ (e_started e = false \/ e_cur_start e + e_dur e <= t).
Proof.
  unfold should_tick. rewrite andb_true_iff, orb_true_iff, negb_true_iff, !Z.leb_le. tauto.
Qed.

Lemma step_info_static t h e :
  e_id (fst (step_info t h e)) = e_id e /\ e_start (fst (step_info t h e)) = e_start e /\
  e_dur (fst (step_info t h e)) = e_dur e.
Proof.
  unfold step_info, tick. destruct (should_tick e t); [destruct (e_started e)|]; simpl; auto.
Qed.

Lemma step_info_hook_ids t h e x : In x (snd (step_info t h e)) -> hook_id x = e_id e.
Proof.
  unfold step_info, tick. destruct (should_tick e t); [destruct (e_started e)|]; simpl; intuition; subst; reflexivity.
Qed.

(** under well-formedness and a clock that did not go back (or a non-negative duration) the code's
    condition is the property's condition *)
Lemma should_tick_cond now e t :
  wf_info now e -> (now <= t \/ 0 <= e_dur e) -> (should_tick e t = true <-> cond e t).
Proof.
  intros [W0 W1] Ht. rewrite should_tick_exact. unfold cond.
  destruct (e_started e) eqn:Es.
  - destruct (W1 eq_refl) as [A B]. split.
    + intros [_ [X|X]]; [discriminate|right; auto].
    + intros [[X _]|[_ X]]; [discriminate|]. split; [lia|right; exact X].
  - split.
    + intros [X _]. left. auto.
    + intros [[_ X]|[X _]]; [|discriminate]. split; [exact X|left; reflexivity].
Qed.

Lemma wf_step now t h e : wf_info now e -> now <= t -> wf_info t (fst (step_info t h e)).
Proof.
  intros [W0 W1] Ht. unfold step_info. destruct (should_tick e t) eqn:St.
  - apply should_tick_exact in St. destruct St as [S1 _].
    unfold tick. destruct (e_started e); simpl; split; simpl; intros; try discriminate; lia.
  - simpl. split; [exact W0|]. intro X. destruct (W1 X). lia.
Qed.

Lemma wf_later now t e : wf_info now e -> now <= t -> wf_info t e.
Proof. intros [W0 W1] Ht. split; [exact W0|]. intro X. destruct (W1 X). lia. Qed.

(** the property for one info, given that [l] restricted to its identifier is what this info emitted *)
Lemma step_info_P now t h l e :
  wf_info now e -> (now <= t \/ 0 <= e_dur e) ->
  proj (e_id e) l = snd (step_info t h e) ->
  P_info t h l e (fst (step_info t h e)).
Proof.
  intros W Ht Hl. pose proof (should_tick_cond now e t W Ht) as Hc.
  destruct (step_info_static t h e) as [S1 [S2 S3]].
  unfold P_info. split; [exact S1|]. split; [exact S2|]. split; [exact S3|].
  rewrite Hl. clear Hl S1 S2 S3. unfold step_info in *.
  destruct (should_tick e t) eqn:St.
  - assert (C : cond e t) by (apply Hc; reflexivity).
    unfold tick, tick_hooks. destruct W as [W0 W1].
    destruct (e_started e) eqn:Es; simpl.
    + split; [right; reflexivity|]. split; [tauto|]. split; [intros _; auto|]. intro; lia.
    + rewrite (W0 eq_refl). simpl. split; [right; reflexivity|]. split; [tauto|].
      split; [intros _; auto|]. intro; lia.
  - assert (C : ~ cond e t) by (intro X; apply Hc in X; discriminate).
    simpl. split; [left; reflexivity|]. split; [split; [intro; lia|intro; contradiction]|].
    split; [intro; lia|]. auto.
Qed.

(* ---------------------------------------------------------------- projections of a block's hook list *)

Lemma proj_app i a b : proj i (a ++ b) = proj i a ++ proj i b.
Proof. unfold proj. apply filter_app. Qed.

Lemma proj_all i l : (forall x, In x l -> hook_id x = i) -> proj i l = l.
Proof.
  induction l as [|x l IH]; intro H; simpl; [reflexivity|].
  rewrite (H x (or_introl eq_refl)), Nat.eqb_refl. f_equal. apply IH. intros; apply H; right; assumption.
Qed.

Lemma proj_none i l : (forall x, In x l -> hook_id x <> i) -> proj i l = [].
Proof.
  induction l as [|x l IH]; intro H; simpl; [reflexivity|].
  destruct (Nat.eqb (hook_id x) i) eqn:E.
  - apply Nat.eqb_eq in E. exfalso. apply (H x); [left; reflexivity|exact E].
  - apply IH. intros; apply H; right; assumption.
Qed.

Definition block_hooks (t h : Z) (s : state) : list hook := concat (map snd (map (step_info t h) s)).

Lemma begin_block_eq s t h :
  begin_block s t h = (map (fun e => fst (step_info t h e)) s, block_hooks t h s).
Proof. unfold begin_block, block_hooks. rewrite map_map. reflexivity. Qed.

Lemma block_hooks_absent t h i s : ~ In i (ids s) -> proj i (block_hooks t h s) = [].
Proof.
  unfold block_hooks. induction s as [|e s IH]; intro H; simpl; [reflexivity|].
  rewrite proj_app. rewrite IH by (intro X; apply H; right; exact X).
  rewrite proj_none; [reflexivity|]. intros x Hx. rewrite (step_info_hook_ids _ _ _ _ Hx).
  intro X. apply H. left. exact X.
Qed.

Lemma block_hooks_proj t h s e :
  NoDup (ids s) -> In e s -> proj (e_id e) (block_hooks t h s) = snd (step_info t h e).
Proof.
  unfold block_hooks. induction s as [|x s IH]; intros Hn Hin; [destruct Hin|].
  simpl in Hn. inversion Hn as [|? ? Hx Hn']; subst. simpl. rewrite proj_app.
  destruct Hin as [->|Hin].
  - rewrite proj_all by (intros y Hy; apply (step_info_hook_ids _ _ _ _ Hy)).
    fold (block_hooks t h s). rewrite block_hooks_absent by exact Hx. apply app_nil_r.
  - rewrite proj_none.
    + simpl. apply IH; assumption.
    + intros y Hy. rewrite (step_info_hook_ids _ _ _ _ Hy). intro X. apply Hx. rewrite X.
      apply in_map. exact Hin.
Qed.

Lemma block_hooks_known t h s x : In x (block_hooks t h s) -> exists e, In e s /\ e_id e = hook_id x.
Proof.
  unfold block_hooks. induction s as [|e s IH]; simpl; [intros []|]. intro H.
  apply in_app_or in H. destruct H as [H|H].
  - exists e. split; [left; reflexivity|]. symmetry. apply (step_info_hook_ids _ _ _ _ H).
  - destruct (IH H) as [y [Hy Hi]]. exists y. split; [right; exact Hy|exact Hi].
Qed.

Lemma ids_begin_block s t h : ids (fst (begin_block s t h)) = ids s.
Proof.
  rewrite begin_block_eq. simpl. unfold ids. rewrite map_map. apply map_ext.
  intro e. apply (step_info_static t h e).
Qed.

(** BeginBlocker satisfies the per-block property on every well-formed state *)
Lemma begin_block_P now s t h :
  Inv now s -> now <= t ->
  P_block t h s (fst (begin_block s t h)) (snd (begin_block s t h)).
Proof.
  intros [W N] Ht. rewrite begin_block_eq. simpl. split.
  - assert (G : forall s', (forall e, In e s' -> In e s) ->
                 Forall2 (P_info t h (block_hooks t h s)) s' (map (fun e => fst (step_info t h e)) s')).
    { induction s' as [|e s' IH]; intro Hs; simpl; constructor.
      - apply (step_info_P now).
        + rewrite Forall_forall in W. apply W. apply Hs. left. reflexivity.
        + left. exact Ht.
        + apply block_hooks_proj; [exact N|apply Hs; left; reflexivity].
      - apply IH. intros; apply Hs; right; assumption. }
    apply G. auto.
  - apply block_hooks_known.
Qed.

Lemma Inv_begin_block now s t h : Inv now s -> now <= t -> Inv t (fst (begin_block s t h)).
Proof.
  intros [W N] Ht. split.
  - rewrite begin_block_eq. simpl. rewrite Forall_forall in *. intros x Hx.
    apply in_map_iff in Hx. destruct Hx as [e [<- He]]. apply (wf_step now); auto.
  - rewrite ids_begin_block. exact N.
Qed.

(* ---------------------------------------------------------------- AddEpochInfo *)

Lemma has_id_ids i s : has_id i s = true <-> In i (ids s).
Proof.
  induction s as [|e s IH]; simpl; [split; [discriminate|intros []]|].
  rewrite orb_true_iff, Nat.eqb_eq, IH. tauto.
Qed.

Lemma ids_insert x s : forall i, In i (ids (insert x s)) <-> i = e_id x \/ In i (ids s).
Proof.
  induction s as [|e s IH]; intro i; simpl; [intuition|].
  destruct (Nat.ltb (e_id x) (e_id e)); simpl; [intuition|]. rewrite IH. intuition.
Qed.

Lemma In_insert x s y : In y (insert x s) <-> y = x \/ In y s.
Proof.
  induction s as [|e s IH]; simpl; [intuition|].
  destruct (Nat.ltb (e_id x) (e_id e)); simpl; [intuition|]. rewrite IH. intuition.
Qed.

Lemma NoDup_insert x s : NoDup (ids s) -> ~ In (e_id x) (ids s) -> NoDup (ids (insert x s)).
Proof.
  induction s as [|e s IH]; intros Hn Hx; simpl; [constructor; [intros []|constructor]|].
  destruct (Nat.ltb (e_id x) (e_id e)); simpl.
  - constructor; assumption.
  - simpl in Hn. inversion Hn as [|? ? He Hn']; subst. constructor.
    + intro X. apply ids_insert in X. destruct X as [X|X]; [apply Hx; left; exact X|contradiction].
    + apply IH; [exact Hn'|]. intro X. apply Hx. right. exact X.
Qed.

Lemma add_epoch_cases s ct ch a :
  (add_epoch s ct ch a = (s, false)) \/
  (has_id (a_id a) s = false /\ add_epoch s ct ch a = (insert (added ct ch a) s, true)).
Proof.
  unfold add_epoch, added.
  destruct (a_empty a || (a_dur a =? 0) || (a_height a <? 0)); [left; reflexivity|].
  destruct (has_id (a_id a) s) eqn:E; [left; reflexivity|right; split; reflexivity].
Qed.

Lemma Inv_add now s ct ch a :
  Inv now s -> now <= ct -> add_wf (Add ct ch a) -> Inv ct (fst (add_epoch s ct ch a)).
Proof.
  intros [W N] Ht Ha.
  assert (W' : Forall (wf_info ct) s).
  { rewrite Forall_forall in *. intros x Hx. apply (wf_later now); auto. }
  destruct (add_epoch_cases s ct ch a) as [E|[Hid E]]; rewrite E; simpl.
  - split; assumption.
  - split.
    + rewrite Forall_forall in *. intros x Hx. apply In_insert in Hx. destruct Hx as [->|Hx]; [exact Ha|auto].
    + apply NoDup_insert; [exact N|]. simpl. intro X. apply has_id_ids in X. congruence.
Qed.

(* ---------------------------------------------------------------- InitGenesis at any point of a history *)

(** whatever AddEpochInfo preserves, InitGenesis (this tree: every write through AddEpochInfo) preserves *)
Lemma add_all_preserves (Q : state -> Prop) ct ch : forall gs s,
  Q s -> (forall s a, In a gs -> Q s -> Q (fst (add_epoch s ct ch a))) -> Q (fst (add_all true s ct ch gs)).
Proof.
  induction gs as [|a r IH]; intros s Hs Hstep; cbn [add_all]; [exact Hs|].
  pose proof (Hstep s a (or_introl eq_refl) Hs) as H1.
  destruct (add_epoch s ct ch a) as [s1 ok]. cbn [fst] in H1. destruct ok; [|exact H1].
  apply IH; [exact H1|]. intros s2 b Hb. apply Hstep. right. exact Hb.
Qed.

Lemma init_preserves (Q : state -> Prop) s ct ch gs :
  Q s -> (forall s a, In a gs -> Q s -> Q (fst (add_epoch s ct ch a))) -> Q (fst (init_genesis true s ct ch gs)).
Proof.
  intros Hs Hstep. unfold init_genesis. destruct (genesis_valid gs); [|exact Hs].
  apply add_all_preserves; assumption.
Qed.

Lemma Inv_init now s ct ch gs :
  Inv now s -> now <= ct -> Forall (fun a => wf_info ct (added ct ch a)) gs -> Inv ct (fst (init_genesis true s ct ch gs)).
Proof.
  intros [W N] Ht Ha. apply init_preserves.
  - split; [|exact N]. rewrite Forall_forall in *. intros x Hx. apply (wf_later now); auto.
  - intros s1 a Hin I1. apply (Inv_add ct); [exact I1|lia|]. cbn [add_wf]. rewrite Forall_forall in Ha. auto.
Qed.

Lemma length_insert x s : length (insert x s) = S (length s).
Proof.
  induction s as [|e s IH]; [reflexivity|]. cbn [insert]. destruct (Nat.ltb (e_id x) (e_id e)); cbn [length]; [reflexivity|].
  rewrite IH. reflexivity.
Qed.

Lemma length_add_epoch s ct ch a :
  length (fst (add_epoch s ct ch a)) = if snd (add_epoch s ct ch a) then S (length s) else length s.
Proof.
  destruct (add_epoch_cases s ct ch a) as [E|[_ E]]; rewrite E; cbn [fst snd]; [reflexivity|apply length_insert].
Qed.

(** InitGenesis never removes an info; with k definitions it adds at most k, and exactly k when it reports success *)
Lemma length_add_all ct ch : forall gs s,
  (length s <= length (fst (add_all true s ct ch gs)) <= length s + length gs)%nat /\
  (snd (add_all true s ct ch gs) = true -> length (fst (add_all true s ct ch gs)) = (length s + length gs)%nat).
Proof.
  induction gs as [|a r IH]; intro s; cbn [add_all length fst snd]; [split; [lia|intros _; lia]|].
  pose proof (length_add_epoch s ct ch a) as L.
  destruct (add_epoch s ct ch a) as [s1 ok]. cbn [fst snd] in L. destruct ok.
  - destruct (IH s1) as [A B]. rewrite L in *. split; [lia|]. intro X. rewrite (B X). lia.
  - cbn [fst snd]. rewrite L. split; [lia|discriminate].
Qed.

Lemma length_init s ct ch gs :
  (length s <= length (fst (init_genesis true s ct ch gs)) <= length s + length gs)%nat /\
  (snd (init_genesis true s ct ch gs) = true -> length (fst (init_genesis true s ct ch gs)) = (length s + length gs)%nat).
Proof.
  unfold init_genesis. destruct (genesis_valid gs); [apply length_add_all|]. cbn [fst snd]. split; [lia|discriminate].
Qed.

(* ---------------------------------------------------------------- whole traces *)

Lemma run_cons s o r :
  run s (o :: r) = (fst (run (fst (step s o)) r), snd (step s o) :: snd (run (fst (step s o)) r)).
Proof. simpl. destruct (step s o) as [s1 x]. simpl. destruct (run s1 r). reflexivity. Qed.

Lemma step_block s t h :
  step s (Block t h) = (fst (begin_block s t h),
                        {| o_ok := true; o_infos := fst (begin_block s t h); o_hooks := snd (begin_block s t h) |}).
Proof. unfold step. destruct (begin_block s t h). reflexivity. Qed.

Lemma step_add s ct ch a :
  step s (Add ct ch a) = (fst (add_epoch s ct ch a),
                          {| o_ok := snd (add_epoch s ct ch a); o_infos := fst (add_epoch s ct ch a); o_hooks := [] |}).
Proof. unfold step. destruct (add_epoch s ct ch a). reflexivity. Qed.

Lemma step_init g s via ct ch gs :
  step_v g s (Init via ct ch gs) =
  (fst (init_genesis g s ct ch gs),
   {| o_ok := via || snd (init_genesis g s ct ch gs); o_infos := fst (init_genesis g s ct ch gs); o_hooks := [] |}).
Proof. unfold step_v. destruct (init_genesis g s ct ch gs). reflexivity. Qed.

Lemma step_infos s o : o_infos (snd (step s o)) = fst (step s o).
Proof. destruct o; [rewrite step_block|rewrite step_add|rewrite step_init]; reflexivity. Qed.

Lemma Inv_step now s o : Inv now s -> now <= op_time o -> add_wf o -> Inv (op_time o) (fst (step s o)).
Proof.
  intros I Ht Ha. destruct o as [t h|ct ch a|via ct ch gs].
  - rewrite step_block. exact (Inv_begin_block now s t h I Ht).
  - rewrite step_add. exact (Inv_add now s ct ch a I Ht Ha).
  - rewrite step_init. exact (Inv_init now s ct ch gs I Ht Ha).
Qed.

(* ---------------------------------------------------------------- lookup *)

Lemma lookup_none i s : lookup i s = None <-> ~ In i (ids s).
Proof.
  induction s as [|x s IH]; simpl; [intuition|].
  destruct (Nat.eqb (e_id x) i) eqn:E.
  - apply Nat.eqb_eq in E. split; [discriminate|]. intro H. exfalso. apply H. left. exact E.
  - apply Nat.eqb_neq in E. rewrite IH. intuition.
Qed.

Lemma lookup_begin_block i s t h :
  lookup i (fst (begin_block s t h)) = option_map (fun e => fst (step_info t h e)) (lookup i s).
Proof.
  rewrite begin_block_eq. simpl. induction s as [|x s IH]; simpl; [reflexivity|].
  destruct (step_info_static t h x) as [-> _]. destruct (Nat.eqb (e_id x) i); [reflexivity|exact IH].
Qed.

Lemma lookup_insert_other x s i : e_id x <> i -> lookup i (insert x s) = lookup i s.
Proof.
  intro Hx. induction s as [|e s IH]; simpl.
  - apply Nat.eqb_neq in Hx. rewrite Hx. reflexivity.
  - destruct (Nat.ltb (e_id x) (e_id e)); simpl.
    + apply Nat.eqb_neq in Hx. rewrite Hx. reflexivity.
    + rewrite IH. reflexivity.
Qed.

Lemma lookup_insert_same x s : lookup (e_id x) s = None -> lookup (e_id x) (insert x s) = Some x.
Proof.
  induction s as [|e s IH]; simpl; intro H.
  - rewrite Nat.eqb_refl. reflexivity.
  - destruct (Nat.eqb (e_id e) (e_id x)) eqn:E; [discriminate|].
    destruct (Nat.ltb (e_id x) (e_id e)); simpl.
    + rewrite Nat.eqb_refl. reflexivity.
    + rewrite E. apply IH. exact H.
Qed.

(** an existing identifier is never touched by AddEpochInfo *)
Lemma lookup_add i s ct ch a e :
  lookup i s = Some e -> lookup i (fst (add_epoch s ct ch a)) = Some e.
Proof.
  intro H. destruct (add_epoch_cases s ct ch a) as [E|[Hid E]]; rewrite E; simpl; [exact H|].
  rewrite lookup_insert_other; [exact H|]. simpl. intro X. subst i.
  destruct (lookup_In _ _ _ H) as [Hin Hi].
  assert (has_id (a_id a) s = true) by (apply has_id_ids; rewrite <- Hi; apply in_map; exact Hin).
  congruence.
Qed.

Lemma NoDup_add s ct ch a : NoDup (ids s) -> NoDup (ids (fst (add_epoch s ct ch a))).
Proof.
  intro N. destruct (add_epoch_cases s ct ch a) as [E|[Hid E]]; rewrite E; simpl; [exact N|].
  apply NoDup_insert; [exact N|]. simpl. intro X. apply has_id_ids in X. congruence.
Qed.

Lemma NoDup_init s ct ch gs : NoDup (ids s) -> NoDup (ids (fst (init_genesis true s ct ch gs))).
Proof. intro N. apply (init_preserves (fun s' => NoDup (ids s'))); [exact N|]. intros s1 a _. apply NoDup_add. Qed.

Lemma NoDup_step s o : NoDup (ids s) -> NoDup (ids (fst (step s o))).
Proof.
  intro N. destruct o as [t h|ct ch a|via ct ch gs]; [rewrite step_block|rewrite step_add|rewrite step_init]; cbn [fst].
  - rewrite ids_begin_block. exact N.
  - apply NoDup_add. exact N.
  - apply NoDup_init. exact N.
Qed.

(** an existing identifier is never touched by InitGenesis — the guard: every write of InitGenesis goes through
    AddEpochInfo's existence check; the running clocks survive a module re-initialisation *)
Lemma lookup_init i s ct ch gs e :
  lookup i s = Some e -> lookup i (fst (init_genesis true s ct ch gs)) = Some e.
Proof.
  intro H. apply (init_preserves (fun s' => lookup i s' = Some e)); [exact H|].
  intros s1 a _ H1. apply lookup_add. exact H1.
Qed.

(** ops that are not blocks keep every stored info and call no hook *)
Lemma step_keep s o :
  match o with Block _ _ => True | _ => P_keep s (o_infos (snd (step s o))) (o_hooks (snd (step s o))) end.
Proof.
  destruct o as [t h|ct ch a|via ct ch gs]; [exact I| |].
  - rewrite step_add. cbn [snd o_infos o_hooks]. split; [|reflexivity]. intros i e H. apply lookup_add. exact H.
  - rewrite step_init. cbn [snd o_infos o_hooks]. split; [|reflexivity]. intros i e H. apply lookup_init. exact H.
Qed.

(** MAIN (per block, along any history of blocks, AddEpochInfo calls and InitGenesis runs): the model's trace
    satisfies the property *)
Theorem trace_satisfies_property : forall ops now s,
  Inv now s -> ops_ok now ops -> P_trace s (combine ops (snd (run s ops))).
Proof.
  induction ops as [|o r IH]; intros now s Iv Ho; [simpl; exact I|].
  destruct Ho as [Ht [Ha Hr]]. rewrite run_cons. cbn [snd combine].
  pose proof (Inv_step now s o Iv Ht Ha) as I'.
  pose proof (IH _ _ I' Hr) as Hrest.
  pose proof (step_keep s o) as K.
  destruct o as [t h|ct ch a|via ct ch gs]; cbn [P_trace]; rewrite step_infos.
  - split; [|exact Hrest]. rewrite step_block. cbn [snd o_ok o_infos o_hooks]. exact (begin_block_P now s t h Iv Ht).
  - rewrite step_infos in K. split; [exact K|exact Hrest].
  - rewrite step_infos in K. split; [exact K|exact Hrest].
Qed.

(* ---------------------------------------------------------------- monotone epoch numbers *)

(** the part of well-formedness monotonicity needs: an epoch that is not counting has number <= 1 *)
Definition cur_ok (e : einfo) : Prop := e_started e = false -> e_cur e <= 1.

Definition add_cur_ok (o : op) : Prop :=
  match o with
  | Block _ _ => True
  | Add ct ch a => cur_ok (added ct ch a)
  | Init _ ct ch gs => Forall (fun a => cur_ok (added ct ch a)) gs
  end.

Lemma cur_ok_add s ct ch a : Forall cur_ok s -> cur_ok (added ct ch a) -> Forall cur_ok (fst (add_epoch s ct ch a)).
Proof.
  intros Hs Ha. destruct (add_epoch_cases s ct ch a) as [E|[Hid E]]; rewrite E; simpl; [exact Hs|].
  rewrite Forall_forall in *. intros x Hx. apply In_insert in Hx. destruct Hx as [->|Hx]; auto.
Qed.

Lemma step_info_cur t h e :
  cur_ok e ->
  cur_ok (fst (step_info t h e)) /\ e_cur e <= e_cur (fst (step_info t h e)) <= Z.max 1 (e_cur e + 1) /\
  (e_started e = true -> e_started (fst (step_info t h e)) = true /\
                         e_cur (fst (step_info t h e)) <= e_cur e + 1).
Proof.
  intro C. unfold step_info, tick, cur_ok in *.
  destruct (should_tick e t); [destruct (e_started e) eqn:Es|]; simpl.
  - repeat split; intros; try discriminate; lia.
  - specialize (C eq_refl). repeat split; intros; try discriminate; lia.
  - repeat split; intros; auto; lia.
Qed.

Theorem epoch_number_monotone : forall ops s i e,
  Forall cur_ok s -> Forall add_cur_ok ops -> lookup i s = Some e ->
  exists e', lookup i (fst (run s ops)) = Some e' /\ e_cur e <= e_cur e' /\
             e_id e' = e_id e /\ e_start e' = e_start e /\ e_dur e' = e_dur e /\
             (e_started e = true -> e_started e' = true).
Proof.
  induction ops as [|o r IH]; intros s i e Hs Ho Hl.
  - exists e. simpl. repeat split; auto; lia.
  - rewrite run_cons. cbn [fst]. inversion Ho as [|? ? Ho1 Ho2]; subst.
    destruct o as [t h|ct ch a|via ct ch gs].
    + assert (Hs' : Forall cur_ok (fst (step s (Block t h)))).
      { rewrite step_block, begin_block_eq. cbn [fst].
        rewrite Forall_forall in *. intros x Hx. apply in_map_iff in Hx. destruct Hx as [y [<- Hy]].
        apply step_info_cur. auto. }
      assert (Hl' : lookup i (fst (step s (Block t h))) = Some (fst (step_info t h e))).
      { rewrite step_block. cbn [fst]. rewrite lookup_begin_block, Hl. reflexivity. }
      destruct (IH _ _ _ Hs' Ho2 Hl') as [e' [L [C [S1 [S2 [S3 S4]]]]]].
      exists e'. destruct (lookup_In _ _ _ Hl) as [Hin _].
      assert (Ce : cur_ok e) by (rewrite Forall_forall in Hs; auto).
      destruct (step_info_cur t h e Ce) as [_ [[M1 _] M3]].
      destruct (step_info_static t h e) as [T1 [T2 T3]].
      split; [exact L|]. split; [lia|]. split; [congruence|]. split; [congruence|]. split; [congruence|].
      intro X. apply S4. apply M3. exact X.
    + assert (Hs' : Forall cur_ok (fst (step s (Add ct ch a)))).
      { rewrite step_add. cbn [fst]. apply cur_ok_add; assumption. }
      assert (Hl' : lookup i (fst (step s (Add ct ch a))) = Some e).
      { rewrite step_add. cbn [fst]. exact (lookup_add i s ct ch a e Hl). }
      exact (IH _ _ _ Hs' Ho2 Hl').
    + assert (Hs' : Forall cur_ok (fst (step s (Init via ct ch gs)))).
      { rewrite step_init. cbn [fst]. apply (init_preserves (Forall cur_ok)); [exact Hs|].
        intros s1 a Hin H1. apply cur_ok_add; [exact H1|]. cbn [add_cur_ok] in Ho1. rewrite Forall_forall in Ho1. auto. }
      assert (Hl' : lookup i (fst (step s (Init via ct ch gs))) = Some e).
      { rewrite step_init. cbn [fst]. exact (lookup_init i s ct ch gs e Hl). }
      exact (IH _ _ _ Hs' Ho2 Hl').
Qed.

(* ---------------------------------------------------------------- hooks exactly once, in order *)

Lemma span_n_S i a k : span_n i a (S k) = [AfterEnd i a; BeforeStart i (a + 1)] ++ span_n i (a + 1) k.
Proof.
  unfold span_n. rewrite <- cons_seq, <- seq_shift. simpl. rewrite Z.add_0_r. do 2 f_equal.
  rewrite map_map. f_equal. apply map_ext. intro j. lia.
Qed.

Lemma span_step i a b : a + 1 <= b -> span i a b = [AfterEnd i a; BeforeStart i (a + 1)] ++ span i (a + 1) b.
Proof.
  intro H. unfold span. replace (Z.to_nat (b - a)) with (S (Z.to_nat (b - (a + 1)))) by lia. apply span_n_S.
Qed.

Lemma span_empty i a : span i a a = [].
Proof. unfold span. rewrite Z.sub_diag. reflexivity. Qed.

(** started infos stay started and never go back, whatever the genesis looked like *)
Lemma started_monotone : forall ops s i e,
  lookup i s = Some e -> e_started e = true ->
  exists e', lookup i (fst (run s ops)) = Some e' /\ e_started e' = true /\ e_cur e <= e_cur e'.
Proof.
  induction ops as [|o r IH]; intros s i e Hl Hs.
  - exists e. simpl. repeat split; auto; lia.
  - rewrite run_cons. cbn [fst]. destruct o as [t h|ct ch a|via ct ch gs].
    + assert (Hl' : lookup i (fst (step s (Block t h))) = Some (fst (step_info t h e))).
      { rewrite step_block. cbn [fst]. rewrite lookup_begin_block, Hl. reflexivity. }
      assert (Q : e_started (fst (step_info t h e)) = true /\ e_cur e <= e_cur (fst (step_info t h e))).
      { unfold step_info, tick. rewrite Hs. destruct (should_tick e t); simpl; split; auto; lia. }
      destruct Q as [Q1 Q2]. destruct (IH _ _ _ Hl' Q1) as [e' [L [A B]]].
      exists e'. repeat split; auto; lia.
    + assert (Hl' : lookup i (fst (step s (Add ct ch a))) = Some e).
      { rewrite step_add. cbn [fst]. exact (lookup_add i s ct ch a e Hl). }
      exact (IH _ _ _ Hl' Hs).
    + assert (Hl' : lookup i (fst (step s (Init via ct ch gs))) = Some e).
      { rewrite step_init. cbn [fst]. exact (lookup_init i s ct ch gs e Hl). }
      exact (IH _ _ _ Hl' Hs).
Qed.

Lemma all_hooks_cons x xs : all_hooks (x :: xs) = o_hooks x ++ all_hooks xs.
Proof. reflexivity. Qed.

(** MAIN (whole histories, no assumption on times or on the genesis counters): the hook calls for an
    identifier are exactly the consecutive AfterEpochEnd n / BeforeEpochStart (n+1) pairs leading from
    its first to its last epoch number, preceded by BeforeEpochStart 1 alone if counting started in
    this history *)
Theorem hooks_closed_form : forall ops s i e,
  NoDup (ids s) -> lookup i s = Some e ->
  exists e', lookup i (fst (run s ops)) = Some e' /\
             proj i (all_hooks (snd (run s ops))) = expected e e'.
Proof.
  induction ops as [|o r IH]; intros s i e N Hl.
  - exists e. split; [exact Hl|]. simpl. unfold expected.
    destruct (e_started e); [rewrite span_empty|]; reflexivity.
  - rewrite run_cons. cbn [fst]. cbn [snd]. rewrite all_hooks_cons, proj_app.
    pose proof (NoDup_step s o N) as N'.
    destruct (lookup_In _ _ _ Hl) as [Hin Hi].
    destruct o as [t h|ct ch a|via ct ch gs].
    + assert (Hl' : lookup i (fst (step s (Block t h))) = Some (fst (step_info t h e))).
      { rewrite step_block. cbn [fst]. rewrite lookup_begin_block, Hl. reflexivity. }
      assert (Hh : proj i (o_hooks (snd (step s (Block t h)))) = snd (step_info t h e)).
      { rewrite step_block, begin_block_eq. simpl. rewrite <- Hi. apply block_hooks_proj; assumption. }
      destruct (IH _ _ _ N' Hl') as [e' [L Hp]].
      exists e'. split; [exact L|]. rewrite Hh, Hp. clear Hh Hp IH.
      destruct (step_info_static t h e) as [T1 _].
      unfold expected. rewrite T1. unfold step_info in *.
      destruct (should_tick e t); [|reflexivity].
      unfold tick in *. destruct (e_started e) eqn:Es; simpl in *.
      * destruct (started_monotone r _ _ _ Hl' eq_refl) as [e2 [L2 [_ M]]]. simpl in M.
        rewrite L in L2. inversion L2; subst e2.
        rewrite (span_step (e_id e) (e_cur e) (e_cur e')) by lia. reflexivity.
      * destruct (started_monotone r _ _ _ Hl' eq_refl) as [e2 [L2 [St _]]].
        rewrite L in L2. inversion L2; subst e2. rewrite St. reflexivity.
    + assert (Hl' : lookup i (fst (step s (Add ct ch a))) = Some e).
      { rewrite step_add. cbn [fst]. exact (lookup_add i s ct ch a e Hl). }
      assert (Hh : o_hooks (snd (step s (Add ct ch a))) = []).
      { rewrite step_add. reflexivity. }
      rewrite Hh. simpl. exact (IH _ _ _ N' Hl').
    + assert (Hl' : lookup i (fst (step s (Init via ct ch gs))) = Some e).
      { rewrite step_init. cbn [fst]. exact (lookup_init i s ct ch gs e Hl). }
      assert (Hh : o_hooks (snd (step s (Init via ct ch gs))) = []).
      { rewrite step_init. reflexivity. }
      rewrite Hh. simpl. exact (IH _ _ _ N' Hl').
Qed.

(** an identifier that is not defined receives no hook call *)
Lemma no_hooks_for_absent_id s t h i :
  lookup i s = None -> proj i (snd (begin_block s t h)) = [].
Proof.
  intro H. rewrite begin_block_eq. simpl. apply block_hooks_absent. apply lookup_none. exact H.
Qed.

(* exactly-once as a count *)

Definition hook_eq_dec (a b : hook) : {a = b} + {a <> b}.
Proof. decide equality; try apply Z.eq_dec; apply Nat.eq_dec. Defined.

Ltac zb :=
  repeat match goal with
         | |- context [?a <=? ?b] => destruct (Z.leb_spec a b)
         | |- context [?a <? ?b] => destruct (Z.ltb_spec a b)
         end; cbn [andb]; try reflexivity; try (exfalso; lia).

Lemma count_span_n_end i a k n :
  count_occ hook_eq_dec (span_n i a k) (AfterEnd i n) =
  if (a <=? n) && (n <? a + Z.of_nat k) then 1%nat else 0%nat.
Proof.
  revert a. induction k as [|k IH]; intro a.
  - cbn [span_n seq map flat_map count_occ]. zb.
  - rewrite span_n_S. cbn [app]. destruct (Z.eq_dec a n) as [->|Hn].
    + rewrite count_occ_cons_eq by reflexivity. rewrite count_occ_cons_neq by discriminate. rewrite IH. zb.
    + rewrite count_occ_cons_neq by congruence. rewrite count_occ_cons_neq by discriminate. rewrite IH. zb.
Qed.

Lemma count_span_n_start i a k n :
  count_occ hook_eq_dec (span_n i a k) (BeforeStart i n) =
  if (a + 1 <=? n) && (n <? a + 1 + Z.of_nat k) then 1%nat else 0%nat.
Proof.
  revert a. induction k as [|k IH]; intro a.
  - cbn [span_n seq map flat_map count_occ]. zb.
  - rewrite span_n_S. cbn [app]. rewrite count_occ_cons_neq by discriminate.
    destruct (Z.eq_dec (a + 1) n) as [<-|Hn].
    + rewrite count_occ_cons_eq by reflexivity. rewrite IH. zb.
    + rewrite count_occ_cons_neq by congruence. rewrite IH. zb.
Qed.

(** for an identifier that is counting at the start of a history: AfterEpochEnd(n) is delivered exactly
    once for every epoch number the identifier leaves, BeforeEpochStart(n) exactly once for every number
    it enters, and never otherwise *)
Theorem hooks_exactly_once : forall ops s i e,
  NoDup (ids s) -> lookup i s = Some e -> e_started e = true ->
  exists e', lookup i (fst (run s ops)) = Some e' /\ e_cur e <= e_cur e' /\
    (forall n, count_occ hook_eq_dec (proj i (all_hooks (snd (run s ops)))) (AfterEnd i n) =
               if (e_cur e <=? n) && (n <? e_cur e') then 1%nat else 0%nat) /\
    (forall n, count_occ hook_eq_dec (proj i (all_hooks (snd (run s ops)))) (BeforeStart i n) =
               if (e_cur e + 1 <=? n) && (n <=? e_cur e') then 1%nat else 0%nat).
Proof.
  intros ops s i e N Hl Hs.
  destruct (hooks_closed_form ops s i e N Hl) as [e' [L Hp]].
  destruct (started_monotone ops s i e Hl Hs) as [e2 [L2 [_ M]]].
  rewrite L in L2. inversion L2; subst e2.
  destruct (lookup_In _ _ _ Hl) as [_ Hi].
  exists e'. split; [exact L|]. split; [exact M|].
  rewrite Hp. unfold expected. rewrite Hs, Hi. unfold span. split; intro n.
  - rewrite count_span_n_end. zb.
  - rewrite count_span_n_start. zb.
Qed.

(* ---------------------------------------------------------------- single-block facts *)

(** exact code condition, no hypothesis at all *)
Lemma tick_iff_exact t h e :
  e_cur (fst (step_info t h e)) <> e_cur e \/ e_started (fst (step_info t h e)) <> e_started e ->
  e_start e <= t /\ (e_started e = false \/ e_cur_start e + e_dur e <= t).
Proof.
  unfold step_info. destruct (should_tick e t) eqn:St.
  - intros _. apply should_tick_exact. exact St.
  - simpl. intros [H|H]; contradiction H; reflexivity.
Qed.

Lemma start_is_block t h e :
  should_tick e t = true ->
  e_cur_start (fst (step_info t h e)) = t /\ e_height (fst (step_info t h e)) = h /\
  e_started (fst (step_info t h e)) = true.
Proof. intro St. unfold step_info, tick. rewrite St. destruct (e_started e); simpl; auto. Qed.

Lemma no_tick_unchanged t h e : should_tick e t = false -> step_info t h e = (e, []).
Proof. intro St. unfold step_info. rewrite St. reflexivity. Qed.

(** a second block with the same timestamp does not tick again (positive duration) *)
Lemma equal_time_no_second_tick t h h' e :
  0 < e_dur e -> should_tick e t = true -> step_info t h' (fst (step_info t h e)) = (fst (step_info t h e), []).
Proof.
  intros Hd St. apply no_tick_unchanged. unfold step_info, tick. rewrite St.
  unfold should_tick. destruct (e_started e); simpl; apply andb_false_iff; right; apply Z.leb_gt; lia.
Qed.

(** a clock that goes back (or stands still) before the epoch's end never ticks a counting epoch *)
Lemma earlier_time_no_tick t h e :
  e_started e = true -> t < e_cur_start e + e_dur e -> step_info t h e = (e, []).
Proof.
  intros Hs Ht. apply no_tick_unchanged. unfold should_tick. rewrite Hs. simpl.
  apply andb_false_iff. right. apply Z.leb_gt. exact Ht.
Qed.

(** a long stall is one tick: epochs are not caught up, the new epoch starts at the block's time *)
Lemma stall_is_one_tick t h e k :
  e_started e = true -> e_start e <= t -> 0 <= k -> e_cur_start e + (k + 1) * e_dur e <= t -> 0 <= e_dur e ->
  e_cur (fst (step_info t h e)) = e_cur e + 1 /\ e_cur_start (fst (step_info t h e)) = t.
Proof.
  intros Hs H0 Hk Ht Hd.
  assert (St : should_tick e t = true).
  { apply should_tick_exact. split; [exact H0|right]. nia. }
  unfold step_info, tick. rewrite St, Hs. simpl. auto.
Qed.

(** a non-positive duration (Validate only rejects 0; negative passes) ticks in every block *)
Lemma nonpositive_duration_ticks_every_block t e :
  e_started e = true -> e_dur e <= 0 -> e_start e <= t -> e_cur_start e <= t -> should_tick e t = true.
Proof. intros Hs Hd H0 H1. apply should_tick_exact. split; [exact H0|right; lia]. Qed.

(** advance by exactly one <-> the property's condition *)
Lemma tick_iff_cond now t h e :
  wf_info now e -> (now <= t \/ 0 <= e_dur e) ->
  (e_cur (fst (step_info t h e)) = e_cur e + 1 <-> cond e t).
Proof.
  intros W Ht.
  assert (X : P_info t h (snd (step_info t h e)) e (fst (step_info t h e))).
  { apply (step_info_P now); auto. apply proj_all. intros x Hx. apply (step_info_hook_ids _ _ _ _ Hx). }
  apply X.
Qed.

(** one block moves an identifier by at most one epoch and delivers at most one pair of hooks for it *)
Lemma at_most_one_per_block s t h i e :
  NoDup (ids s) -> lookup i s = Some e -> (e_started e = false -> e_cur e = 0) ->
  exists e', lookup i (fst (begin_block s t h)) = Some e' /\
    ((e' = e /\ proj i (snd (begin_block s t h)) = []) \/
     (e_cur e' = e_cur e + 1 /\ proj i (snd (begin_block s t h)) = tick_hooks e)).
Proof.
  intros N Hl W. destruct (lookup_In _ _ _ Hl) as [Hin Hi].
  exists (fst (step_info t h e)). split; [rewrite lookup_begin_block, Hl; reflexivity|].
  rewrite begin_block_eq. cbn [snd]. rewrite <- Hi, (block_hooks_proj t h s e N Hin).
  unfold step_info. destruct (should_tick e t); [right|left; auto].
  unfold tick, tick_hooks. destruct (e_started e); simpl; [auto|]. rewrite (W eq_refl). auto.
Qed.

(* ---------------------------------------------------------------- outside the precondition *)

Definition bad_unstarted : einfo :=
  {| e_id := 0; e_start := 0; e_dur := 10; e_cur := 5; e_cur_start := 0; e_height := 0; e_started := false |}.

Lemma monotone_refuted_for_unstarted_nonzero_epoch :
  exists e t h, e_started e = false /\ e_cur (fst (step_info t h e)) < e_cur e.
Proof. exists bad_unstarted, 0, 1. vm_compute. split; reflexivity. Qed.

Definition bad_started : einfo :=
  {| e_id := 0; e_start := 100; e_dur := 10; e_cur := 3; e_cur_start := 0; e_height := 0; e_started := true |}.

Lemma tick_iff_refuted_for_started_before_start_time :
  exists e t h, e_started e = true /\ cond e t /\ step_info t h e = (e, []).
Proof.
  exists bad_started, 50, 1. split; [reflexivity|]. split; [|reflexivity].
  right. split; [reflexivity|]. vm_compute. discriminate.
Qed.

(* ---------------------------------------------------------------- the checker's precondition *)

Lemma wfb_sound now e : wfb now e = true -> wf_info now e.
Proof.
  unfold wfb, wf_info. destruct (e_started e).
  - intro H. apply andb_true_iff in H. destruct H as [A B]. apply Z.leb_le in A. apply Z.leb_le in B.
    split; [discriminate|auto].
  - intro H. apply Z.eqb_eq in H. split; [auto|discriminate].
Qed.

Lemma ops_ok_of_bool : forall ops now,
  times_ok now ops = true -> forallb add_wfb ops = true -> ops_ok now ops.
Proof.
  induction ops as [|o r IH]; intros now Ht Ha; simpl in *; [exact I|].
  apply andb_true_iff in Ht. destruct Ht as [T1 T2]. apply andb_true_iff in Ha. destruct Ha as [A1 A2].
  split; [apply Z.leb_le; exact T1|]. split; [|apply IH; assumption].
  destruct o; simpl in *; [exact I|apply wfb_sound; exact A1|].
  rewrite Forall_forall. rewrite forallb_forall in A1. intros x Hx. apply wfb_sound. auto.
Qed.

(** wherever the check evaluates the property on a trace ([pre] holds, identifiers distinct), the model is
    inside the hypotheses of [trace_satisfies_property] *)
Lemma pre_sound c :
  pre c = true -> NoDup (ids (c_init c)) ->
  Inv (first_time (map fst (c_tr c))) (c_init c) /\ ops_ok (first_time (map fst (c_tr c))) (map fst (c_tr c)).
Proof.
  unfold pre. intros H N. apply andb_true_iff in H. destruct H as [H H3].
  apply andb_true_iff in H. destruct H as [H1 H2]. split.
  - split; [|exact N]. rewrite Forall_forall. rewrite forallb_forall in H1. intros x Hx. apply wfb_sound. auto.
  - apply ops_ok_of_bool; assumption.
Qed.

(* ---------------------------------------------------------------- non-vacuity *)

Definition day : Z := 86400.
Definition ex_ops : list op :=
  [Add 100 1 {| a_id := 1; a_empty := false; a_start := None; a_dur := day; a_cur := 0; a_cur_start := 0;
                a_height := 0; a_started := false |};
   Block 100 2; Block 100 3; Block (100 + day - 1) 4; Block (100 + day) 5; Block (100 + 7 * day) 6;
   Add (100 + 7 * day) 6 {| a_id := 0; a_empty := false; a_start := Some (100 + 8 * day); a_dur := 5; a_cur := 0;
                            a_cur_start := 0; a_height := 0; a_started := false |};
   Block (100 + 8 * day) 7; Block (100 + 8 * day + 5) 8].

Example ex_ops_ok : Inv 100 [] /\ ops_ok 100 ex_ops.
Proof.
  split; [split; constructor|]. unfold ex_ops, day. simpl.
  repeat split; try lia; try discriminate; intros; try lia.
Qed.

Example ex_trace :
  all_hooks (snd (run [] ex_ops)) =
  [BeforeStart 1 1; AfterEnd 1 1; BeforeStart 1 2; AfterEnd 1 2; BeforeStart 1 3;
   BeforeStart 0 1; AfterEnd 1 3; BeforeStart 1 4; AfterEnd 0 1; BeforeStart 0 2].
Proof. vm_compute. reflexivity. Qed.

Example ex_started_nonvacuous :
  let s := fst (run [] (firstn 2 ex_ops)) in
  NoDup (ids s) /\ exists e, lookup 1%nat s = Some e /\ e_started e = true /\ wf_info 100 e.
Proof.
  vm_compute. split; [repeat constructor; intros []|]. eexists. split; [reflexivity|].
  split; [reflexivity|]. split; [discriminate|]. intros _. split; discriminate.
Qed.

Example ex_pre_nonvacuous :
  pre {| c_k := 2; c_fail := ({| g_id := 0; g_n := 0; g_end := true |}, 0%nat); c_init := []; c_tr := map (fun o => (o, {| b_ok := true; b_infos := []; b_keys := []; b_log := [] |})) ex_ops |} = true.
Proof. vm_compute. reflexivity. Qed.

(* ---------------------------------------------------------------- MultiEpochHooks fan-out *)

Lemma fanout_one_call (c : hook) (r : nat) : forall k a,
  filter (fun x : nat * hook => Nat.eqb (fst x) r) (map (fun r' => (r', c)) (seq a k)) =
  if (Nat.leb a r && Nat.ltb r (a + k))%bool then [(r, c)] else [].
Proof.
  induction k as [|k IH]; intro a.
  - cbn [seq map filter]. destruct (Nat.leb_spec a r), (Nat.ltb_spec r (a + 0)); cbn [andb]; try reflexivity. lia.
  - cbn [seq map filter fst]. rewrite IH. destruct (Nat.eqb_spec a r) as [->|Ne].
    + destruct (Nat.leb_spec (S r) r); [lia|]. cbn [andb].
      destruct (Nat.leb_spec r r); [|lia]. destruct (Nat.ltb_spec r (r + S k)); [|lia]. reflexivity.
    + destruct (Nat.leb_spec (S a) r), (Nat.leb_spec a r), (Nat.ltb_spec r (S a + k)), (Nat.ltb_spec r (a + S k));
        cbn [andb]; try reflexivity; lia.
Qed.

(** every one of the k registered hooks sees every call, once, in order *)
Lemma fanout_each_hook_sees_every_call k l r :
  (r < k)%nat -> map snd (filter (fun x : nat * hook => Nat.eqb (fst x) r) (fanout k l)) = l.
Proof.
  intro Hr. unfold fanout. induction l as [|c l IH]; [reflexivity|].
  cbn [flat_map]. rewrite filter_app, map_app, IH, fanout_one_call.
  destruct (Nat.leb_spec 0 r); [|lia]. destruct (Nat.ltb_spec r (0 + k)); [|lia]. reflexivity.
Qed.

(* ---------------------------------------------------------------- a failing hook receiver *)

Lemma step_f_block g s lf t h :
  step_f g (s, lf) (Block t h) =
  match lf with
  | S lf' => if existsb (hook_matches g) (snd (begin_block s t h))
             then ((s, lf'), {| o_ok := false; o_infos := s; o_hooks := [] |})
             else ((fst (begin_block s t h), lf),
                   {| o_ok := true; o_infos := fst (begin_block s t h); o_hooks := snd (begin_block s t h) |})
  | O => ((fst (begin_block s t h), lf),
          {| o_ok := true; o_infos := fst (begin_block s t h); o_hooks := snd (begin_block s t h) |})
  end.
Proof. unfold step_f. destruct (begin_block s t h). reflexivity. Qed.

Lemma step_f_add g s lf ct ch a :
  step_f g (s, lf) (Add ct ch a) =
  ((fst (add_epoch s ct ch a), lf),
   {| o_ok := snd (add_epoch s ct ch a); o_infos := fst (add_epoch s ct ch a); o_hooks := [] |}).
Proof. unfold step_f. destruct (add_epoch s ct ch a). reflexivity. Qed.

Lemma step_f_init g s lf via ct ch gs :
  step_f g (s, lf) (Init via ct ch gs) =
  ((fst (init_genesis true s ct ch gs), lf),
   {| o_ok := via || snd (init_genesis true s ct ch gs); o_infos := fst (init_genesis true s ct ch gs); o_hooks := [] |}).
Proof. unfold step_f. destruct (init_genesis true s ct ch gs). reflexivity. Qed.

Lemma run_f_cons g sl o r :
  run_f g sl (o :: r) = (fst (run_f g (fst (step_f g sl o)) r), snd (step_f g sl o) :: snd (run_f g (fst (step_f g sl o)) r)).
Proof. cbn [run_f]. destruct (step_f g sl o) as [sl1 x]. cbn [fst snd]. destruct (run_f g sl1 r). reflexivity. Qed.

(** a panicking hook aborts the block: nothing is committed (and one failure is used up) *)
Lemma abort_commits_nothing g s lf t h :
  existsb (hook_matches g) (snd (begin_block s t h)) = true ->
  step_f g (s, S lf) (Block t h) = ((s, lf), {| o_ok := false; o_infos := s; o_hooks := [] |}).
Proof. intro H. rewrite step_f_block, H. reflexivity. Qed.

(** a block that is committed is exactly BeginBlocker's block: its state, its complete hook list *)
Lemma committed_block_is_complete g s lf t h :
  o_ok (snd (step_f g (s, lf) (Block t h))) = true ->
  fst (fst (step_f g (s, lf) (Block t h))) = fst (begin_block s t h) /\
  o_infos (snd (step_f g (s, lf) (Block t h))) = fst (begin_block s t h) /\
  o_hooks (snd (step_f g (s, lf) (Block t h))) = snd (begin_block s t h).
Proof.
  rewrite step_f_block. destruct lf as [|lf]; [cbn; auto|].
  destruct (existsb (hook_matches g) (snd (begin_block s t h))); cbn; [discriminate|auto].
Qed.

(** without failures the model is the plain one *)
Lemma run_f_no_failures g : forall ops s, snd (run_f g (s, O) ops) = snd (run s ops) /\ fst (fst (run_f g (s, O) ops)) = fst (run s ops).
Proof.
  induction ops as [|o r IH]; intro s; [split; reflexivity|].
  rewrite run_f_cons, run_cons. destruct o as [t h|ct ch a|via ct ch gs].
  - rewrite step_f_block, step_block. cbn [fst snd]. destruct (IH (fst (begin_block s t h))) as [A B]. rewrite A, B. auto.
  - rewrite step_f_add, step_add. cbn [fst snd]. destruct (IH (fst (add_epoch s ct ch a))) as [A B]. rewrite A, B. auto.
  - rewrite step_f_init, step_init. cbn [fst snd]. destruct (IH (fst (init_genesis true s ct ch gs))) as [A B]. rewrite A, B. auto.
Qed.

(** MAIN with a failing receiver: along every history every block either is aborted and commits nothing, or is
    committed and satisfies the per-block property with its complete hook list *)
Theorem trace_f_satisfies_property g : forall ops now s lf,
  Inv now s -> ops_ok now ops -> P_trace s (combine ops (snd (run_f g (s, lf) ops))).
Proof.
  induction ops as [|o r IH]; intros now s lf Iv Ho; [simpl; exact I|].
  destruct Ho as [Ht [Ha Hr]]. rewrite run_f_cons. cbn [snd combine].
  destruct o as [t h|ct ch a|via ct ch gs]; cbn [P_trace].
  - rewrite step_f_block. cbn [op_time] in *.
    assert (Keep : Inv t s) by (destruct Iv as [W N]; split; [|exact N]; rewrite Forall_forall in *; intros x Hx; apply (wf_later now); auto).
    pose proof (Inv_begin_block now s t h Iv Ht) as Adv.
    destruct lf as [|lf].
    + cbn [fst snd o_ok o_infos o_hooks]. split; [exact (begin_block_P now s t h Iv Ht)|]. exact (IH _ _ _ Adv Hr).
    + destruct (existsb (hook_matches g) (snd (begin_block s t h))); cbn [fst snd o_ok o_infos o_hooks].
      * split; [split; reflexivity|]. exact (IH _ _ _ Keep Hr).
      * split; [exact (begin_block_P now s t h Iv Ht)|]. exact (IH _ _ _ Adv Hr).
  - rewrite step_f_add. cbn [fst snd o_infos o_hooks]. split; [|exact (IH _ _ _ (Inv_add now s ct ch a Iv Ht Ha) Hr)].
    split; [|reflexivity]. intros i e H. apply lookup_add. exact H.
  - rewrite step_f_init. cbn [fst snd o_infos o_hooks]. split; [|exact (IH _ _ _ (Inv_init now s ct ch gs Iv Ht Ha) Hr)].
    split; [|reflexivity]. intros i e H. apply lookup_init. exact H.
Qed.

(** the receivers' logs: [fan_ok] says every receiver saw exactly the calls receiver 0 saw, in the same order *)
Lemma rec_hook_eqb_eq a b : rec_hook_eqb a b = true -> a = b.
Proof.
  destruct a, b. unfold rec_hook_eqb. cbn. intro H. apply andb_true_iff in H. destruct H as [A B].
  apply Nat.eqb_eq in A. apply hook_eqb_eq in B. subst. reflexivity.
Qed.

Lemma fan_ok_sound k o r :
  fan_ok k o = true -> (r < k)%nat ->
  map snd (filter (fun x : nat * hook => Nat.eqb (fst x) r) (b_log o)) = calls o.
Proof.
  unfold fan_ok. intros H Hr. apply (list_eqb_eq rec_hook_eqb rec_hook_eqb_eq) in H. rewrite <- H.
  apply fanout_each_hook_sees_every_call. exact Hr.
Qed.

(* ---------------------------------------------------------------- the store: one info per identifier, under its own key *)

(** The model keeps one info per identifier (the store key IS the identifier: AddEpochInfo inserts under
    epoch.Identifier, BeginBlocker writes back under epochInfo.Identifier — Gen/C14Facts.v).  Identifiers are arbitrary
    strings; the model only uses their equality and order. *)

Lemma length_begin_block s t h : length (fst (begin_block s t h)) = length s.
Proof. rewrite begin_block_eq. cbn [fst]. apply map_length. Qed.

(** number of stored infos after each op: initial ones + accepted additions; blocks (committed or aborted) add none *)
Fixpoint count_P (n : nat) (tr : list (op * out)) : Prop :=
  match tr with
  | [] => True
  | (Init via _ _ gs, x) :: r =>
      let m := length (o_infos x) in
      (n <= m <= n + length gs)%nat /\ (via = false -> o_ok x = true -> m = (n + length gs)%nat) /\ count_P m r
  | (o, x) :: r =>
      let n' := match o with Add _ _ _ => if o_ok x then S n else n | _ => n end in
      length (o_infos x) = n' /\ count_P n' r
  end.

Theorem store_invariant g : forall ops s lf,
  NoDup (ids s) ->
  Forall (fun x => NoDup (ids (o_infos x))) (snd (run_f g (s, lf) ops)) /\
  count_P (length s) (combine ops (snd (run_f g (s, lf) ops))).
Proof.
  induction ops as [|o r IH]; intros s lf N; [split; [constructor|exact I]|].
  rewrite run_f_cons. cbn [snd combine count_P]. destruct o as [t h|ct ch a|via ct ch gs].
  - rewrite step_f_block.
    assert (N' : NoDup (ids (fst (begin_block s t h)))) by (rewrite ids_begin_block; exact N).
    destruct lf as [|lf]; [|destruct (existsb (hook_matches g) (snd (begin_block s t h)))]; cbn [fst snd o_ok o_infos].
    + destruct (IH (fst (begin_block s t h)) O N') as [A B]. rewrite length_begin_block in *.
      split; [constructor; assumption|split; [reflexivity|exact B]].
    + destruct (IH s lf N) as [A B]. split; [constructor; assumption|split; [reflexivity|exact B]].
    + destruct (IH (fst (begin_block s t h)) (S lf) N') as [A B]. rewrite length_begin_block in *.
      split; [constructor; assumption|split; [reflexivity|exact B]].
  - rewrite step_f_add. cbn [fst snd o_ok o_infos].
    destruct (add_epoch_cases s ct ch a) as [E|[Hid E]]; rewrite E; cbn [fst snd].
    + destruct (IH s lf N) as [A B]. split; [constructor; assumption|split; [reflexivity|exact B]].
    + assert (N' : NoDup (ids (insert (added ct ch a) s))).
      { apply NoDup_insert; [exact N|]. cbn. intro X. apply has_id_ids in X. congruence. }
      destruct (IH _ lf N') as [A B]. rewrite length_insert in *.
      split; [constructor; assumption|split; [reflexivity|exact B]].
  - rewrite step_f_init. cbn [fst snd o_ok o_infos].
    pose proof (NoDup_init s ct ch gs N) as N'. destruct (length_init s ct ch gs) as [L1 L2].
    destruct (IH _ lf N') as [A B].
    split; [constructor; assumption|]. split; [exact L1|]. split; [|exact B].
    intros -> X. cbn [orb] in X. exact (L2 X).
Qed.

Lemma nodupb_sound l : nodupb l = true -> NoDup l.
Proof.
  induction l as [|x l IH]; intro H; [constructor|]. cbn in H. apply andb_true_iff in H. destruct H as [A B].
  constructor; [|apply IH; exact B]. intro X. apply negb_true_iff in A.
  assert (existsb (Nat.eqb x) l = true) by (apply existsb_exists; exists x; split; [exact X|apply Nat.eqb_refl]). congruence.
Qed.

Lemma nat_list_eqb_eq a b : list_eqb Nat.eqb a b = true -> a = b.
Proof. apply list_eqb_eq. intros x y H. apply Nat.eqb_eq. exact H. Qed.

Lemma keys_ok_sound o : keys_ok o = true -> b_keys o = ids (b_infos o) /\ NoDup (ids (b_infos o)).
Proof.
  unfold keys_ok. intro H. apply andb_true_iff in H. destruct H as [A B]. apply nat_list_eqb_eq in A.
  split; [exact A|]. rewrite <- A. apply nodupb_sound. exact B.
Qed.

Lemma count_ok_sound : forall tr n, count_ok n tr = true -> count_P n (map (fun x => (fst x, to_out (snd x))) tr).
Proof.
  induction tr as [|[o x] r IH]; intros n H; [exact I|]. cbn [map fst snd].
  destruct o as [t h|ct ch a|via ct ch gs]; cbn [count_ok count_P to_out o_infos o_ok] in *.
  - apply andb_true_iff in H. destruct H as [A B]. apply Nat.eqb_eq in A. split; [exact A|]. apply IH. exact B.
  - apply andb_true_iff in H. destruct H as [A B]. apply Nat.eqb_eq in A. split; [exact A|]. apply IH. exact B.
  - apply andb_true_iff in H. destruct H as [H D]. apply andb_true_iff in H. destruct H as [H C].
    apply andb_true_iff in H. destruct H as [A B]. apply Nat.leb_le in A. apply Nat.leb_le in B.
    split; [lia|]. split; [|apply IH; exact D]. intros -> X. rewrite X in C. cbn in C. apply Nat.eqb_eq in C. exact C.
Qed.

(* ---------------------------------------------------------------- module re-initialisation: examples and the unguarded variant *)

(** a rejected genesis state (an invalid definition, a duplicated identifier) writes nothing — in either variant *)
Lemma init_invalid_genesis_writes_nothing g s ct ch gs :
  genesis_valid gs = false -> init_genesis g s ct ch gs = (s, false).
Proof. intro H. unfold init_genesis. rewrite H. reflexivity. Qed.

(** InitGenesis on a store that already holds every identifier of the genesis state (the upgrade route with the
    default genesis) changes nothing at all *)
Lemma init_on_initialised_store_is_identity ct ch : forall gs s,
  gs <> [] -> (forall a, In a gs -> has_id (a_id a) s = true) -> init_genesis true s ct ch gs = (s, false).
Proof.
  intros gs s Hne Hall. unfold init_genesis. destruct (genesis_valid gs); [|reflexivity].
  destruct gs as [|a r]; [contradiction Hne; reflexivity|]. cbn [add_all].
  destruct (add_epoch_cases s ct ch a) as [E|[Hid E]]; rewrite E; [reflexivity|].
  rewrite (Hall a (or_introl eq_refl)) in Hid. discriminate.
Qed.

Definition fresh (i : nat) (d : Z) : add_args :=
  {| a_id := i; a_empty := false; a_start := None; a_dur := d; a_cur := 0; a_cur_start := 0; a_height := 0; a_started := false |}.
Definition ex_gs : list add_args := [fresh 1 10; fresh 2 70].

(** chain start (InitGenesis on the empty store), four blocks that take identifier 1 to epoch 4, then a software
    upgrade re-running InitGenesis with the same default genesis on the live store, in the same block as (and before)
    the epochs BeginBlocker, then one more block *)
Definition ex_before : list op := [Init true 100 1 ex_gs; Block 100 1; Block 110 2; Block 120 3; Block 130 4].
Definition ex_after : list op := [Init true 131 5 ex_gs; Block 131 5; Block 140 6].
Definition ex_reinit : list op := ex_before ++ ex_after.

Ltac all_forall :=
  repeat first [apply Forall_nil | apply Forall_cons];
  try exact I; try (unfold wf_info, cur_ok; cbn; repeat split; intros; try discriminate; lia).

Example ex_reinit_ok : Inv 100 [] /\ ops_ok 100 ex_reinit /\ Forall add_cur_ok ex_reinit.
Proof.
  split; [split; constructor|]. split.
  - unfold ex_reinit, ex_before, ex_after, ex_gs. cbn [app ops_ok op_time add_wf].
    repeat split; try lia; all_forall.
  - unfold ex_reinit, ex_before, ex_after, ex_gs. cbn [app]. all_forall.
Qed.

(** this tree: the re-initialisation is invisible — identifier 1 goes on from epoch 4 to 5, every call once *)
Example ex_reinit_trace :
  all_hooks (snd (run [] ex_reinit)) =
  [BeforeStart 1 1; BeforeStart 2 1; AfterEnd 1 1; BeforeStart 1 2; AfterEnd 1 2; BeforeStart 1 3;
   AfterEnd 1 3; BeforeStart 1 4; AfterEnd 1 4; BeforeStart 1 5] /\
  option_map e_cur (lookup 1%nat (fst (run [] ex_reinit))) = Some 5.
Proof. vm_compute. split; reflexivity. Qed.

(** the unguarded variant (InitGenesis writes each epoch directly): on the same history, inside every hypothesis of
    the theorems above, the epoch number of a running identifier DECREASES (4, then 1) … *)
Lemma monotone_refuted_for_unguarded_init :
  exists (ops : list op) (now : Z) (s : state) (i : nat) (e e' : einfo),
    Inv now s /\ ops_ok now ops /\ Forall cur_ok s /\ Forall add_cur_ok ops /\
    lookup i s = Some e /\ lookup i (fst (run_v false s ops)) = Some e' /\ e_cur e' < e_cur e.
Proof.
  exists ex_after, 130, (fst (run [] ex_before)), 1%nat.
  eexists. eexists.
  split; [|split; [|split; [|split; [|split; [vm_compute; reflexivity|split; [vm_compute; reflexivity|vm_compute; reflexivity]]]]]].
  - split.
    + vm_compute. all_forall.
    + vm_compute. repeat constructor; cbn; intros H; repeat (destruct H as [H|H]; [discriminate H|]); exact H.
  - unfold ex_after, ex_gs. cbn [ops_ok op_time add_wf]. repeat split; try lia; all_forall.
  - vm_compute. all_forall.
  - unfold ex_after, ex_gs. all_forall.
Qed.

(** … BeforeEpochStart(id, 1) is delivered a SECOND time and AfterEpochEnd(id, 4) / BeforeEpochStart(id, 5) of the
    interrupted epoch are never delivered … *)
Lemma hooks_once_refuted_for_unguarded_init :
  exists (ops : list op) (i : nat),
    Inv 100 [] /\ ops_ok 100 ops /\
    count_occ hook_eq_dec (proj i (all_hooks (snd (run_v false [] ops)))) (BeforeStart i 1) = 2%nat /\
    count_occ hook_eq_dec (proj i (all_hooks (snd (run_v false [] ops)))) (AfterEnd i 4) = 0%nat /\
    count_occ hook_eq_dec (proj i (all_hooks (snd (run [] ops)))) (BeforeStart i 1) = 1%nat /\
    count_occ hook_eq_dec (proj i (all_hooks (snd (run [] ops)))) (AfterEnd i 4) = 1%nat.
Proof.
  exists ex_reinit, 1%nat. destruct ex_reinit_ok as [A [B _]].
  split; [exact A|]. split; [exact B|]. vm_compute. repeat split; reflexivity.
Qed.

(** … and the op itself breaks [P_keep]: a stored, running info is replaced (number, start time and height rewritten) *)
Lemma init_keep_refuted_for_unguarded_init :
  exists (s : state) (ct ch : Z) (gs : list add_args) (i : nat) (e e' : einfo),
    lookup i s = Some e /\ e_started e = true /\
    lookup i (fst (init_genesis false s ct ch gs)) = Some e' /\
    e_cur e' < e_cur e /\ e_started e' = false /\ e_height e' <> e_height e /\
    lookup i (fst (init_genesis true s ct ch gs)) = Some e.
Proof.
  exists (fst (run [] ex_before)), 131, 5, ex_gs, 1%nat. eexists. eexists.
  vm_compute. repeat split; try reflexivity. discriminate.
Qed.

(* ---------------------------------------------------------------- counting started at epoch 0 *)

(** A definition may arrive (genesis, AddEpochInfo) with counting already started and epoch number 0.  Its advance
    0 -> 1 is NOT a "very first tick" (that is the tick that starts the counting): it is an ordinary advance — the end
    hook for the finished epoch 0, then the start hook for epoch 1 — and every receiver behind the fan-out sees both. *)
Lemma started_epoch_zero_advance_is_ordinary t h e k r :
  e_started e = true -> e_cur e = 0 -> should_tick e t = true -> (r < k)%nat ->
  e_cur (fst (step_info t h e)) = 1 /\
  snd (step_info t h e) = [AfterEnd (e_id e) 0; BeforeStart (e_id e) 1] /\
  tick_hooks e = [AfterEnd (e_id e) 0; BeforeStart (e_id e) 1] /\
  map snd (filter (fun x : nat * hook => Nat.eqb (fst x) r) (fanout k (snd (step_info t h e)))) =
  [AfterEnd (e_id e) 0; BeforeStart (e_id e) 1].
Proof.
  intros Hs Hc St Hr. rewrite fanout_each_hook_sees_every_call by exact Hr.
  unfold step_info, tick, tick_hooks. rewrite St, Hs, Hc. cbn. auto.
Qed.

Definition started_at_zero : einfo :=
  {| e_id := 0; e_start := 0; e_dur := 10; e_cur := 0; e_cur_start := 0; e_height := 0; e_started := true |}.

(** the variant whose fan-out drops AfterEpochEnd(id, 0): a well-formed, counting info at epoch 0 advances to 1 and no
    receiver sees the end hook of the finished epoch — the per-block property ([tick_hooks]) is false on every log *)
Lemma end_of_epoch_zero_refuted_for_skipping_fanout :
  exists (e : einfo) (t h : Z) (k r : nat),
    wf_info t e /\ e_started e = true /\ (r < k)%nat /\ e_cur (fst (step_info t h e)) = e_cur e + 1 /\
    map snd (filter (fun x : nat * hook => Nat.eqb (fst x) r) (fanout_v true k (snd (step_info t h e)))) <> tick_hooks e /\
    map snd (filter (fun x : nat * hook => Nat.eqb (fst x) r) (fanout_v false k (snd (step_info t h e)))) = tick_hooks e.
Proof.
  exists started_at_zero, 10, 1, 2%nat, 1%nat.
  split; [split; [discriminate|intros _; cbn; lia]|]. split; [reflexivity|]. split; [lia|].
  split; [reflexivity|]. split; [vm_compute; discriminate|vm_compute; reflexivity].
Qed.
